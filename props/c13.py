"""C13 -- PSD is power-normalised and band-limited RMS adds up.

Reference model (all written here with numpy only, nothing from prysm):

* frequency axis of n samples at spacing dx:  f_i = (i - n//2) / (n dx)  (== fftshift(fftfreq(n, dx)));
* PSD of a height map h under window w:  P[i, j] = |DFT2(h w)|^2 at frequency (fy_i, fx_j), times
  dx^2 / sum(w^2); the DFT is an explicit matrix product with exp(-2 pi i k n / N), the placement on
  the axes is index arithmetic ((i - n//2) mod n), no fft / fftshift is involved;
* Parseval:  sum(P) dfx dfy == sum((h w)^2) / sum(w^2)  with dfx = 1/(n1 dx), dfy = 1/(n0 dx);
* band-limited mean square over a < |f| < b:  U(a,b) = dfx dfy * sum of P over the samples whose radius
  lies in the band.  Band edges are mid-points between consecutive distinct sample radii (distinctness is
  decided on the exact integer key (j-n1//2)^2 n0^2 + (i-n0//2)^2 n1^2), so no sample sits on an edge.

Bound used for "reproduces the RMS of the windowed data to within the weight of the outermost frequency
samples".  A product trapezoid rule integrates  T = dfx dfy sum_ij t_i t_j P_ij  with t = 1/2 on the first
and last index of an axis and 1 elsewhere, while the windowed mean square is the plain sum
MS = dfx dfy sum_ij P_ij (Parseval).  Hence  MS - T = dfx dfy sum_{(i,j) in ring} (1 - t_i t_j) P_ij  where
the ring is the first/last row and column, and 0 <= 1 - t_i t_j <= 3/4 < 1, so
    |rms_full^2 - MS| <= E_ring := dfx dfy sum_{ring} P_ij.
The check demands exactly this inequality (plus rounding), with P the *reference* PSD; the same inequality
restricted to the samples of a band is demanded of every sub-band (ring intersected with the band).  A
rectangle rule (T = MS) satisfies it too.  For a unit impulse in the PSD array this says: interior samples
carry the weight dfx dfy exactly, ring samples a weight in [0, 2 dfx dfy].

Tolerances: k * eps * cond with k = 1e3 and cond = the sum of the non-negative terms being added
(sum((h wabs)^2)/sum(w^2) for integrals, (sum|h| wabs)^2 dx^2 / sum(w^2) for single PSD samples, where
wabs >= |w| is the sum of the magnitudes of the terms a window sample is computed from).  The measured rounding error of
the repaired tree over the whole scope is below 16 eps * cond (silent with k = 16), i.e. a margin of > 60.
"""
import zlib

import numpy as np

from mc import ScopeUnit, HistoryUnit, FAILED
from mc.core import case_key
from mc.state import reset_executors
from mc.linalg import dense

from prysm import interferogram as ig, fttools
from prysm.interferogram import Interferogram

ID = 'C13'
ASSUMPTIONS = [
    'the window *shapes* are taken from the documentation: hann = outer product of 0.5-0.5cos(2 pi k/(N-1)); '
    'welch = 1-(r/rmax)^4 on the n//2-centred grid with rmax the radius of the last-row centre-column sample; '
    'automatic = welch when the four 2%-of-the-samples corner blocks are all exactly zero, hann otherwise; when '
    'a corner block is empty (fewer than 26 samples on an axis) either window is accepted.  The reference '
    'recomputes them independently; Parseval is then demanded for whatever window was selected',
    'band-limited RMS over [a,b] means the square root of the 2-D integral of the PSD over a <= |f| <= b; a '
    'one-sided specification leaves the other side at the limit of the data (0 / largest sampled radius)',
    'total integrated scatter is 1-exp(-(4 pi cos(theta) sigma / lambda)^2) with sigma the band-limited RMS over spatial frequencies [0, 1000/lambda] '
    '(lambda in microns, frequencies in 1/mm, as the docstring and the code comment say) for the wavelength PASSED to the method',
    'numpy.random (legacy global generator) is the only randomness of the synthesis and is seeded per case',
]

EPS = float(np.finfo(float).eps)
K = 1e3


def par(n):
    return 'odd' if n % 2 else 'even'


def pc(n0, n1):
    return f'{par(n0)}x{par(n1)}'


def sq(n0, n1):
    return 'square' if n0 == n1 else 'nonsquare'


def prune(R, cap=3):
    """At most `cap` reports per signature and case (one defect must not produce thousands)."""
    seen = {}
    keep = []
    for v in R.violations:
        seen[v['sig']] = seen.get(v['sig'], 0) + 1
        if seen[v['sig']] <= cap:
            keep.append(v)
    R.violations[:] = keep


# ---------------------------------------------------------------------------------------------
# reference model

_DFT = {}


def dftmat(n):
    if n not in _DFT:
        k = np.arange(n)
        _DFT[n] = np.exp(-2j * np.pi * np.outer(k, k) / n)
    return _DFT[n]


def ref_axis(n, dx):
    return (np.arange(n) - n // 2) / (n * dx)


def ref_hann(n):
    k = np.arange(n)
    return 0.5 - 0.5 * np.cos(2 * np.pi * k / (n - 1))


def ref_welch(n0, n1, dx, alpha=4):
    y = (np.arange(n0) - n0 // 2) * dx
    x = (np.arange(n1) - n1 // 2) * dx
    r = np.sqrt(x[None, :] ** 2 + y[:, None] ** 2)
    rmax = r[n0 - 1, n1 // 2]
    return 1 - (r / rmax) ** alpha


def ref_psd(hw, dx):
    """|DFT2(hw)|^2 dx^2 laid out on the n//2-centred axes (not yet divided by sum(w^2))."""
    n0, n1 = hw.shape
    P = np.abs(dftmat(n0) @ hw @ dftmat(n1).T) ** 2
    i0 = (np.arange(n0) - n0 // 2) % n0
    i1 = (np.arange(n1) - n1 // 2) % n1
    return P[np.ix_(i0, i1)] * (dx * dx)


def user_window(kind, n0, n1):
    if kind == 'ones':
        return np.ones((n0, n1))
    i, j = np.indices((n0, n1))
    return 0.5 + ((3 * i + 5 * j) % 7) / 7.0


def window_choice(wname, h, dx):
    """-> (argument for prysm, [(name, reference window, wabs)] candidates the implementation may have used).

    wabs >= |w| is the sum of the magnitudes of the terms the window is computed from (1 + (r/rmax)^4 for welch,
    1 for hann): the condition number of a window sample, which enters every tolerance (a welch sample at
    r == rmax is pure rounding noise, so is the PSD of an impulse sitting there).
    """
    n0, n1 = h.shape
    hann = ('hann', np.outer(ref_hann(n0), ref_hann(n1)), np.ones((n0, n1)))
    if wname == 'hann':
        return 'hann', [hann]
    if wname.startswith('user-'):
        w = user_window(wname[5:], n0, n1)
        return w.copy(), [(wname, w, np.abs(w))]
    ww = ref_welch(n0, n1, dx)
    welch = ('welch', ww, 2 - ww)
    if wname == 'welch':
        return 'welch', [welch]
    ys, xs = int(round(n0 * 0.02)), int(round(n1 * 0.02))
    if ys == 0 or xs == 0:
        return None, [welch, hann]
    blocks = (h[:ys, :xs], h[-ys:, :xs], h[:ys, -xs:], h[-ys:, -xs:])
    if all((b == 0).all() for b in blocks):
        return None, [welch]
    return None, [hann]


def sinusoid(n0, n1, ky, kx):
    i, j = np.indices((n0, n1))
    return np.cos(2 * np.pi * (kx * j / n1 + ky * i / n0))


def height_maps(n0, n1, seed, complete):
    """(label, h) -- quadratic-form basis when complete, deltas + constant + dense otherwise; then every sinusoid."""
    N = n0 * n1
    for k in range(N):
        d = np.zeros(N)
        d[k] = 1.0
        yield ('delta', k), d.reshape(n0, n1)
    if complete:
        for a in range(N):
            for b in range(a + 1, N):
                d = np.zeros(N)
                d[a] = d[b] = 1.0
                yield ('pair', a, b), d.reshape(n0, n1)
    yield ('const',), np.full((n0, n1), 1.5)
    yield ('dense',), dense((n0, n1), seed, salt=13, complex_=False)
    for ky in range(n0):
        for kx in range(n1):
            yield ('sin', ky, kx), sinusoid(n0, n1, ky, kx)


# ---------------------------------------------------------------------------------------------
# judging one psd() output

def judge_psd(R, out, h, dx, cands, wlabel, what, peak_bins=None, prefix='psd', eps=EPS):
    """Axes, Parseval, spectrum placed on its own axes.  Returns the name of the window matched (or None)."""
    n0, n1 = h.shape
    cls = pc(n0, n1)
    if out is FAILED:
        return None
    if not (isinstance(out, (tuple, list)) and len(out) == 3):
        R.violation(f'{prefix}:output', f'{what}: expected (ux, uy, psd), got {type(out).__name__}')
        return None
    ux, uy, p = out
    FX, FY = np.meshgrid(ref_axis(n1, dx), ref_axis(n0, dx))
    okx = R.expect_close(ux, FX, 4 * EPS * np.abs(FX), f'{prefix}:axes:{par(n1)}', f'{what}: x frequency axis vs fftshift(fftfreq({n1},{dx}))')
    oky = R.expect_close(uy, FY, 4 * EPS * np.abs(FY), f'{prefix}:axes:{par(n0)}', f'{what}: y frequency axis vs fftshift(fftfreq({n0},{dx}))')
    axes_ok = okx and oky
    try:
        p = np.asarray(p)
        good = p.shape == (n0, n1) and p.dtype.kind == 'f' and bool(np.isfinite(p).all()) and bool((p >= 0).all())
    except Exception:   # noqa
        good = False
    R.expect(good, f'{prefix}:output', f'{what}: psd must be a finite non-negative real array of shape {(n0, n1)}')
    if not good:
        return None
    R.observe(p)
    dfx, dfy = 1.0 / (n1 * dx), 1.0 / (n0 * dx)
    total = float(p.sum()) * dfx * dfy
    # which candidate window explains the output (automatic choice with empty corner blocks: either)
    scored = []
    for name, w, wabs in cands:
        hw = h * w
        S2 = float((w ** 2).sum())
        MS = float((hw ** 2).sum()) / S2
        ref = ref_psd(hw, dx) / S2
        tolP = K * eps * float(((h * wabs) ** 2).sum()) / S2
        tolE = K * eps * float(np.abs(h * wabs).sum()) ** 2 * dx * dx / S2
        pars_ok = abs(total - MS) <= tolP
        elem_ok = bool((np.abs(p - ref) <= tolE).all())
        scored.append((not (pars_ok and elem_ok), not pars_ok, name, MS, ref, tolE, tolP))
    scored.sort(key=lambda t: (t[0], t[1]))
    _, _, name, MS, ref, tolE, tolP = scored[0]
    R.nontrivial(MS > tolP)
    ok = R.expect_close(total, MS, tolP, f'{prefix}:parseval:{wlabel}',
                        f'{what}: sum(psd) dfx dfy vs sum((h w)^2)/sum(w^2) [window {name}]')
    if ok:
        ok = R.expect_close(p, ref, tolE, f'{prefix}:spectrum-vs-axes:{cls}',
                            f'{what}: PSD samples vs |DFT|^2 placed on the returned frequency axes [window {name}]')
    if peak_bins is not None and axes_ok and p.max() > 0:
        ux, uy = np.asarray(ux), np.asarray(uy)
        idx = np.argwhere(p >= 0.5 * p.max())
        got = sorted({(int(round(float(uy[i, j]) * n0 * dx)) % n0, int(round(float(ux[i, j]) * n1 * dx)) % n1) for i, j in idx})
        want = sorted({(int(a) % n0, int(b) % n1) for a, b in peak_bins})
        R.expect(got == want, f'{prefix}:spectrum-vs-axes:{cls}',
                 f'{what}: the returned axes place the PSD peak(s) at DFT bins (ky,kx)={got}, the data oscillate at {want}')
    return name if ok else None


def run_psd(case, seed, R):
    n0, n1, dx, wname = case['n0'], case['n1'], case['dx'], case['window']
    complete = n0 * n1 <= 12
    wlabel = 'user' if wname.startswith('user-') else wname
    used = set()
    try:
        for label, h in height_maps(n0, n1, seed, complete):
            warg, cands = window_choice(wname, h, dx)
            h_in = h.copy()
            out = R.call(ig.psd, h_in, dx, warg)
            peaks = None
            if wname == 'user-ones':
                if label[0] == 'sin':
                    peaks = [(label[1], label[2]), (-label[1], -label[2])]
                elif label[0] == 'const':
                    peaks = [(0, 0)]
            got = judge_psd(R, out, h, dx, cands, wlabel, f'psd({n0}x{n1}, dx={dx}, window={wname}) of {label}', peaks)
            if got:
                used.add(got)
            R.expect(np.array_equal(h_in, h), 'psd:mutates-input', 'psd modified the caller\'s height map')
            if out is FAILED and label[0] == 'delta' and label[1] == 0:
                break    # the call itself is broken: one report is enough
        for u in sorted(used):
            R.outcome('window=' + u)
    finally:
        prune(R)


# ---------------------------------------------------------------------------------------------
# automatic window: both branches forced

def run_auto(case, seed, R):
    n0, n1, dx, pattern = case['n0'], case['n1'], case['dx'], case['corners']
    ys, xs = int(round(n0 * 0.02)), int(round(n1 * 0.02))
    base = dense((n0, n1), seed, salt=29, complex_=False)
    for kind in ('dense', 'const'):
        h = base.copy() if kind == 'dense' else np.full((n0, n1), 2.0)
        sl = ((slice(None, ys), slice(None, xs)), (slice(-ys, None), slice(None, xs)),
              (slice(None, ys), slice(-xs, None)), (slice(-ys, None), slice(-xs, None)))
        for bit, s in zip(pattern, sl):
            if bit == 0:
                h[s] = 0.0
        warg, cands = window_choice('auto', h, dx)
        want = cands[0][0]
        what = f'psd({n0}x{n1}, dx={dx}, window=None), corner blocks {ys}x{xs} zero-pattern {pattern} ({kind})'
        out = R.call(ig.psd, h.copy(), dx, None)
        got = judge_psd(R, out, h, dx, cands, f'auto->{want}', what)
        R.outcome(f'auto->{got or "?"}')
        # the method goes through the same automatic choice
        itf = Interferogram(h.copy(), dx)
        p = R.call(itf.psd)
        if p is not FAILED:
            try:
                o2 = (p.x, p.y, p.data)
            except Exception as e:   # noqa
                R.violation('Interferogram.psd:output', f'{what}: {type(e).__name__}: {e}')
                o2 = None
            if o2 is not None:
                judge_psd(R, o2, h, dx, cands, f'auto->{want}', 'Interferogram.psd: ' + what, prefix='Interferogram.psd')
    prune(R)


# ---------------------------------------------------------------------------------------------
# band-limited RMS

def radial_classes(n0, n1, dx):
    """exact radius classes of the frequency grid: (r array, class index per sample, mid-point edges)."""
    i, j = np.indices((n0, n1))
    key = ((j - n1 // 2) ** 2) * (n0 ** 2) + ((i - n0 // 2) ** 2) * (n1 ** 2)
    ukeys = np.unique(key)
    rad = np.sqrt(ukeys.astype(float)) / (n0 * n1 * dx)
    mids = (rad[:-1] + rad[1:]) / 2
    cls = np.searchsorted(ukeys, key)
    FX, FY = np.meshgrid(ref_axis(n1, dx), ref_axis(n0, dx))
    r = np.sqrt(FX * FX + FY * FY)
    return r, cls, mids


def ring_mask(n0, n1):
    m = np.zeros((n0, n1), bool)
    m[0, :] = m[-1, :] = True
    m[:, 0] = m[:, -1] = True
    return m


def as_ms(R, v, sig, what):
    """validated square of a returned RMS, or None."""
    if v is FAILED:
        return None
    try:
        a = np.asarray(v)
        ok = a.shape == () and a.dtype.kind == 'f' and bool(np.isfinite(a)) and float(a) >= 0
    except Exception:   # noqa
        ok = False
    if not ok:
        R.violation(sig, f'{what}: band-limited RMS must be one finite non-negative real number, got {repr(v)[:120]}')
        return None
    return float(a) ** 2


def band_maps(name, n0, n1, seed):
    if name == 'const':
        return np.full((n0, n1), 1.5)
    if name == 'sin':
        return sinusoid(n0, n1, 1, 1)
    return dense((n0, n1), seed, salt=31, complex_=False)


def band_args_freq(i, j, m, mids):
    lo = 0.0 if i == 0 else float(mids[i - 1])
    hi = None if j == m + 1 else float(mids[j - 1])
    if i == 0 and hi is not None and j % 2 == 0:
        lo = None    # one-sided: only the upper limit given
    return {'flow': lo, 'fhigh': hi}


def band_args_period(i, j, m, mids):
    wlhigh = None if i == 0 else 1.0 / float(mids[i - 1])
    wllow = None if j == m + 1 else 1.0 / float(mids[j - 1])
    if wlhigh is None and wllow is None:
        return None
    return {'wllow': wllow, 'wlhigh': wlhigh}


def run_bands(case, seed, R):
    n0, n1, dx, wname, mname = case['n0'], case['n1'], case['dx'], case['window'], case['map']
    try:
        h = band_maps(mname, n0, n1, seed)
        _, cands = window_choice(wname, h, dx)
        w = cands[0][1]
        hw = h * w
        S2 = float((w ** 2).sum())
        P = ref_psd(hw, dx) / S2
        MS = float((hw ** 2).sum()) / S2
        r, cls, mids = radial_classes(n0, n1, dx)
        m = len(mids)
        dfx, dfy = 1.0 / (n1 * dx), 1.0 / (n0 * dx)
        cell = P * dfx * dfy
        ring = ring_mask(n0, n1)
        tol = K * EPS * MS
        # cumulative sums over radius classes 0..m  -> U(i,j) = cum[j]-cum[i] covers classes i..j-1
        cumU = np.concatenate([[0.0], np.cumsum(np.bincount(cls.ravel(), weights=cell.ravel(), minlength=m + 1))])
        cumE = np.concatenate([[0.0], np.cumsum(np.bincount(cls.ravel(), weights=(cell * ring).ravel(), minlength=m + 1))])
        P_in, r_in = P.copy(), r.copy()
        ne = m + 2
        Vf = np.full((ne, ne), np.nan)
        Vp = np.full((ne, ne), np.nan)
        first = True
        for i in range(ne):
            for j in range(i + 1, ne):
                kw = band_args_freq(i, j, m, mids)
                v = R.call(ig.bandlimited_rms, r_in, P_in, **kw)
                if first and v is FAILED:
                    return
                first = False
                v = as_ms(R, v, 'bandlimited_rms:output', f'bandlimited_rms({n0}x{n1}, {kw})')
                if v is not None:
                    Vf[i, j] = v
                kwp = band_args_period(i, j, m, mids)
                if kwp is not None:
                    v = R.call(ig.bandlimited_rms, r_in, P_in, **kwp)
                    v = as_ms(R, v, 'bandlimited_rms:output', f'bandlimited_rms({n0}x{n1}, {kwp})')
                    if v is not None:
                        Vp[i, j] = v
        R.expect(np.array_equal(P_in, P) and np.array_equal(r_in, r), 'bandlimited_rms:mutates-input', 'bandlimited_rms modified r or psd')
        R.nontrivial(MS > 0 and m >= 2)
        I, J = np.triu_indices(ne, 1)
        U = cumU[J] - cumU[I]
        E = cumE[J] - cumE[I]
        shape_s = sq(n0, n1)
        for form, V in (('frequency', Vf), ('period', Vp)):
            vv = V[I, J]
            have = ~np.isnan(vv)
            dev = np.abs(vv - U) - E
            full = (I == 0) & (J == m + 1)
            bad = have & (dev > tol)
            if form == 'period':
                bad = bad & False     # the period form is tied to the frequency form below; its integral is judged there
            for sel, sig in ((bad & full, f'bandlimited_rms:fullband:{shape_s}'),
                             (bad & ~full, f'bandlimited_rms:band-integral:{shape_s}')):
                if sel.any():
                    k = int(np.argmax(np.where(sel, dev, -np.inf)))
                    a, b = int(I[k]), int(J[k])
                    kw = band_args_freq(a, b, m, mids) if form == 'frequency' else band_args_period(a, b, m, mids)
                    R.violation(sig, f'{n0}x{n1} dx={dx} window={wname} map={mname} {kw}: rms^2={vv[k]!r}, integral of the PSD over the band={U[k]!r}, '
                                     f'weight of the outermost samples in the band={E[k]!r}; windowed mean square of the data={MS!r} ({int(sel.sum())} bands)')
            R.checks += int(have.sum())
            # additivity in quadrature over adjacent bands, every ordered triple
            worst, arg, cnt = 0.0, None, 0
            for b in range(1, ne - 1):
                left = V[:b, b][:, None]          # (a, b)
                right = V[b, b + 1:][None, :]     # (b, c)
                whole = V[:b, b + 1:]             # (a, c)
                d = np.abs(whole - left - right)
                ok_ = ~np.isnan(d)
                cnt += int(ok_.sum())
                d = np.where(ok_, d, 0)
                if d.max(initial=0) > worst:
                    worst = float(d.max())
                    a_, c_ = np.unravel_index(int(np.argmax(d)), d.shape)
                    arg = (int(a_), b, int(c_) + b + 1)
            R.checks += cnt
            if worst > tol:
                R.violation(f'bandlimited_rms:additivity:{form}', f'{n0}x{n1} dx={dx} window={wname} map={mname}: edges#{arg}: '
                            f'rms(a,c)^2={V[arg[0], arg[2]]!r} != rms(a,b)^2+rms(b,c)^2={V[arg[0], arg[1]] + V[arg[1], arg[2]]!r}')
            # widening never decreases: one step outwards on either side
            up = V[:, 1:] - V[:, :-1]                 # raise the upper edge
            down = V[:-1, :] - V[1:, :]               # lower the lower edge
            for name_, d in (('upper', up), ('lower', down)):
                d = np.where(np.isnan(d), 0, d)
                R.checks += d.size
                if d.min(initial=0) < -tol:
                    R.violation(f'bandlimited_rms:monotone:{form}', f'{n0}x{n1} dx={dx} window={wname} map={mname}: widening the {name_} edge '
                                f'lowered rms^2 by {float(-d.min())!r}')
        # periods are the reciprocals of frequencies: same band, same answer
        d = np.abs(Vp - Vf)
        for sel, side in ((np.s_[0, 1:m + 1], 'wllow-only'), (np.s_[1:m + 1, m + 1], 'wlhigh-only'), (np.s_[1:m + 1, 1:m + 1], 'two-sided')):
            dd = d[sel]
            dd = dd[~np.isnan(dd)]
            R.checks += dd.size
            if dd.size and dd.max() > tol:
                R.violation(f'bandlimited_rms:period-vs-frequency:{side}', f'{n0}x{n1} dx={dx} window={wname} map={mname}: the same band given as periods '
                            f'(wllow=1/fhigh, wlhigh=1/flow) and as frequencies differs by {float(dd.max())!r} in rms^2 (windowed mean square {MS!r})')
        R.outcome(f'edges={m}')
    finally:
        prune(R)


def run_weights(case, seed, R):
    """bandlimited_rms^2 is a linear functional of the PSD array: extract its weights sample by sample."""
    n0, n1, dx = case['n0'], case['n1'], case['dx']
    try:
        r, cls, mids = radial_classes(n0, n1, dx)
        m = len(mids)
        dfx, dfy = 1.0 / (n1 * dx), 1.0 / (n0 * dx)
        cellw = dfx * dfy
        ring = ring_mask(n0, n1)
        shape_s = sq(n0, n1)
        W = np.zeros((n0, n1))
        complete = True
        for i in range(n0):
            for j in range(n1):
                P = np.zeros((n0, n1))
                P[i, j] = 1.0
                v = R.call(ig.bandlimited_rms, r, P, flow=0.0, fhigh=None)
                if v is FAILED and (i, j) == (0, 0):
                    return
                v = as_ms(R, v, 'bandlimited_rms:output', f'bandlimited_rms({n0}x{n1}) of a unit PSD sample at {(i, j)}')
                if v is None:
                    complete = False
                    continue
                W[i, j] = v
                what = f'{n0}x{n1} dx={dx}: full-band rms^2 of a unit PSD sample at {(i, j)}: {v!r}, cell dfx*dfy={cellw!r}'
                if ring[i, j]:
                    R.expect(v <= 2 * cellw * (1 + 8 * EPS), f'bandlimited_rms:weights:{shape_s}', what + ' (outermost sample: weight must lie in [0, 2 dfx dfy])')
                else:
                    R.expect(abs(v - cellw) <= 8 * EPS * cellw, f'bandlimited_rms:weights:{shape_s}', what + ' (interior sample: weight must be dfx dfy)')
                # the band mask: the tightest band around the sample keeps it, the complements lose it
                c = int(cls[i, j])
                lo = 0.0 if c == 0 else float(mids[c - 1])
                hi = None if c == m else float(mids[c])
                vin = as_ms(R, R.call(ig.bandlimited_rms, r, P, flow=lo, fhigh=hi), 'bandlimited_rms:output', 'tight band')
                if vin is not None:
                    R.expect(abs(vin - v) <= 8 * EPS * cellw, 'bandlimited_rms:mask', f'{n0}x{n1} dx={dx}: sample {(i, j)} at radius class {c} lost from its own band [{lo},{hi}]')
                if c > 0:
                    vout = as_ms(R, R.call(ig.bandlimited_rms, r, P, flow=0.0, fhigh=lo), 'bandlimited_rms:output', 'band below')
                    if vout is not None:
                        R.expect(vout == 0, 'bandlimited_rms:mask', f'{n0}x{n1} dx={dx}: sample {(i, j)} (class {c}) counted in the band below it [0,{lo}]')
                if c < m:
                    vout = as_ms(R, R.call(ig.bandlimited_rms, r, P, flow=hi, fhigh=None), 'bandlimited_rms:output', 'band above')
                    if vout is not None:
                        R.expect(vout == 0, 'bandlimited_rms:mask', f'{n0}x{n1} dx={dx}: sample {(i, j)} (class {c}) counted in the band above it [{hi},max]')
        if complete:
            P = np.abs(dense((n0, n1), seed, salt=37, complex_=False))
            v = as_ms(R, R.call(ig.bandlimited_rms, r, P, flow=0.0, fhigh=None), 'bandlimited_rms:output', 'dense PSD')
            if v is not None:
                want = float((W * P).sum())
                R.expect(abs(v - want) <= K * EPS * want, 'bandlimited_rms:linearity', f'{n0}x{n1} dx={dx}: rms^2 of a dense PSD {v!r} != sum of weights*PSD {want!r}')
        R.nontrivial()
        R.outcome('weights')
    finally:
        prune(R)


# ---------------------------------------------------------------------------------------------
# band-edge VALUES: exactly 0 in several forms, flow == fhigh, on a frequency bin, at / above the data limit, None

def edge_alphabet(r, mids, rad_bins):
    """records (name, kind, fval, farg, parg, lo_ok, hi_ok); 'skip' = this interface cannot express the edge."""
    rmax = float(r.max())
    m = len(mids)
    E = [('int0', 'zero', 0.0, 0, 'skip', True, True),
         ('0.0', 'zero', 0.0, 0.0, float('inf'), True, True),
         ('np.float64(0)', 'zero', 0.0, np.float64(0), np.float64('inf'), True, True),
         ('None(low)', 'none', 0.0, None, None, True, False)]
    for nm, v in (('bin:first', rad_bins[0]), ('bin:middle', rad_bins[1]), ('bin:axis-end', rad_bins[2])):
        E.append((nm, 'bin', float(v), float(v), 1.0 / float(v), True, True))
    for nm, v in (('mid:first', mids[0]), ('mid:middle', mids[m // 2])):
        E.append((nm, 'mid', float(v), float(v), 1.0 / float(v), True, True))
    E.append(('r.max()', 'limit', rmax, rmax, 1.0 / rmax, True, True))
    E.append(('1.5*r.max()', 'above', 1.5 * rmax, 1.5 * rmax, 1.0 / (1.5 * rmax), True, True))
    E.append(('1e9', 'above', 1e9, 1e9, 1e-9, True, True))
    E.append(('inf', 'above', float('inf'), float('inf'), 'skip', True, True))
    E.append(('None(high)', 'none', float('inf'), None, None, False, True))
    return E


def run_edge_values(case, seed, R):
    n0, n1, dx, wname = case['n0'], case['n1'], case['dx'], case['window']
    try:
        h = dense((n0, n1), seed, salt=61, complex_=False) + 1.0      # non-zero mean: the DC sample carries weight
        _, cands = window_choice(wname, h, dx)
        w = cands[0][1]
        S2 = float((w ** 2).sum())
        P = ref_psd(h * w, dx) / S2
        r, cls, mids = radial_classes(n0, n1, dx)
        cell = P / (n0 * n1 * dx * dx)
        ring = ring_mask(n0, n1)
        MS = float(cell.sum())
        tol = K * EPS * MS
        m = len(mids)
        # bins taken from the r array itself, so an edge "on a bin" is bit-identical to at least one sample
        first = float(r[cls == 1].min())
        middle = float(r[cls == max(1, m // 2)].min())
        axis_end = float(min(r[0, n1 // 2], r[n0 // 2, 0]))
        E = edge_alphabet(r, mids, (first, middle, axis_end))

        def sums(lo, hi):
            """(open-band sum, closed-band sum, ring weight of the closed band); a sample within 4 eps of an edge is 'on' it."""
            on_lo = np.abs(r - lo) <= 4 * EPS * lo if np.isfinite(lo) else np.zeros(r.shape, bool)
            on_hi = np.abs(r - hi) <= 4 * EPS * hi if np.isfinite(hi) else np.zeros(r.shape, bool)
            closed = ((r >= lo) | on_lo) & ((r <= hi) | on_hi)
            opened = closed & ~on_lo & ~on_hi
            return float(cell[opened].sum()), float(cell[closed].sum()), float((cell * ring)[closed].sum())

        def tie_weight(b):
            return float(cell[np.abs(r - b) <= 4 * EPS * b].sum()) if np.isfinite(b) else 0.0

        itf = Interferogram(h.copy(), dx)
        pm = R.call(itf.psd)
        pr = pd = None
        if pm is not FAILED:
            try:
                pr, pd = np.asarray(pm.r), np.asarray(pm.data)
            except Exception:   # noqa
                pr = pd = None
        for iface in ('frequency', 'period'):
            V = {}
            for i, lo in enumerate(E):
                for j, hi in enumerate(E):
                    if not (lo[5] and hi[6]) or lo[2] > hi[2]:
                        continue
                    if iface == 'frequency':
                        kw = {'flow': lo[3], 'fhigh': hi[3]}
                    else:
                        if isinstance(lo[4], str) or isinstance(hi[4], str):     # this interface cannot express the edge
                            continue
                        kw = {'wllow': hi[4], 'wlhigh': lo[4]}
                    if all(v is None for v in kw.values()):
                        continue          # documented ValueError: nothing specified
                    what = f'bandlimited_rms({n0}x{n1}, dx={dx}, window={wname}; {iface}: low edge {lo[0]}, high edge {hi[0]} -> {kw!r})'
                    v = as_ms(R, R.call(ig.bandlimited_rms, r, P, **kw), 'bandlimited_rms:output', what)
                    if v is None:
                        continue
                    V[(i, j)] = v
                    O, C, Er = sums(lo[2], hi[2])
                    R.expect(O - Er - tol <= v <= C + Er + tol, f'bandlimited_rms:edge-value:{iface}:{lo[1]}-{hi[1]}',
                             f'{what}: rms^2={v!r}; integral over the open band {O!r}, over the closed band {C!r}, ring weight {Er!r}, whole map {MS!r}')
                    # the method inherits the function
                    if pr is not None and case['method']:
                        vm = as_ms(R, R.call(itf.bandlimited_rms, **kw), 'Interferogram.bandlimited_rms:output', what)
                        vf = as_ms(R, R.call(ig.bandlimited_rms, pr, pd, hygiene=False, **kw), 'bandlimited_rms:output', what + ' on the method\'s PSD')
                        if vm is not None and vf is not None:
                            R.expect(abs(vm - vf) <= 8 * EPS * max(vm, vf), 'Interferogram.bandlimited_rms:wiring', f'Interferogram.{what}: {vm!r} vs function on psd() {vf!r}')
            keys = sorted(V)
            if not keys:
                continue
            lo_v = np.array([E[i][2] for i, _ in keys])
            hi_v = np.array([E[j][2] for _, j in keys])
            vv = np.array([V[k_] for k_ in keys])
            # widening never decreases; equal bands in different forms (0 / 0.0 / None, r.max() / above / None) agree
            nested = (lo_v[:, None] >= lo_v[None, :]) & (hi_v[:, None] <= hi_v[None, :])
            # an edge that ties with samples may be read open or closed: allow the tied weight
            slack = np.array([tie_weight(a) + tie_weight(b) for a, b in zip(lo_v, hi_v)])
            viol = nested & (vv[:, None] > vv[None, :] + tol + slack[:, None] * ((lo_v[:, None] == lo_v[None, :]) | (hi_v[:, None] == hi_v[None, :])))
            R.checks += int(nested.sum())
            if viol.any():
                a_, b_ = np.argwhere(viol)[0]
                ka, kb = keys[a_], keys[b_]
                R.violation(f'bandlimited_rms:edge-value:monotone:{iface}',
                            f'{n0}x{n1} dx={dx} window={wname}: band [{E[ka[0]][0]}, {E[ka[1]][0]}] rms^2={vv[a_]!r} exceeds the wider-or-equal band '
                            f'[{E[kb[0]][0]}, {E[kb[1]][0]}] rms^2={vv[b_]!r}')
            # adjacent bands add in quadrature (up to the weight of samples tied with the common edge)
            for (i, j) in keys:
                for k_ in range(len(E)):
                    if (j, k_) in V and (i, k_) in V and E[j][5] and E[j][6]:
                        d = V[(i, j)] + V[(j, k_)] - V[(i, k_)]
                        T = tie_weight(E[j][2])
                        R.checks += 1
                        if abs(d) > T + tol:
                            R.violation(f'bandlimited_rms:edge-value:additivity:{iface}',
                                        f'{n0}x{n1} dx={dx} window={wname}: rms[{E[i][0]},{E[j][0]}]^2 + rms[{E[j][0]},{E[k_][0]}]^2 - rms[{E[i][0]},{E[k_][0]}]^2 = {d!r}, '
                                        f'weight of the samples on the common edge {T!r}')
        R.nontrivial(MS > 0)
        R.outcome('edge-values')
    finally:
        prune(R)


# ---------------------------------------------------------------------------------------------
# argument forms of the band edges (Python / numpy scalars of integer and floating type, 0-d arrays)

FORMS = ('float', 'int', 'np.float64', 'np.float32', 'np.int64', 'array0d', 'array0d-int')
EDGE_VALUES = (2, 4, 5, 20)      # integer-valued edges; as periods at dx = 1.1, as frequencies (x 1/40) at the matching dx


def in_form(v, form):
    """v in the given argument form, or None when the form cannot hold it exactly enough (integers only for int forms)."""
    if v is None:
        return None
    integral = float(v) == int(v)
    if form == 'float':
        return float(v)
    if form == 'np.float64':
        return np.float64(v)
    if form == 'np.float32':
        return np.float32(v)
    if form == 'array0d':
        return np.array(float(v))
    if not integral:
        return 'n/a'
    if form == 'int':
        return int(v)
    if form == 'np.int64':
        return np.int64(v)
    return np.array(int(v))       # array0d-int


def form_geometry(n0, n1, kind):
    """dx and the four integer-valued edges (ascending in frequency) for the period / frequency configuration."""
    if kind == 'period':
        dx = 1.1
        freqs = sorted(1.0 / v for v in EDGE_VALUES)
    else:
        dx = 1.1 / 40.0          # the same geometry, frequencies scaled by 40: 0.05, 0.2, 0.25, 0.5 -> 2, 8, 10, 20
        freqs = [2.0, 8.0, 10.0, 20.0]
    return dx, freqs


def run_forms(case, seed, R):
    n0, n1, kind, form, target = case['n0'], case['n1'], case['kind'], case['form'], case['target']
    try:
        dx, freqs = form_geometry(n0, n1, kind)
        r, cls, mids = radial_classes(n0, n1, dx)
        df = min(1.0 / (n0 * dx), 1.0 / (n1 * dx))
        for f in freqs:      # harness precondition, checked on the reference grid: no sample on an edge
            assert np.abs(r - f).min() > 1e-3 * df and f < r.max(), (n0, n1, dx, f)
        h = dense((n0, n1), seed, salt=47, complex_=False)
        P = ref_psd(h, dx) / (n0 * n1)
        cell = P / (n0 * n1 * dx * dx)
        ring = ring_mask(n0, n1)
        MS = float(cell.sum())
        tol = K * EPS * MS
        itf = Interferogram(h.copy(), dx) if target == 'method' else None
        edges = [None] + freqs + [None]       # index 0: open below, index 5: open above
        for i in range(5):
            for j in range(i + 1, 6):
                lo, hi = edges[i], edges[j]
                if lo is None and hi is None:
                    continue
                if kind == 'period':
                    base = {'wllow': None if hi is None else 1.0 / hi, 'wlhigh': None if lo is None else 1.0 / lo}
                    base = {k_: (None if v is None else float(round(v))) for k_, v in base.items()}     # the integers 2, 4, 5, 20
                else:
                    base = {'flow': lo, 'fhigh': hi}
                variants = [('both', {k_: in_form(v, form) for k_, v in base.items()})]
                if all(v is not None for v in base.values()):
                    a_, b_ = list(base)
                    variants.append((a_, {a_: in_form(base[a_], form), b_: base[b_]}))
                    variants.append((b_, {a_: base[a_], b_: in_form(base[b_], form)}))

                def call(kw):
                    if target == 'method':
                        return R.call(itf.bandlimited_rms, **kw)
                    return R.call(ig.bandlimited_rms, r, P, **kw)
                name = 'Interferogram.bandlimited_rms' if target == 'method' else 'bandlimited_rms'
                ref_v = as_ms(R, call(dict(base)), f'{name}:output', f'{name}({n0}x{n1}, dx={dx}, {base})')
                if ref_v is None:
                    continue
                if target == 'function':
                    inb = np.ones((n0, n1), bool)
                    if lo is not None:
                        inb &= r > lo
                    if hi is not None:
                        inb &= r < hi
                    U, E = float(cell[inb].sum()), float((cell * ring)[inb].sum())
                    R.expect(abs(ref_v - U) <= E + tol, f'bandlimited_rms:band-integral:{sq(n0, n1)}',
                             f'{n0}x{n1} dx={dx} {base}: rms^2={ref_v!r}, integral over the band {U!r}, ring weight {E!r}')
                for which, kw in variants:
                    if any(isinstance(v, str) for v in kw.values()):
                        continue
                    v = as_ms(R, call(kw), f'{name}:output', f'{name}({n0}x{n1}, dx={dx}, {kw!r})')
                    if v is not None:
                        R.expect(abs(v - ref_v) <= 8 * EPS * max(v, ref_v), f'{name}:edge-form:{kind}:{form}',
                                 f'{n0}x{n1} dx={dx}: edges {kw!r} ({form} form of {which}) give rms^2={v!r}, the same edges as Python floats {base} give {ref_v!r}')
                        R.nontrivial(ref_v > tol)
        if target == 'method' and kind == 'period':
            # total integrated scatter: wavelength and angle in every form (1/lambda above every sampled frequency)
            for lam, ang in ((50, 0), (50, 30), (20, 30)):
                t0 = R.call(itf.total_integrated_scatter, float(lam), float(ang))
                for which, args in (('both', (in_form(lam, form), in_form(ang, form))), ('wavelength', (in_form(lam, form), float(ang))),
                                    ('angle', (float(lam), in_form(ang, form)))):
                    t = R.call(itf.total_integrated_scatter, *args)
                    if t is FAILED or t0 is FAILED:
                        continue
                    e = float(np.finfo(np.float32).eps) if form == 'np.float32' else EPS
                    R.expect_close(np.asarray(t, dtype=float), np.asarray(t0, dtype=float), 64 * e * max(abs(float(t0)), 1e-300) if np.ndim(t0) == 0 else 0,
                                   f'total_integrated_scatter:arg-form:{form}', f'{n0}x{n1}: total_integrated_scatter{args!r} ({form} form of {which}) vs Python floats')
        R.outcome(f'form:{form}')
    finally:
        prune(R)


# ---------------------------------------------------------------------------------------------
# total integrated scatter: sigma is the RMS over [0, 1/lambda_requested], wherever that edge falls on the grid

TIS_LAMBDAS = (0.4, 0.6328, 1.55, 10.6)


def run_tis(case, seed, R):
    n0, n1, dx, lam_obj = case['n0'], case['n1'], case['dx'], case['object_wavelength']
    try:
        if isinstance(dx, str):       # 'on:<lambda>': the end of axis 0 sits exactly on 1000/lambda
            dx = (n0 // 2) / (n0 * (1000.0 / float(dx[3:])))
        h0 = dense((n0, n1), seed, salt=67, complex_=False) + 0.5
        rms0 = float(np.sqrt(np.mean(h0 ** 2)))
        r, cls, mids = radial_classes(n0, n1, dx)
        rmax = float(r.max())
        ring = ring_mask(n0, n1)
        _, cands = window_choice('auto', h0, dx)
        refs = []
        for name, w, wabs in cands:      # per unit amplitude; the spectrum scales with amplitude^2
            S2 = float((w ** 2).sum())
            refs.append((name, ref_psd(h0 * w, dx) / S2 / (n0 * n1 * dx * dx), float(((h0 * wabs) ** 2).sum()) / S2))
        inv = {}
        for lam in TIS_LAMBDAS:
            if lam == lam_obj:
                continue
            amp = 0.8 * lam / (4 * np.pi) / rms0          # 4 pi sigma / lambda ~ 0.8: TIS neither saturated nor vanishing
            edge = 1000.0 / lam
            on = np.abs(r - edge) <= 4 * EPS * edge
            where = 'on-bin' if on.any() else ('above' if edge > rmax else 'inside')
            closed = (r <= edge) | on
            opened = closed & ~on
            itf = Interferogram(amp * h0, dx, wavelength=lam_obj)
            for ang in (0, 30, 60):
                what = (f'Interferogram({n0}x{n1}, dx={dx!r}, wavelength={lam_obj}).total_integrated_scatter({lam}, {ang}); band edge 1000/lambda={edge:.6g} '
                        f'({where}; largest sampled frequency {rmax:.6g})')
                t = R.call(itf.total_integrated_scatter, lam, ang)
                if t is FAILED:
                    continue
                try:
                    a = np.asarray(t, dtype=float)
                    good = a.shape == () and bool(np.isfinite(a)) and 0 <= float(a) < 1
                except Exception:   # noqa
                    good = False
                if not R.expect(good, 'total_integrated_scatter:output', what + f': TIS must be one number in [0, 1), got {t!r}'):
                    continue
                t = float(a)
                c = (4 * np.pi * np.cos(np.radians(ang)) / lam) ** 2
                s2 = -np.log1p(-t) / c / amp ** 2                     # inverted sigma^2, per unit amplitude
                best = None
                for name, cell, cond in refs:
                    O, C, Er = float(cell[opened].sum()), float(cell[closed].sum()), float((cell * ring)[closed].sum())
                    tol = K * EPS * cond * (1 + np.exp(c * amp ** 2 * C))   # conditioning of 1-exp(-x) and back
                    dev = max(O - Er - tol - s2, s2 - (C + Er + tol))
                    if best is None or dev < best[0]:
                        best = (dev, name, O, C, Er)
                R.expect(best[0] <= 0, f'total_integrated_scatter:band:{where}',
                         f'{what}: TIS={t!r} -> sigma^2={s2 * amp ** 2!r}; reference RMS^2 over [0, 1000/lambda]: open band {best[2] * amp ** 2!r}, closed band {best[3] * amp ** 2!r}, '
                         f'ring weight {best[4] * amp ** 2!r} (window {best[1]})')
                inv[(lam, ang)] = (s2, best[3] + best[4])
                R.nontrivial(best[3] > 0)
        # monotone in the band edge: a shorter wavelength reaches further out, sigma cannot decrease
        for ang in (0, 30, 60):
            ls = sorted((lam for (lam, a_) in inv if a_ == ang), reverse=True)     # increasing band edge
            for l1, l2 in zip(ls[:-1], ls[1:]):
                (s1, u1), (s2_, u2) = inv[(l1, ang)], inv[(l2, ang)]
                R.expect(s1 <= s2_ + 1e2 * K * EPS * max(u1, u2), 'total_integrated_scatter:monotone',
                         f'{n0}x{n1} dx={dx!r} object wavelength {lam_obj}, angle {ang}: sigma^2 inverted from TIS drops from {s1!r} (lambda={l1}) to {s2_!r} (lambda={l2}) although the band widened')
        R.outcome('tis')
    finally:
        prune(R)


# ---------------------------------------------------------------------------------------------
# Interferogram methods

def run_methods(case, seed, R):
    n0, n1, dx, mname = case['n0'], case['n1'], case['dx'], case['map']
    try:
        h = band_maps(mname, n0, n1, seed)
        itf = Interferogram(h.copy(), dx)
        _, cands = window_choice('auto', h, dx)
        what = f'Interferogram({n0}x{n1}, dx={dx}, {mname})'
        p = R.call(itf.psd)
        fun = R.call(ig.psd, h.copy(), dx)
        pr = pd = None
        if p is not FAILED:
            try:
                px, py, pd, pr = np.asarray(p.x), np.asarray(p.y), np.asarray(p.data), np.asarray(p.r)
            except Exception as e:   # noqa
                R.violation('Interferogram.psd:output', f'{what}.psd(): {type(e).__name__}: {e}')
                pd = None
            if pd is not None:
                FX, FY = np.meshgrid(ref_axis(n1, dx), ref_axis(n0, dx))
                R.expect_close(px, FX, 4 * EPS * np.abs(FX), f'Interferogram.psd:axes:{par(n1)}', what + '.psd().x')
                R.expect_close(py, FY, 4 * EPS * np.abs(FY), f'Interferogram.psd:axes:{par(n0)}', what + '.psd().y')
                rr = np.sqrt(FX * FX + FY * FY)
                R.expect_close(pr, rr, 8 * EPS * rr, 'Interferogram.psd:r', what + '.psd().r')
                if fun is not FAILED and isinstance(fun, tuple) and len(fun) == 3:
                    R.expect_equal(pd, fun[2], 'Interferogram.psd:wiring', what + '.psd().data vs psd(data, dx)')
                # Parseval of the method's output (independent of where the spectrum sits)
                if pd.shape == (n0, n1) and pd.dtype.kind == 'f':
                    total = float(pd.sum()) / (n0 * n1 * dx * dx)
                    errs = []
                    for name, w, wabs in cands:
                        MS = float(((h * w) ** 2).sum() / (w ** 2).sum())
                        errs.append((abs(total - MS) - K * EPS * float(((h * wabs) ** 2).sum() / (w ** 2).sum()), name, MS))
                    errs.sort()
                    R.expect(errs[0][0] <= 0, 'Interferogram.psd:parseval', f'{what}.psd(): sum(psd) dfx dfy={total!r}, windowed mean square {errs[0][2]!r} ({errs[0][1]})')
                    R.nontrivial(errs[0][2] > 0)
        # bandlimited_rms / TIS methods: thin wrappers, compared with the function on the method's own PSD
        _, _, mids = radial_classes(n0, n1, dx)
        m = len(mids)
        picks = sorted({0, m // 3, (2 * m) // 3, m + 1})
        sig_first = None
        for a in range(len(picks)):
            for b in range(a + 1, len(picks)):
                i, j = picks[a], picks[b]
                for kw in (band_args_freq(i, j, m, mids), band_args_period(i, j, m, mids)):
                    if kw is None:
                        continue
                    v = R.call(itf.bandlimited_rms, **kw)
                    if v is FAILED:
                        sig_first = True
                        break
                    v = as_ms(R, v, 'Interferogram.bandlimited_rms:output', f'{what}.bandlimited_rms({kw})')
                    if v is None or pd is None or pr is None:
                        continue
                    w_ = R.call(ig.bandlimited_rms, pr, pd, **kw)
                    w_ = as_ms(R, w_, 'bandlimited_rms:output', f'bandlimited_rms(psd.r, psd.data, {kw})')
                    if w_ is not None:
                        R.expect(abs(v - w_) <= 8 * EPS * max(v, w_), 'Interferogram.bandlimited_rms:wiring',
                                 f'{what}.bandlimited_rms({kw})^2={v!r} != bandlimited_rms(psd.r, psd.data, ...)^2={w_!r}')
                if sig_first:
                    break
            if sig_first:
                break
        # total integrated scatter, 1/lambda above every sampled frequency -> sigma is the full-band RMS
        lam = 50.0
        sig_full = R.call(itf.bandlimited_rms, flow=0.0, fhigh=None)
        s2 = as_ms(R, sig_full, 'Interferogram.bandlimited_rms:output', what + '.bandlimited_rms(flow=0)')
        for ang in (0, 30):
            t = R.call(itf.total_integrated_scatter, lam, ang)
            if t is FAILED or s2 is None:
                continue
            want = 1 - np.exp(-(4 * np.pi * np.cos(np.radians(ang)) * np.sqrt(s2) / lam) ** 2)
            R.expect_close(t, want, 1e2 * EPS * max(want, 1e-300) + 1e2 * EPS * (4 * np.pi * np.sqrt(s2) / lam) ** 2,
                           'total_integrated_scatter:formula', f'{what}.total_integrated_scatter({lam}, {ang}) with full-band sigma^2={s2!r}')
        R.outcome('methods')
    finally:
        prune(R)


# ---------------------------------------------------------------------------------------------
# synthesis

PSD_PARAMS = {
    'abc': [{'a': 1.0, 'b': 0.5, 'c': 2.0}, {'a': 1e4, 'b': 0.01, 'c': 3.5},
            {'a': 1e-20, 'b': 0.5, 'c': 2.0}, {'a': 1e-30, 'b': 0.01, 'c': 3.5}, {'a': 1e24, 'b': 0.5, 'c': 2.0}],      # SI-unit amplitudes (m^2 m^2) and huge ones
    'ab': [{'a': 1.0, 'b': 2.0}, {'a': 250.0, 'b': 1.55}, {'a': 1e-22, 'b': 2.0}, {'a': 1e-30, 'b': 1.55}, {'a': 1e20, 'b': 2.0}],
}


# aperture SHAPE x mask VALUE FORM.  "A mask marks a sample invalid where it is 0; every other sample is part of the surface":
# binary masks in every dtype a caller plausibly holds, 0/255 image masks, two-valued masks with a non-unit level, anti-aliased
# (one pixel) and apodised (six pixel) soft edges, a fractional ramp, and a strictly positive weight map (no invalid sample)
SYNTH_MASKS = ('none', 'circle', 'half',
               'circle:bool', 'circle:int64', 'circle:uint8-255', 'circle:float32', 'circle:0/0.5', 'circle:0/3',
               'circle:soft1', 'circle:soft6', 'half:bool', 'half:uint8-255', 'half:ramp', 'weights')


def synth_mask(kind, n):
    if kind == 'none':
        return None
    i, j = np.indices((n, n))
    shape, _, form = kind.partition(':')
    if shape == 'weights':        # fractional everywhere, never 0: every sample is valid
        return 0.25 + ((3 * i + 5 * j) % 7) / 8.0
    if shape == 'circle':
        rad = np.sqrt((i - n // 2) ** 2 + (j - n // 2) ** 2)
        Rc = n / 2 - 0.5
        m = (rad <= Rc).astype(float)
        if form == 'soft1':       # anti-aliased edge, one pixel wide
            return np.clip(Rc - 0.5 - rad + 0.5, 0, 1)
        if form == 'soft6':       # apodised edge, six pixels wide
            return np.clip((Rc - 1.0 - rad) / 6 + 0.5, 0, 1)
    else:
        m = np.ones((n, n))
        m[:, :n // 2] = 0     # 'half'
        if form == 'ramp':        # 0 on the left half, 1/7 .. 1 on the right
            return m * (1 + (3 * i + 5 * j) % 7) / 7.0
    if form == '':
        return m
    if form == 'bool':
        return m.astype(bool)
    if form == 'uint8-255':
        return (m * 255).astype(np.uint8)
    if form == '0/0.5':
        return m * 0.5
    if form == '0/3':
        return m * 3.0
    return m.astype(form)         # int64, float32


def run_synth(case, seed, R):
    n, mk, fam, pi, rms, size = case['samples'], case['mask'], case['psd'], case['params'], case['rms'], case['size']
    fcn = ig.abc_psd if fam == 'abc' else ig.ab_psd
    kw = PSD_PARAMS[fam][pi]
    cid = zlib.crc32(case_key(case).encode())
    rseed = (int(seed) ^ cid) & 0xFFFFFFFF
    mask = synth_mask(mk, n)
    valid = np.ones((n, n), bool) if mask is None else mask != 0
    what = f'render_synthetic_surface(size={size}, samples={n}, rms={rms}, mask={mk}, {fam}_psd{kw})'
    zs = []
    for rep in range(2):
        np.random.seed(rseed)
        out = R.call(ig.render_synthetic_surface, size, n, rms=rms, mask=None if mask is None else mask.copy(), psd_fcn=fcn, **kw)
        if out is FAILED:
            return
        if not (isinstance(out, tuple) and len(out) == 3):
            R.violation('render_synthetic_surface:output', what + ': expected (x, y, z)')
            return
        z = out[2]
        try:
            z = np.asarray(z)
            ok = z.shape == (n, n) and z.dtype.kind == 'f'
        except Exception:   # noqa
            ok = False
        if not R.expect(ok, 'render_synthetic_surface:output', what + f': z must be a real {n}x{n} array'):
            return
        zs.append(z.copy())
    R.observe(zs[0])
    R.expect(np.array_equal(zs[0], zs[1], equal_nan=True), 'render_synthetic_surface:nondeterministic',
             what + ': two runs from the same numpy.random seed differ (a random source the harness does not own)')
    z = zs[0]
    sigm = 'unmasked' if mask is None else ('masked' if len(np.unique(mask)) <= 2 else 'masked:fractional')
    fin = np.isfinite(z)
    if R.expect(np.array_equal(fin, valid), f'render_synthetic_surface:valid-samples:{sigm}',
                what + f': {int(fin.sum())} finite samples, the mask keeps {int(valid.sum())}'):
        got = float(np.sqrt(np.mean(z[valid] ** 2)))
        R.expect_close(got, rms, 64 * EPS * rms, f'render_synthetic_surface:rms:{sigm}', what + ': RMS over the valid samples')
        R.nontrivial(got > 0)
    # the Interferogram constructor path
    np.random.seed(rseed)
    itf = R.call(Interferogram.render_from_psd, size, n, rms=rms, mask=None if mask is None else mask.copy(), psd_fcn=fcn, **kw)
    if itf is not FAILED:
        try:
            d = np.asarray(itf.data)
            ok = d.shape == (n, n)
        except Exception:   # noqa
            ok = False
        if R.expect(ok, 'render_from_psd:output', what + ': .data shape'):
            R.expect(np.array_equal(d, z, equal_nan=True), 'render_from_psd:wiring', what + ': render_from_psd().data differs from render_synthetic_surface for the same seed')
            f2 = np.isfinite(d)
            if f2.any():
                got = float(np.sqrt(np.mean(d[f2] ** 2)))
                R.expect_close(got, rms, 64 * EPS * rms, f'render_from_psd:rms:{sigm}', what + ': Interferogram RMS over its finite samples')
    if mask is None:
        # the default mask argument of render_from_psd ('circle')
        np.random.seed(rseed)
        itf = R.call(Interferogram.render_from_psd, size, n, rms=rms, psd_fcn=fcn, **kw)
        if itf is not FAILED:
            try:
                d = np.asarray(itf.data, dtype=float)
                f2 = np.isfinite(d)
                got = float(np.sqrt(np.mean(d[f2] ** 2))) if f2.any() else float('nan')
            except Exception as e:   # noqa
                R.violation('render_from_psd:output', what + f' default mask: {type(e).__name__}: {e}')
            else:
                R.expect_close(got, rms, 64 * EPS * rms, 'render_from_psd:rms:default-mask', what + ': default mask, RMS over the finite samples')
    R.outcome(f'synth:{fam}:{mk}')



# ---------------------------------------------------------------------------------------------
# user window arrays of every dtype a caller plausibly passes (aperture masks as boxcar windows)

WDTYPES = ('float64', 'float32', 'bool', 'uint8', 'int64')


def dtype_window(kind, dt, n0, n1):
    i, j = np.indices((n0, n1))
    if kind == 'ones':
        w = np.ones((n0, n1))
    elif kind == 'mask':      # 0/1 circular aperture about the n//2 origin
        w = (((i - n0 // 2) ** 2 + (j - n1 // 2) ** 2) <= (min(n0, n1) / 2.0) ** 2).astype(float)
    elif kind == 'ramp':      # small integers 0..6
        w = ((3 * i + 5 * j) % 7).astype(float)
    else:                     # 'frac': non-integer values (floating dtypes only)
        w = 0.5 + ((3 * i + 5 * j) % 7) / 7.0
    return w.astype(dt)


def run_wdtype(case, seed, R):
    n0, n1, dx, dt, kind = case['n0'], case['n1'], case['dx'], case['dtype'], case['kind']
    try:
        w = dtype_window(kind, dt, n0, n1)
        wf = w.astype(np.float64)          # the numbers the caller passed, exactly
        eps = float(np.finfo(np.float32).eps) if (dt == 'float32' and kind == 'frac') else EPS
        maps = [(('const',), np.full((n0, n1), 1.5)), (('dense',), dense((n0, n1), seed, salt=41, complex_=False))]
        d = np.zeros((n0, n1))
        d[n0 // 2, n1 // 2] = 1.0
        maps.append((('delta-centre',), d))
        for label, h in maps:
            # float32 sums of non-integers depend on the summation order at the 1e-7 level: no layout variants there
            out = R.call(ig.psd, h.copy(), dx, w.copy(), hygiene=(eps == EPS))
            judge_psd(R, out, h, dx, [(f'user:{dt}', wf, np.abs(wf))], f'user:{dt}',
                      f'psd({n0}x{n1}, dx={dx}, window={kind} array of dtype {dt}) of {label}', eps=eps)
        R.outcome(f'wdtype:{dt}')
    finally:
        prune(R)


# ---------------------------------------------------------------------------------------------
# history: module-level state shared between synthesis and analysis (frequency-vector caches ...)

H_DX = 0.5        # size = (n-1) * H_DX round-trips exactly, so the synthesis and the analysis ask for the same (dx, n)
H_SHAPES = ((8, 8), (9, 9), (8, 9))


def h_alphabet():
    evs = []
    for n in (8, 9):
        evs.append({'op': 'synth', 'n': n, 'psd': 'abc'})
        evs.append({'op': 'synth', 'n': n, 'psd': 'ab'})
        evs.append({'op': 'from_psd', 'n': n})
        evs.append({'op': 'ft_unit', 'n': n})
        evs.append({'op': 'blrms', 'n': n})
        evs.append({'op': 'iblrms', 'n': n})
    for (a, b) in H_SHAPES:
        evs.append({'op': 'psd', 'n0': a, 'n1': b, 'window': 'user-ones'})
        evs.append({'op': 'psd', 'n0': a, 'n1': b, 'window': 'auto'})
        evs.append({'op': 'ipsd', 'n0': a, 'n1': b})
    return evs


_H_EVENTS = h_alphabet()


def h_fresh(init, seed):
    return {'seed': int(seed), 'hist': [], 'results': []}


def h_events(init, h, state):
    return _H_EVENTS


def h_apply(state, ev, R):
    op = ev['op']
    seed = state['seed']
    out = None
    if op in ('synth', 'from_psd'):
        n = ev['n']
        size = (n - 1) * H_DX
        np.random.seed((seed ^ zlib.crc32(case_key(ev).encode())) & 0xFFFFFFFF)
        if op == 'synth':
            fam = ev['psd']
            out = R.call(ig.render_synthetic_surface, size, n, rms=1.0, mask=None,
                         psd_fcn=ig.abc_psd if fam == 'abc' else ig.ab_psd, **PSD_PARAMS[fam][0])
        else:
            out = R.call(Interferogram.render_from_psd, size, n, rms=1.0, mask=None, **PSD_PARAMS['abc'][1])
    elif op == 'ft_unit':
        out = (R.call(fttools.forward_ft_unit, H_DX, ev['n']), R.call(fttools.forward_ft_unit, H_DX, ev['n'], False))
    elif op == 'psd':
        h = dense((ev['n0'], ev['n1']), seed, salt=43, complex_=False)
        warg, _ = window_choice(ev['window'], h, H_DX)
        out = R.call(ig.psd, h.copy(), H_DX, warg)
    elif op == 'ipsd':
        h = dense((ev['n0'], ev['n1']), seed, salt=43, complex_=False)
        p = R.call(Interferogram(h.copy(), H_DX).psd)
        if p is FAILED:
            out = FAILED
        else:
            try:
                out = (p.x, p.y, p.data)
            except Exception as e:   # noqa
                R.violation('Interferogram.psd:output', f'{type(e).__name__}: {e}')
                out = FAILED
    elif op == 'blrms':
        n = ev['n']
        h = dense((n, n), seed, salt=43, complex_=False)
        P = ref_psd(h, H_DX) / (n * n)
        r, cls, mids = radial_classes(n, n, H_DX)
        m = len(mids)
        a, b = float(mids[m // 3]), float(mids[(2 * m) // 3])
        out = (R.call(ig.bandlimited_rms, r, P, flow=0.0, fhigh=None), R.call(ig.bandlimited_rms, r, P, flow=a, fhigh=b),
               R.call(ig.bandlimited_rms, r, P, wllow=1 / b, wlhigh=1 / a))
    elif op == 'iblrms':
        n = ev['n']
        out = R.call(Interferogram(np.full((n, n), 1.5), H_DX).bandlimited_rms, flow=0.0, fhigh=None)
    state['hist'].append(ev)
    state['results'].append(out)
    return state


def _flat(out):
    if isinstance(out, (tuple, list)):
        return [np.asarray(o) for o in out]
    if hasattr(out, 'data') and not isinstance(out, np.ndarray):
        return [np.asarray(out.data)]
    return [np.asarray(out)]


def h_check(state, init, history, R):
    if not history:
        return
    ev, out = history[-1], state['results'][-1]
    op = ev['op']
    prev = history[-2]['op'] if len(history) > 1 else 'fresh'
    pre = f'after[{prev}]:'
    seed = state['seed']
    try:
        if out is FAILED or (isinstance(out, tuple) and any(o is FAILED for o in out)):
            return
        if op in ('synth', 'from_psd'):
            n = ev['n']
            z = out[2] if op == 'synth' else out.data
            z = np.asarray(z)
            if R.expect(z.shape == (n, n) and z.dtype.kind == 'f' and bool(np.isfinite(z).all()), pre + op + ':output', f'{ev}: z must be a finite {n}x{n} array'):
                R.expect_close(float(np.sqrt(np.mean(z ** 2))), 1.0, 64 * EPS, pre + op + ':rms', f'{ev}: RMS of the synthesised surface')
                R.nontrivial()
        elif op == 'ft_unit':
            n = ev['n']
            ref = ref_axis(n, H_DX)
            if R.expect_close(out[0], ref, 4 * EPS * np.abs(ref), pre + 'forward_ft_unit', f'forward_ft_unit({H_DX}, {n})'):
                R.expect(out[0][n // 2] == 0, pre + 'forward_ft_unit', 'zero-frequency sample is not exactly 0')
            i0 = (np.arange(n) + n // 2) % n
            R.expect_close(out[1], ref[i0], 4 * EPS * np.abs(ref[i0]), pre + 'forward_ft_unit', f'forward_ft_unit({H_DX}, {n}, shift=False)')
            R.nontrivial()
        elif op in ('psd', 'ipsd'):
            h = dense((ev['n0'], ev['n1']), seed, salt=43, complex_=False)
            _, cands = window_choice(ev.get('window', 'auto'), h, H_DX)
            judge_psd(R, out, h, H_DX, cands, ev.get('window', 'auto'), f'{ev} after {history[:-1]}',
                      prefix=pre + ('psd' if op == 'psd' else 'Interferogram.psd'))
        elif op == 'blrms':
            n = ev['n']
            h = dense((n, n), seed, salt=43, complex_=False)
            P = ref_psd(h, H_DX) / (n * n)
            r, cls, mids = radial_classes(n, n, H_DX)
            m = len(mids)
            cell = P / (n * H_DX) ** 2
            ring = ring_mask(n, n)
            MS = float(cell.sum())
            ia, ib = m // 3, (2 * m) // 3
            inb = (cls > ia) & (cls <= ib)
            wants = ((MS, float((cell * ring).sum())), (float(cell[inb].sum()), float((cell * ring)[inb].sum())))
            vals = [as_ms(R, v, pre + 'bandlimited_rms:output', str(ev)) for v in out]
            if None not in vals:
                for v, (U, E) in zip(vals[:2], wants):
                    R.expect(abs(v - U) <= E + K * EPS * MS, pre + 'bandlimited_rms:band-integral', f'{ev}: rms^2={v!r}, integral over the band {U!r}, ring weight {E!r}')
                R.expect(abs(vals[2] - vals[1]) <= K * EPS * MS, pre + 'bandlimited_rms:period-vs-frequency', f'{ev}: period form {vals[2]!r} vs frequency form {vals[1]!r}')
                R.nontrivial()
        elif op == 'iblrms':
            n = ev['n']
            h = np.full((n, n), 1.5)
            v = as_ms(R, out, pre + 'Interferogram.bandlimited_rms:output', str(ev))
            if v is not None:
                _, cands = window_choice('auto', h, H_DX)
                best = None
                for name, w, wabs in cands:
                    S2 = float((w ** 2).sum())
                    cell = ref_psd(h * w, H_DX) / S2 / (n * H_DX) ** 2
                    MS, E = float(cell.sum()), float((cell * ring_mask(n, n)).sum())
                    dev = abs(v - MS) - E - K * EPS * float(((h * wabs) ** 2).sum()) / S2
                    if best is None or dev < best[0]:
                        best = (dev, name, MS, E)
                R.expect(best[0] <= 0, pre + 'Interferogram.bandlimited_rms:fullband', f'{ev}: rms^2={v!r}, windowed mean square {best[2]!r} ({best[1]}), ring weight {best[3]!r}')
                R.nontrivial()
        # the same call twice in a row: identical answer (its own first run must not change its second)
        if len(history) == 2 and history[0] == history[1]:
            a, b = state['results'][0], state['results'][1]
            if a is not FAILED and b is not FAILED:
                fa, fb = _flat(a), _flat(b)
                same = len(fa) == len(fb) and all(x.shape == y.shape and np.array_equal(x, y, equal_nan=True) for x, y in zip(fa, fb))
                R.expect(same, f'history:{op}:repeat', f'{ev} gives a different answer the second time')
        R.outcome(f'{prev}->{op}')
    finally:
        prune(R)


def h_canon(state):
    return tuple(case_key(e) for e in state['hist'])


# ---------------------------------------------------------------------------------------------
# object-level history: spectra of ONE Interferogram whose data are edited in place between calls

O_DX = 0.5
O_PSD_OPS = ('psd', 'blrms_full', 'blrms_band', 'tis')
O_EDIT_OPS = ('remove_piston', 'remove_tiptilt', 'remove_power', 'fill0', 'mask+fill', 'spike_clip+fill', 'scale', 'assign')
_O_EVENTS = [{'op': o} for o in O_PSD_OPS + O_EDIT_OPS]


def o_fresh(init, seed):
    n0, n1 = init['n0'], init['n1']
    i, j = np.indices((n0, n1))
    h = dense((n0, n1), seed, salt=53, complex_=False) + 3.0 + 0.4 * j - 0.2 * i + 0.05 * ((i - n0 // 2) ** 2 + (j - n1 // 2) ** 2)
    h[1, 2] += 40.0      # one spike for spike_clip
    return {'itf': Interferogram(h, O_DX), 'seed': int(seed), 'hist': [], 'last': None, 'n': (n0, n1)}


def o_events(init, h, state):
    return _O_EVENTS


def o_psd_call(itf, op, R, n0, n1, dx=None):
    if op == 'psd':
        p = R.call(itf.psd)
        if p is FAILED:
            return FAILED
        try:
            return (np.asarray(p.x), np.asarray(p.y), np.asarray(p.data))
        except Exception as e:   # noqa
            R.violation('Interferogram.psd:output', f'{type(e).__name__}: {e}')
            return FAILED
    if op == 'blrms_full':
        return R.call(itf.bandlimited_rms, flow=0.0, fhigh=None)
    if op == 'blrms_band':
        _, _, mids = radial_classes(n0, n1, O_DX if dx is None else dx)
        m = len(mids)
        return R.call(itf.bandlimited_rms, wllow=1.0 / float(mids[(2 * m) // 3]), wlhigh=1.0 / float(mids[m // 3]))
    return R.call(itf.total_integrated_scatter, 50.0, 30.0)


def o_apply(state, ev, R):
    op = ev['op']
    itf = state['itf']
    n0, n1 = state['n']
    out = None
    if op in O_PSD_OPS:
        out = o_psd_call(itf, op, R, n0, n1)
    elif op in ('remove_piston', 'remove_tiptilt', 'remove_power'):
        R.call(getattr(itf, op))
    elif op == 'fill0':
        R.call(itf.fill, 0)
    elif op == 'mask+fill':
        i, j = np.indices((n0, n1))
        keep = ((i - n0 // 2) ** 2 + (j - n1 // 2) ** 2) <= (min(n0, n1) / 2.0) ** 2
        R.call(itf.mask, keep)
        R.call(itf.fill, 0)
    elif op == 'spike_clip+fill':
        R.call(itf.spike_clip)
        R.call(itf.fill, 0)
    elif op == 'scale':
        itf.data *= 2
        R.tick()
    elif op == 'assign':
        itf.data[...] = dense((n0, n1), state['seed'], salt=59, complex_=False) - 1.0
        R.tick()
    state['hist'].append(ev)
    state['last'] = out
    return state


def o_check(state, init, history, R):
    if not history or history[-1]['op'] not in O_PSD_OPS:
        return
    op = history[-1]['op']
    out = state['last']
    n0, n1 = state['n']
    edits = [e['op'] for e in history[:-1] if e['op'] in O_EDIT_OPS]
    pre = 'Interferogram:after-inplace-edit:' if (edits and any(e['op'] in O_PSD_OPS for e in history[:-1])) else 'Interferogram:'
    what = f'{n0}x{n1} history {[e["op"] for e in history]}'
    try:
        if out is FAILED:
            return
        try:
            h = np.array(state['itf'].data, dtype=float, copy=True)
            ok = h.shape == (n0, n1) and bool(np.isfinite(h).all())
        except Exception:   # noqa
            ok = False
        if not R.expect(ok, pre + 'data', what + ': the data are no longer a finite array of the original shape'):
            return
        # what a fresh Interferogram built from a copy of the CURRENT data returns
        fresh = o_psd_call(Interferogram(h.copy(), O_DX), op, R, n0, n1)
        _, cands = window_choice('auto', h, O_DX)
        if op == 'psd':
            judge_psd(R, out, h, O_DX, cands, 'auto', what, prefix=pre + 'psd')
            if fresh is not FAILED:
                R.expect_equal(out[2], fresh[2], pre + 'psd:vs-fresh-object', what + ': psd().data vs a fresh Interferogram of the current data')
        else:
            if op == 'tis':
                try:
                    a = np.asarray(out, dtype=float)
                    good = a.shape == () and bool(np.isfinite(a))
                except Exception:   # noqa
                    good = False
                if not R.expect(good, pre + 'tis:output', what + ': TIS must be one finite number'):
                    return
                v = float(a)
                f = None if fresh is FAILED else float(np.asarray(fresh, dtype=float))
                scale = max(abs(v), 1e-300)
            else:
                v = as_ms(R, out, pre + op + ':output', what)
                f = None if fresh is FAILED else as_ms(R, fresh, pre + op + ':output', what + ' (fresh object)')
                if v is None:
                    return
                scale = max(v, 1e-300)
                if op == 'blrms_full':
                    best = None
                    for name, w, wabs in cands:
                        S2 = float((w ** 2).sum())
                        cell = ref_psd(h * w, O_DX) / S2 / (n0 * n1 * O_DX * O_DX)
                        MS, E = float(cell.sum()), float((cell * ring_mask(n0, n1)).sum())
                        dev = abs(v - MS) - E - K * EPS * float(((h * wabs) ** 2).sum()) / S2
                        if best is None or dev < best[0]:
                            best = (dev, name, MS, E)
                    R.expect(best[0] <= 0, pre + 'blrms_full:fullband', f'{what}: rms^2={v!r}, windowed mean square of the current data {best[2]!r} ({best[1]}), ring weight {best[3]!r}')
            if f is not None:
                R.expect(abs(v - f) <= 8 * EPS * max(scale, abs(f)), pre + op + ':vs-fresh-object', f'{what}: {v!r} vs a fresh Interferogram of the current data {f!r}')
        R.nontrivial()
        R.outcome(('edited->' if edits else '') + op)
    finally:
        prune(R)


def o_canon(state):
    return tuple(e['op'] for e in state['hist'])


# ---------------------------------------------------------------------------------------------
# geometry history: ONE Interferogram whose shape / sampling / cached coordinate grids change between calls
#
# The spectrum-type methods are functions of (data, dx) alone.  The object also carries lazily materialised coordinate grids
# (x, y, r, t), which crop() slices without recentring, recenter() shifts, latcal()/strip_latcal()/pad() rebuild, and which go
# stale when the public attributes dx / data are reassigned.  Whatever the grids' state, a spectrum-type call must equal the
# reference computed from the CURRENT data and dx and what a fresh Interferogram(data.copy(), dx) returns.

G_DX = 0.5
G_DX2 = 0.2
G_GEOM_OPS = ('get_x', 'get_y', 'get_r', 'get_t', 'remove_piston', 'remove_tiptilt', 'crop', 'recenter', 'fill0',
              'strip_latcal', 'latcal', 'pad0', 'set_dx', 'set_data', 'copy')
_G_GEOM = [{'op': o} for o in G_GEOM_OPS]
_G_SPEC = [{'op': o} for o in O_PSD_OPS]


def g_fresh(init, seed):
    n0, n1 = init['n0'], init['n1']
    t, b, l, r_ = init['border']
    i, j = np.indices((n0, n1))
    h = dense((n0, n1), seed, salt=71, complex_=False) + 2.0 + 0.3 * j - 0.15 * i + np.sin(j / 1.7) * np.cos(i / 1.3)
    h[:t] = np.nan
    h[n0 - b:] = np.nan
    h[:, :l] = np.nan
    h[:, n1 - r_:] = np.nan
    return {'itf': Interferogram(h, G_DX), 'seed': int(seed), 'hist': [], 'last': None, 'spec': False, 'dead': False}


def g_finite(itf):
    try:
        d = np.asarray(itf.data)
        return d.ndim == 2 and d.dtype.kind == 'f' and min(d.shape) >= 3 and bool(np.isfinite(d).all())
    except Exception:   # noqa
        return False


def g_events(init, h, state):
    # a spectrum of a map with invalid samples is outside the property's domain: offered only on finite data
    if state.get('dead'):
        return []
    return _G_GEOM + (_G_SPEC if g_finite(state['itf']) else [])


def g_spec_call(itf, op, R):
    n0, n1 = itf.data.shape
    return o_psd_call(itf, op, R, n0, n1, float(itf.dx))


def g_edit(state, R, f, *a, **k):
    """An editor / geometry method is not judged by this property: one that refuses the present state only ends the history."""
    nv = len(R.violations)
    out = R.call(f, *a, **k)
    if out is FAILED:
        del R.violations[nv:]
        state['dead'] = True
    return out


def g_apply(state, ev, R):
    op = ev['op']
    itf = state['itf']
    out = None
    if op in O_PSD_OPS:
        out = g_spec_call(itf, op, R)
        state['spec'] = True
    elif op in ('get_x', 'get_y', 'get_r', 'get_t'):
        g_edit(state, R, getattr, itf, op[4:], hygiene=False)
    elif op in ('remove_piston', 'remove_tiptilt', 'crop', 'recenter', 'strip_latcal'):
        g_edit(state, R, getattr(itf, op))
    elif op == 'fill0':
        g_edit(state, R, itf.fill, 0)
    elif op == 'latcal':
        g_edit(state, R, itf.latcal, G_DX2)
    elif op == 'pad0':
        g_edit(state, R, itf.pad, 0.0, samples=(1, 2))
    elif op == 'set_dx':          # public attribute reassigned
        itf.dx = G_DX2
        R.tick()
    elif op == 'set_data':        # public attribute reassigned: a finite map of another shape
        n0, n1 = np.asarray(itf.data).shape
        itf.data = dense((n0 - 1, n1 + 2), state['seed'], salt=73, complex_=False) + 0.5
        R.tick()
    elif op == 'copy':
        c = g_edit(state, R, itf.copy)
        if c is not FAILED:
            state['itf'] = c
    state['hist'].append(ev)
    state['last'] = out
    return state


def judge_spectrum(R, itf, op, out, dx, pre, what, band_ref=False):
    """A spectrum-type result of `itf` against the reference of its CURRENT data / dx and against a fresh object."""
    if out is FAILED:
        return
    try:
        h = np.array(itf.data, dtype=float, copy=True)
        ok = h.ndim == 2 and bool(np.isfinite(h).all())
    except Exception:   # noqa
        ok = False
    if not R.expect(ok, pre + 'data', what + ': the data are no longer a finite 2-D array'):
        return
    n0, n1 = h.shape
    fresh = o_psd_call(Interferogram(h.copy(), dx), op, R, n0, n1, dx)
    _, cands = window_choice('auto', h, dx)
    if op == 'psd':
        judge_psd(R, out, h, dx, cands, 'auto', what, prefix=pre + 'psd')
        if fresh is not FAILED:
            R.expect_equal(out[2], fresh[2], pre + 'psd:vs-fresh-object', what + ': psd().data vs a fresh Interferogram of the current data')
    else:
        if op == 'tis':
            try:
                a = np.asarray(out, dtype=float)
                good = a.shape == () and bool(np.isfinite(a))
            except Exception:   # noqa
                good = False
            if not R.expect(good, pre + 'tis:output', what + ': TIS must be one finite number'):
                return
            v = float(a)
            f = None if fresh is FAILED else float(np.asarray(fresh, dtype=float))
            scale = max(abs(v), 1e-300)
        else:
            v = as_ms(R, out, pre + op + ':output', what)
            f = None if fresh is FAILED else as_ms(R, fresh, pre + op + ':output', what + ' (fresh object)')
            if v is None:
                return
            scale = max(v, 1e-300)
            if op == 'blrms_full' or band_ref:
                ring = ring_mask(n0, n1)
                if op == 'blrms_full':
                    inb = np.ones((n0, n1), bool)
                else:
                    _, cls, mids = radial_classes(n0, n1, dx)
                    m = len(mids)
                    inb = (cls > m // 3) & (cls <= (2 * m) // 3)
                best = None
                for name, w, wabs in cands:
                    S2 = float((w ** 2).sum())
                    cell = ref_psd(h * w, dx) / S2 / (n0 * n1 * dx * dx)
                    U, E = float(cell[inb].sum()), float((cell * ring)[inb].sum())
                    dev = abs(v - U) - E - K * EPS * float(((h * wabs) ** 2).sum()) / S2
                    if best is None or dev < best[0]:
                        best = (dev, name, U, E)
                if op == 'blrms_full':
                    R.expect(best[0] <= 0, pre + 'blrms_full:fullband', f'{what}: rms^2={v!r}, windowed mean square of the current data {best[2]!r} ({best[1]}), ring weight {best[3]!r}')
                else:
                    R.expect(best[0] <= 0, pre + 'blrms_band:band-integral', f'{what}: rms^2={v!r}, integral of the PSD of the current data over the band {best[2]!r} ({best[1]}), ring weight {best[3]!r}')
        if f is not None:
            R.expect(abs(v - f) <= 8 * EPS * max(scale, abs(f)), pre + op + ':vs-fresh-object', f'{what}: {v!r} vs a fresh Interferogram of the current data {f!r}')
    R.nontrivial()


def g_check(state, init, history, R):
    if not history or history[-1]['op'] not in O_PSD_OPS:
        return
    op = history[-1]['op']
    itf = state['itf']
    ops = [e['op'] for e in history]
    try:
        dx = float(itf.dx)
    except Exception:   # noqa
        R.violation('Interferogram:geometry:dx', f'history {ops}: dx is no longer a number')
        return
    grids = [o for o in ops[:-1] if o in G_GEOM_OPS and o not in ('remove_piston', 'fill0', 'copy')]
    cls = 'after-' + grids[-1] if grids else 'plain'
    try:
        judge_spectrum(R, itf, op, state['last'], dx, f'Interferogram:geometry:{cls}:', f'{init["n0"]}x{init["n1"]} NaN border {init["border"]}, history {ops} '
                       f'(now {np.asarray(itf.data).shape}, dx={dx})', band_ref=True)
        R.outcome(f'{cls}->{op}')
    finally:
        prune(R)


def _digest(v):
    if v is None:
        return None
    if isinstance(v, np.ndarray):
        return (v.shape, str(v.dtype), zlib.crc32(np.ascontiguousarray(v).tobytes()))
    if isinstance(v, (bool, int, float, str, np.generic)):
        return repr(v)
    return type(v).__name__


def g_canon(state):
    """Every attribute of the object (so a cache a changed implementation hangs on it is seen) + 'a spectrum call happened'."""
    itf = state['itf']
    return (state['spec'], state['dead']) + tuple((k, _digest(v)) for k, v in sorted(vars(itf).items()))


# ---------------------------------------------------------------------------------------------

# ---------------------------------------------------------------------------------------------
# make_window on its own: the window a caller receives belongs to the caller (he may clip it, multiply an aperture into it);
# the PSD of a later map of the same shape must use the window it names, not what became of an earlier returned array

def run_window(case, seed, R):
    n0, n1, dx, wname = case['n0'], case['n1'], case['dx'], case['window']
    h = dense((n0, n1), seed, salt=77, complex_=False)
    arg, cands = window_choice(wname, h, dx)
    w = R.call(ig.make_window, h.copy(), dx, arg, sig='make_window:exception')       # plain function: the hygiene layer scribbles on the result and repeats the call
    if w is FAILED:
        return
    ok = False
    for name, ref, wabs in cands:
        if isinstance(w, np.ndarray) and w.shape == ref.shape and np.all(np.abs(w - ref) <= 64 * EPS * wabs):
            ok = True
    R.expect(ok, f'make_window:value:{wname}', f'make_window({(n0, n1)}, dx={dx}, {arg!r}) is none of the candidate windows {[c[0] for c in cands]}')
    if not ok:
        return
    # the caller edits the window he was given, in place, then asks for the PSD of another map of the same shape and spacing
    keep = w.copy()
    w[...] = np.clip(w, 0.25, 0.5) * 3.0
    h2 = dense((n0, n1), seed, salt=78, complex_=False)
    out = R.call(ig.psd, h2.copy(), dx, arg, sig='psd:exception', hygiene=False)
    judge_psd(R, out, h2, dx, cands, wname, f'psd of a {(n0, n1)} map after a window returned earlier by make_window was edited in place', prefix='psd:after-window-edit')
    w2 = R.call(ig.make_window, h.copy(), dx, arg, sig='make_window:exception', hygiene=False)
    R.expect_equal(w2, keep, f'make_window:after-window-edit:{wname}', 'make_window returns the edited values of an array it handed out earlier')
    R.nontrivial(n0 * n1 > 1)
    R.outcome(f'window:{wname}')


def plan(tier, seed):
    quick = tier == 'quick'
    B = 8 if quick else 11
    dxs = (1.0, 0.25) if quick else (1.0, 0.25, 0.3)
    shapes = sorted(((n0, n1) for n0 in range(3, B + 1) for n1 in range(3, B + 1)), key=lambda s: (s[0] * s[1], s))
    windows = ('user-ones', 'user-ramp', 'hann', 'welch', 'auto')
    psd_cases = [{'n0': a, 'n1': b, 'dx': dx, 'window': w} for (a, b) in shapes for dx in dxs for w in windows]
    xdx = (1e-6, 1e6, 3e7)          # tiny / huge sample spacings: the physics is scale-invariant
    psd_cases += [{'n0': a, 'n1': b, 'dx': dx, 'window': w} for (a, b) in shapes if a * b <= (20 if quick else 36)
                  for dx in xdx for w in ('user-ones', 'welch')]
    big = [(26, 26), (26, 27), (27, 26), (27, 27)] + ([] if quick else [(76, 26), (27, 75), (50, 51)])
    auto_cases = [{'n0': a, 'n1': b, 'dx': dx, 'corners': [c0, c1, c2, c3]}
                  for (a, b) in big for dx in (1.0, 0.25)
                  for c0 in (0, 1) for c1 in (0, 1) for c2 in (0, 1) for c3 in (0, 1)]
    w_cases = [{'n0': a, 'n1': b, 'dx': dx} for (a, b) in shapes for dx in dxs + xdx]
    band_cases = [{'n0': a, 'n1': b, 'dx': dx, 'window': w, 'map': mp}
                  for (a, b) in shapes for dx in dxs for w in ('user-ones', 'hann', 'welch') for mp in ('const', 'sin', 'dense')]
    band_cases += [{'n0': a, 'n1': b, 'dx': dx, 'window': w, 'map': mp}
                   for (a, b) in shapes for dx in xdx for w in ('user-ones', 'welch') for mp in ('const', 'dense')]
    ev_shapes = [(4, 4), (5, 5), (4, 7), (7, 6), (8, 8)] + ([] if quick else [(3, 3), (9, 11), (12, 12), (16, 15)])
    ev_cases = [{'n0': a, 'n1': b, 'dx': dx, 'window': w, 'method': w == 'user-ones'}
                for (a, b) in ev_shapes for dx in (1.0, 0.25) + (() if quick else (3e7,)) for w in ('user-ones', 'welch')]
    tis_cases = [{'n0': a, 'n1': b, 'dx': dx, 'object_wavelength': lo}
                 for (a, b) in ([(8, 8), (9, 8), (12, 11)] + ([] if quick else [(7, 7), (16, 16), (10, 13)]))
                 for dx in (0.1, 0.02, 0.004, 0.002, 'on:10.6', 'on:1.55') for lo in (0.6328, 10.6, 0.4)]
    form_shapes = [(9, 9), (8, 9), (12, 10)] + ([] if quick else [(11, 8), (16, 16), (15, 13)])
    form_cases = [{'n0': a, 'n1': b, 'kind': kind, 'form': form, 'target': tg}
                  for (a, b) in form_shapes for kind in ('period', 'frequency') for tg in ('function', 'method') for form in FORMS]
    wd_shapes = [(3, 4), (5, 5), (8, 7), (16, 16), (17, 18)] + ([] if quick else [(33, 31), (64, 64)])
    wd_cases = [{'n0': a, 'n1': b, 'dx': dx, 'dtype': dt, 'kind': kind}
                for (a, b) in wd_shapes for dx in (1.0, 0.25) for dt in WDTYPES
                for kind in (('ones', 'mask') if dt == 'bool' else ('ones', 'mask', 'ramp', 'frac') if dt.startswith('float') else ('ones', 'mask', 'ramp'))]
    meth_cases = [{'n0': a, 'n1': b, 'dx': dx, 'map': mp} for (a, b) in shapes for dx in dxs for mp in ('const', 'sin', 'dense')]
    sizes = (10.0,) if quick else (10.0, 0.7)
    synth_cases = [{'samples': n, 'mask': mk, 'psd': fam, 'params': pi, 'rms': rms, 'size': size}
                   for n in ((8, 9, 16) if quick else (8, 9, 16, 17, 32))
                   for mk in SYNTH_MASKS for fam in ('abc', 'ab') for pi in (0, 1)
                   for rms in (1.0, 3.7) for size in sizes]
    # magnitude dimension: unnormalised realisations of ~1e-10 .. 1e-15 and 1e12, requested RMS in SI units and huge (the rescale to the
    # requested RMS is a ratio, so it must be exact at every magnitude); masks: none, binary circle, fractional
    synth_cases += [{'samples': n, 'mask': mk, 'psd': fam, 'params': pi, 'rms': rms, 'size': 10.0}
                    for n in (8, 9) for mk in [SYNTH_MASKS[0], SYNTH_MASKS[1], SYNTH_MASKS[-1]] for fam in ('abc', 'ab') for pi in (2, 3, 4) for rms in (5e-9, 1.0, 2.5e7)]
    g_inits = [{'n0': 12, 'n1': 13, 'border': [1, 3, 2, 0]}, {'n0': 12, 'n1': 12, 'border': [2, 0, 1, 3]}] + ([] if quick else [{'n0': 11, 'n1': 14, 'border': [2, 2, 3, 3]}, {'n0': 30, 'n1': 33, 'border': [0, 3, 2, 1]}])
    g_depth = 4
    rs = lambda: reset_executors(64)   # noqa
    win_cases = [{'n0': a, 'n1': b, 'dx': dx, 'window': wn} for (a, b) in ((3, 3), (4, 4), (5, 4), (4, 7), (8, 8), (9, 6)) for dx in (1.0, 0.25) for wn in ('auto', 'hann', 'welch')]
    return [
        ScopeUnit('make_window', win_cases, run_window,
                  'make_window on its own for shapes {3x3, 4x4, 5x4, 4x7, 8x8, 9x6} x dx {1, 0.25} x {automatic, hann, welch}: value against the reference windows (through the call-hygiene layer: the '
                  'returned array is written into and the call repeated), then the returned window is edited in place and (a) the PSD of another map of the same shape and spacing must still use the named window, '
                  '(b) make_window must return the original values again', reset=rs),
        ScopeUnit('psd', psd_cases, run_psd,
                  f'every shape in [3..{B}]^2 (non-square, odd/even) x dx in {list(dxs)} x window in {{user array of ones, user array (asymmetric ramp), '
                  "'hann', 'welch', None}}; height maps: for shapes with <= 12 samples the complete quadratic-form basis (every delta_i and every "
                  'delta_i+delta_j; the PSD is a quadratic form of the data so the verdict covers every real map), otherwise every delta, a constant and one '
                  'seeded dense map; plus EVERY representable sinusoid (ky,kx).  Oracles: axes == (i-n//2)/(n dx) with an exact zero, Parseval, every PSD sample '
                  'vs an explicit-matrix DFT placed on the returned axes, peak bins read off the returned axes for sinusoids/constant.  Non-trivial when h*w != 0', reset=rs, chunk=3),
        ScopeUnit('window_dtype', wd_cases, run_wdtype,
                  f'shapes {wd_shapes} x dx x user window ARRAY of dtype {list(WDTYPES)} x content {{all ones, 0/1 circular aperture mask, small-integer ramp 0..6, '
                  'non-integer ramp (floating dtypes)}} x maps {constant, dense, centre impulse}: same oracles as unit psd with the window converted exactly to float64 '
                  '(threshold alphabet over dtype and sum-of-squares magnitude: 256 and 306 ones reach the uint8 wrap; not closed over the data dimension)', reset=rs),
        ScopeUnit('auto_window', auto_cases, run_auto,
                  f'shapes {big} (2% corner blocks non-empty) x dx x all 16 zero/non-zero patterns of the four corner blocks x {{dense, constant}}: the automatic '
                  'choice must be welch iff all four blocks are zero, hann otherwise; through psd() and Interferogram.psd()', reset=rs),
        ScopeUnit('band_weights', w_cases, run_weights,
                  f'every shape in [3..{B}]^2 x dx: bandlimited_rms^2 on every unit impulse of the PSD array (complete for a linear functional): full-band weight '
                  '(interior == dfx dfy, outermost ring in [0, 2 dfx dfy]), membership in the tightest band around its radius and absence from both complements; '
                  'linearity confirmed on one dense PSD', reset=rs),
        ScopeUnit('bands', band_cases, run_bands,
                  f'every shape in [3..{B}]^2 x dx x window {{ones, hann, welch}} x map {{constant, sinusoid(1,1), dense}}: edges = 0, every mid-point between consecutive '
                  'distinct sample radii, and the open upper end; EVERY pair of edges as frequencies (flow/fhigh, incl. one-sided) and as periods (wllow/wlhigh, incl. '
                  'one-sided); every ordered triple for additivity; neighbours for monotonicity; every band against the reference integral within the ring weight; '
                  'period form == frequency form', reset=rs, chunk=8),
        ScopeUnit('edge_values', ev_cases, run_edge_values,
                  f'shapes {ev_shapes} x dx x window {{ones, welch}}, dense map with non-zero mean: band-edge VALUE alphabet {{0 as int / float / np.float64 / None; exactly on a frequency '
                  'bin (first ring, a middle ring, the end of the shorter axis); between bins; r.max(); 1.5 r.max(); 1e9; inf; None}} -- every ordered pair low <= high including low == high, '
                  'as frequencies and as the corresponding periods (1/f, inf for 0, None); each band against the reference integral (open band - ring <= rms^2 <= closed band + ring, so either '
                  'reading of a tie is accepted), widening never decreases, equal bands in different forms agree, adjacent bands add in quadrature up to the samples tied with the common edge; '
                  'Interferogram.bandlimited_rms == function on its own PSD for every pair.  A zero period is outside the domain', reset=rs),
        ScopeUnit('edge_forms', form_cases, run_forms,
                  f'shapes {form_shapes} x {{periods 2,4,5,20 at dx=1.1; frequencies 2,8,10,20 at dx=1.1/40 (same geometry)}} x {{bandlimited_rms, Interferogram.bandlimited_rms}} x '
                  f'argument form {list(FORMS)}: every two-sided and one-sided band over the four integer-valued edges (all strictly between sample radii), the form applied to '
                  'both edges and to each edge alone; every form must give the result of the same edges as Python floats (which is itself judged against the reference integral); '
                  'total_integrated_scatter with wavelength / angle in every form', reset=rs),
        ScopeUnit('tis', tis_cases, run_tis,
                  f'shapes x dx in {{0.1, 0.02, 0.004, 0.002, and the dx that puts the end of axis 0 exactly on 1000/10.6 resp. 1000/1.55}} x object wavelength {{0.6328, 10.6, 0.4}} x '
                  f'requested wavelength {list(TIS_LAMBDAS)} (different from the object\'s) x angle {{0, 30, 60}}: the band edge 1000/lambda falls inside / on a bin / above the frequency grid; '
                  'TIS is inverted for sigma^2 and compared with the reference RMS^2 over [0, 1000/lambda_requested] (open band - ring <= sigma^2 <= closed band + ring); sigma is '
                  'monotone in the band edge.  Map amplitude chosen so that 4 pi sigma / lambda ~ 0.8', reset=rs),
        ScopeUnit('methods', meth_cases, run_methods,
                  f'every shape in [3..{B}]^2 x dx x map: Interferogram.psd (axes, r, Parseval, == psd()), Interferogram.bandlimited_rms on 4 quantile edges in both '
                  'forms (== function on the method\'s own PSD), total_integrated_scatter at 0 and 30 degrees', reset=rs),
        HistoryUnit('pipeline_history', [{'dx': H_DX}], h_fresh, h_events, h_apply, h_check, h_canon, 2,
                    f'every history of length <= 2 over the {len(_H_EVENTS)}-call alphabet {{render_synthetic_surface(n, abc/ab), Interferogram.render_from_psd(n), forward_ft_unit(dx, n) '
                    '(both shifts), bandlimited_rms (function, 3 bands), Interferogram.bandlimited_rms for n in {8,9}; psd (user window / automatic) and Interferogram.psd on 8x8, 9x9, 8x9}} '
                    f'in one process with dx = {H_DX} and size = (n-1) dx, so synthesis and analysis request the same (dx, n): after any preceding call every result must satisfy the '
                    'fresh-state reference (axes exactly (i-n//2)/(n dx), Parseval, spectrum on its axes, band integrals, synthesised RMS) and a repeated call must reproduce itself', reset=rs),
        HistoryUnit('object_history', [{'n0': 8, 'n1': 9}] + ([] if quick else [{'n0': 9, 'n1': 9}, {'n0': 12, 'n1': 7}]), o_fresh, o_events, o_apply, o_check, o_canon, 3,
                    f'every history of length <= 3 on ONE Interferogram over {{{", ".join(O_PSD_OPS)}}} (psd, full-band / period-band bandlimited_rms, total_integrated_scatter) and the in-place '
                    f'editors {{{", ".join(O_EDIT_OPS)}}} (scale: data *= 2, assign: data[...] = other): whenever the last call is a spectrum-type call it must satisfy axes / Parseval / '
                    'spectrum-on-axes / full-band integral against the reference computed from the CURRENT data and equal what a fresh Interferogram built from a copy of the current data returns', reset=rs),
        HistoryUnit('geometry_history', g_inits, g_fresh, g_events, g_apply, g_check, g_canon, g_depth,
                    f'every history of length <= {g_depth} on ONE Interferogram (dx = {G_DX}) whose raw map has an invalid (NaN) margin {[i_["border"] for i_ in g_inits]} (top, bottom, left, right; '
                    f'asymmetric and symmetric) on shapes {[(i_["n0"], i_["n1"]) for i_ in g_inits]}, over the events {{{", ".join(G_GEOM_OPS)}}} (get_*: materialise the cached coordinate grid; '
                    f'latcal({G_DX2}); pad0: pad(0, samples=(1, 2)); set_dx: dx = {G_DX2} reassigned; set_data: data reassigned to a finite map of another shape; copy: continue on copy()) and, '
                    f'whenever the data are finite, the spectrum-type calls {{{", ".join(O_PSD_OPS)}}}; states are merged on the digest of EVERY attribute of the object (+ whether a spectrum call '
                    'happened).  A spectrum-type call must satisfy axes / Parseval / spectrum-on-axes / full-band and band integral against the reference computed from the CURRENT data and dx, '
                    'and equal what a fresh Interferogram(data.copy(), dx) returns -- whatever the state of the cached grids (sliced by crop, shifted by recenter, stale after reassignment)', reset=rs),
        ScopeUnit('synthesis', synth_cases, run_synth,
                  f'samples x mask {list(SYNTH_MASKS)} (aperture shape {{circle, half plane, none}} x mask VALUE FORM alphabet: float 0/1, bool, int64, float32, uint8 0/255, two-valued '
                  '0/0.5 and 0/3, one-pixel anti-aliased edge, six-pixel apodised edge, fractional ramp, strictly positive weight map; a sample is valid iff mask != 0) '
                  'x {abc_psd, ab_psd} x 2 parameter sets x rms {1, 3.7} x size: numpy.random seeded with seed XOR crc32(case) before '
                  'every call, rendered twice (bit-identical), RMS over the valid samples == requested, NaN exactly where the mask is 0; Interferogram.render_from_psd '
                  'with the same mask and with its default mask', reset=rs),
    ]
