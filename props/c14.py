"""C14 -- writing then reading an instrument file returns the same map; truncation is never silent.

Two kinds of units, both scope units (DESIGN.md 3.3, section 4 / C14):

* round trip  -- every (shape, value class, NaN pattern, dx, wavelength, writer options): the map is
  written with the real writer into a per-case temporary directory and read back with the real
  reader.  Oracle (independent of the library): same shape, b[i,j] <-> a[i,j], NaN set equal,
  |a-b| <= one quantisation step *of the format*, dx / wavelength equal to float32 header precision.
* truncation  -- for every written file of <= 20 samples, EVERY cut position inside the data block
  (every byte of the binary block, every character of the text block): the real reader must raise,
  or return with a warning, every sample whose bytes / digits are incomplete NaN and every complete
  sample equal to the untruncated read.  Which output sample lives at which file position is
  measured with a probe file (unique values, read in full), so this verdict does not depend on the
  orientation / shape clauses judged by the round-trip units.

Further alphabets / histories around the round trip (wave 8):
* layout_*      -- the memory layout of the array handed to a writer (Fortran order, transposed view, strided, negative
  strides, padded rows, read-only, byte-swapped) x dtype: the writers return nothing, so the call-hygiene variants
  cannot vary the layout for them.
* rt_zygo_frame -- a camera frame passed next to the map (dtype x frame shape x reader action) and a second generation
  in which everything the reader returned, frame included, is written again.
* hist_interferogram -- every event sequence up to a depth on an Interferogram (fresh / loaded / carrying a header
  dict) before it is saved; oracle: the file says what the object held when saved, and equals the file of a fresh
  object built from the current values.
* hist_pair     -- ordered pairs of different writes; the second is judged.

Quantisation steps, derived from the formats:
  Zygo .dat  -- phase is a big-endian int32 count of "zygos"; one count = S*O*wavelength/R metres
                (MetroPro reference guide p.12-6); the writer sets S = O = 1 and phase_res = 1
                (R = 32768), so step = wavelength[nm] / 32768.  The header keeps the wavelength as
                float32, which scales every sample: a relative term of a few eps(float32) is added.
  Code V GRD -- samples are int16 (-32767..32767, NDA = -32768 is the sentinel) in units of
                WVL/SSZ; SSZ is a free real number in the header, so the format resolves
                max|a| / 32767.
"""
import collections
import os
import re
import shutil
import tempfile
import warnings

import numpy as np

from mc import ScopeUnit, FAILED

from prysm import io
from prysm.interferogram import Interferogram
from prysm.conf import config

ID = 'C14'
ASSUMPTIONS = [
    'Zygo .dat: the header stores wavelength and lateral resolution as float32; the wavelength scales every '
    'sample on reading, so the value tolerance is one int32 count (wavelength/32768) plus 4 eps(float32)*|a|, and '
    'dx / wavelength are compared at 16 eps(float32) relative',
    'Code V grid INT: the format carries neither a sample spacing nor the light wavelength (WVL/SSZ only define the '
    'unit of the integers), and write_codev_gridint takes neither; the dx / wavelength clause is therefore judged on '
    'the Zygo writers only.  One quantisation step is max|a|/32767 (the int16 range with a free real SSZ), not '
    'whatever SSZ a writer happens to choose',
    'typ="FIL" (intensity apodisation) is not a height map and is outside the statement; SUR and WFR, nnb and the '
    'comment line are enumerated',
    'a cut that removes only the white space after the last number of a text file leaves every sample complete; '
    'returning the full, correct map for it is accepted without a warning',
    'the untruncated read of the same file is the reference for the complete samples of a truncated read '
    '(the property states this relation); the position of every sample in the file is measured with a probe '
    'file of unique values, not taken from the reader',
]

EPS32 = float(np.finfo(np.float32).eps)
ZYGO_HEADER = 834
ZYGO_RES = 32768.0
ZYGO_MAXCOUNT = 2147483639          # 2147483640 and above mean "invalid"

SHAPES = [(1, 1), (1, 4), (4, 1), (2, 3), (3, 2), (4, 4), (3, 5), (5, 3)]
SHAPES_MORE = [(24, 25)]            # 600 samples: the text writer's multi-column line layout
SHAPES_THOROUGH = [(6, 7), (16, 16), (13, 45), (1, 587), (9, 2)]
VCLASSES = ['mixed', 'pos', 'neg', 'const', 'zero', 'tiny', 'huge', 'outlier']
NANPATS = ['none', 'corner', 'row', 'checker', 'allbut1']
SAGS = {'sag1e7': 1e7, 'sag3.5e7': 3.5e7, 'sag3e8': 3e8, 'sag3e12': 3e12, 'sag2e-10': 2e-10}   # + magnitudes at which the text header prints its scale in scientific notation    # large sag-type maps [nm]: 10 mm .. 0.3 m (Code V only)
VCLASSES_CV = VCLASSES + list(SAGS)
DXS = [0.5, 0.0123]
DXS_ZERO = [0, 0.0]                  # no lateral calibration: must come back as exactly 0
DXS_FINE = [1.0958904e-3, 8.7378e-5, 3.3e-7, 7.1234567]   # fine / non-round spacings [mm]: microscope objectives .. a coarse grid
HDR_REL = 2.0 ** -23                 # float32 header precision (the honest rounding is <= 2^-24 relative)
WVL_DEFAULT = 0.6328                 # documented default of write_zygo_dat / Interferogram: HeNe, microns
CV_DEFAULTS = {'comment': 'CV GRD generated by prysm', 'typ': 'SUR', 'nnb': False}   # documented signature of write_codev_gridint
FORMS_ZYGO = ['pos', 'omitted', 'all-explicit']      # besides 'kw' (wavelength by keyword)
FORMS_IFG = ['pos', 'wvl-omitted', 'all-explicit']
DTYPES = ['float32', 'int32', 'int16']        # besides float64; integer maps cannot hold NaN or the tiny / out-of-range classes
INT_OK = {'int32': ('mixed', 'pos', 'neg', 'const', 'zero', 'outlier', 'sag1e7', 'sag3.5e7', 'sag3e8'),
          'int16': ('mixed', 'pos', 'neg', 'const', 'zero')}
FORM_V_QUICK = ('mixed', 'pos', 'zero', 'huge', 'sag3e8')   # quick tier: argument forms on these value classes, every shape and NaN pattern
WVLS = [0.6328, 1.55, 10.6]          # HeNe, telecom, CO2 (microns): a value above 10 is still microns
# memory layout of the array handed to a writer (besides 'C': a fresh C-ordered array).  The writers return nothing, so the
# hygiene layer's Fortran-order / strided variants cannot see them: the layout is an explicit alphabet axis here.
LAYOUTS = ['F', 'T', 'strided', 'neg', 'rowpad', 'readonly', 'swapped']
LAYOUT_DTYPES = ['float32', 'int32']      # besides float64: crossed with the layouts that change the element order (F, T)
LAYOUT_V_QUICK = ('mixed', 'neg')
# camera frame handed to the writer next to the map (write_zygo_dat(..., intensity=) / Interferogram(..., intensity=))
FRAME_DTYPES = ['uint16', 'uint8', 'int16', 'int32', 'int64', 'float32', 'float64', 'bool', 'list']
FRAME_SHAPES = ['smaller', 'larger', '1x1', 'empty']     # besides 'same'
READ_ACTIONS = ['first', 'avg', 'last']                  # multi_intensity_action of the readers

_TALLY = collections.Counter()       # per-cut outcome classes of this process (see __main__)


def _reset():
    config.precision = 64


# ---------------------------------------------------------------------------------------------
# the maps

def nan_mask(shape, pat):
    """Boolean mask of invalid samples, or None when the pattern degenerates for this shape."""
    n0, n1 = shape
    N = n0 * n1
    m = np.zeros(shape, bool)
    if pat == 'none':
        return m
    if N == 1:
        return None                  # any pattern would be "none" or "all"
    if pat == 'corner':
        m[0, 0] = True
    elif pat == 'row':
        if n0 == 1:
            return None              # the whole map
        m[0, :] = True
    elif pat == 'checker':
        i, j = np.indices(shape)
        m = (i + j) % 2 == 1
    elif pat == 'allbut1':
        m[:] = True
        m[n0 - 1, 0] = False         # off every symmetry axis the shape has
    else:
        raise ValueError(pat)
    return m


def make_map(shape, vclass, pat, fmt, wavelength, seed):
    """The map of one alphabet cell: a ramp in C order with a marked (largest) corner [0,0], scaled per class."""
    n0, n1 = shape
    N = n0 * n1
    r = (np.arange(N, dtype=float) + 1.0) / N
    r[0] = 1.25                      # marked corner: the largest sample sits at [0,0]
    r = r.reshape(shape)
    rng = np.random.default_rng([int(seed), VCLASSES_CV.index(vclass), n0, n1])
    g = 1.0 + 0.25 * rng.random()    # the generic representative inside the cell
    step_z = wavelength * 1e3 / ZYGO_RES
    mask = nan_mask(shape, pat)
    if vclass == 'mixed':
        a = 800.0 * g * (r - 0.45)
    elif vclass == 'pos':
        a = 2500.0 * g * r
    elif vclass == 'neg':
        a = -2500.0 * g * r
    elif vclass == 'const':
        a = np.full(shape, 123.456 * g)
    elif vclass == 'zero':
        a = np.zeros(shape)
    elif vclass == 'tiny':
        a = 1e-6 * g * r
    elif vclass == 'huge':
        H = 0.9 * ZYGO_MAXCOUNT * step_z if fmt == 'zygo' else 1e9 * g
        a = H * (2 * r - 1.3) / 1.3
    elif vclass in SAGS:
        a = SAGS[vclass] * g * r / 1.25
    elif vclass == 'outlier':
        a = 0.01 * g * r
        valid = np.flatnonzero(~mask.ravel())
        a.ravel()[valid[-1]] = 1e5 * g
    else:
        raise ValueError(vclass)
    a = a.astype(float)
    a[mask] = np.nan
    return a


def sign_class(a):
    v = a[np.isfinite(a)]
    if v.size == 0 or np.all(v == 0):
        return 'zero'
    if np.all(v >= 0):
        return 'allpos'
    if np.all(v <= 0):
        return 'allneg'
    return 'mixed'


def shape_class(shape):
    n0, n1 = shape
    return 'square' if n0 == n1 else 'nonsquare'


def tolerance(a, fmt, wavelength):
    fin = np.where(np.isnan(a), 0.0, np.abs(a))
    if fmt == 'zygo':
        step = wavelength * 1e3 / ZYGO_RES
        return step * (1 + 1e-9) + 4 * EPS32 * fin, step
    step = float(fin.max()) / 32767.0
    return step * (1 + 1e-9) + 64 * np.finfo(float).eps * fin, step


def _close(g, a, tol):
    if g.shape != a.shape:
        return False
    gn, an = np.isnan(g), np.isnan(a)
    if not np.array_equal(gn, an):
        return False
    with np.errstate(invalid='ignore'):
        err = np.abs(np.where(gn, 0, g) - np.where(an, 0, a))
    return bool(np.all(err <= tol))


def unchanged(R, arr, pristine, sig, what):
    """The caller's array after a write: same object content, bit for bit (NaN == NaN)."""
    R.checks += 1
    try:
        x = np.asarray(arr)
        ok = x.shape == pristine.shape and x.dtype == pristine.dtype and bool(np.array_equal(x, pristine, equal_nan=True))
    except Exception:   # noqa
        ok = False
    if not ok:
        R.violation(sig, f'{what}: the array handed to the writer was modified by it: before {_fmt(pristine)} after {_fmt(arr)}')
    return ok


def judge_map(R, got, a, tol, site, what):
    """Shape, NaN set, orientation, values -- each with its own signature."""
    R.checks += 1
    if got is FAILED:
        return False
    try:
        g = np.array(got, dtype=float)
    except Exception as e:   # noqa
        R.violation(f'{site}:type', f'{what}: returned object is not a real array ({type(e).__name__}: {e})')
        return False
    R.observe(g)
    sc = shape_class(a.shape)
    if g.shape != a.shape:
        kind = 'swapped' if g.shape == a.shape[::-1] else 'other'
        R.violation(f'{site}:shape:{sc}:{kind}', f'{what}: shape {g.shape}, written {a.shape}')
        return False
    if _close(g, a, tol):
        return True
    # not the same map: is it the written map in another orientation?
    tl = np.broadcast_to(np.asarray(tol, dtype=float), a.shape)
    views = {'fliplr': lambda x: x[:, ::-1], 'flipud': lambda x: x[::-1, :], 'rot180': lambda x: x[::-1, ::-1]}
    if a.shape[0] == a.shape[1]:
        views['transpose'] = lambda x: x.T
    for name, view in views.items():
        if _close(g, view(a), view(tl)):
            R.violation(f'{site}:orientation:{name}', f'{what}: the map read back is {name}(written map); '
                                                      f'written {_fmt(a)} read {_fmt(g)}')
            return False
    gn, an = np.isnan(g), np.isnan(a)
    if not np.array_equal(gn, an):
        R.violation(f'{site}:nan-set', f'{what}: invalid samples moved: written at {np.argwhere(an).tolist()} '
                                       f'read at {np.argwhere(gn).tolist()}')
        return False
    with np.errstate(invalid='ignore'):
        err = np.abs(np.where(gn, 0, g) - np.where(an, 0, a))
    k = np.unravel_index(int(np.argmax(err - tol)), err.shape)
    R.violation(f'{site}:value:{sign_class(a)}',
                f'{what}: |read-written| = {err[k]:.6g} at {tuple(int(i) for i in k)} exceeds one quantisation step '
                f'({float(np.max(tol)):.6g}); written {a[k]!r} read {g[k]!r}; written {_fmt(a)} read {_fmt(g)}')
    return False


def _fmt(x):
    x = np.asarray(x)
    if x.size <= 16:
        return repr(np.round(x, 6).tolist())
    return f'array{x.shape} head={np.round(x.ravel()[:6], 6).tolist()}'


def judge_scalar(R, got, want, rel, sig, what):
    R.checks += 1
    try:
        g = float(got)
    except Exception as e:   # noqa
        R.violation(sig, f'{what}: not a number ({type(e).__name__}: {e}): {got!r}')
        return False
    if not abs(g - want) <= rel * abs(want):
        R.violation(sig, f'{what}: read {g!r}, written {want!r} (allowed relative error {rel:.3g})')
        return False
    return True


def typed_map(a64, dt):
    """(the array handed to the writer in dtype dt, the float64 values it holds exactly); integer maps are the rounded heights."""
    if dt == 'float64':
        a0 = a64.copy()
    elif dt == 'float32':
        a0 = a64.astype(np.float32)
    else:
        a0 = np.rint(a64).astype(dt)        # integer maps: the plan only pairs them with NaN-free, in-range classes
    return a0, a0.astype(float)


def typed_tolerance(a, fmt, wvl, dt):
    """One step of the format; a float32 map may also be processed in float32: max(step, float32 resolution of the value)."""
    tol, step = tolerance(a, fmt, wvl)
    if dt == 'float32':
        tol = tol + 8 * EPS32 * np.where(np.isnan(a), 0.0, np.abs(a))
    return tol, step


def laid_out(a0, layout):
    """A new array with the values (and dtype kind) of a0 in the given memory layout; a0 itself is not handed on."""
    n0, n1 = a0.shape
    if layout == 'C':
        x = a0.copy()
    elif layout == 'F':                 # Fortran-ordered, owns its buffer
        x = np.asfortranarray(a0.copy())
    elif layout == 'T':                 # transposed view of a C-ordered (n1, n0) array
        x = np.ascontiguousarray(a0.T).T
    elif layout == 'strided':           # every 2nd row / 3rd column of a larger array whose other cells hold other numbers
        big = np.full((2 * n0 + 1, 3 * n1 + 2), 7777, dtype=a0.dtype)
        x = big[1::2, 2::3][:n0, :n1]
        x[...] = a0
    elif layout == 'neg':               # negative strides on both axes
        x = np.ascontiguousarray(a0[::-1, ::-1])[::-1, ::-1]
    elif layout == 'rowpad':            # C-ordered rows of a wider array (not contiguous)
        big = np.full((n0, n1 + 3), 7777, dtype=a0.dtype)
        x = big[:, :n1]
        x[...] = a0
    elif layout == 'readonly':
        x = a0.copy()
        x.setflags(write=False)
    elif layout == 'swapped':           # non-native byte order (an array memory-mapped from a big-endian file)
        x = a0.astype(a0.dtype.newbyteorder('>'))
    else:
        raise ValueError(layout)
    assert x.shape == a0.shape and np.array_equal(x, a0, equal_nan=True)
    return x


# ---------------------------------------------------------------------------------------------
# round trip

def run_roundtrip(case, seed, R):
    shape = tuple(case['shape'])
    w = case['writer']
    fmt = 'codev' if w == 'codev' else 'zygo'
    wvl = case.get('wvl', 1.0)
    dt = case.get('dt', 'float64')
    a0, a = typed_map(make_map(shape, case['v'], case['nan'], fmt, wvl, seed), dt)   # a0: pristine, never handed to the library
    tol, step = typed_tolerance(a, fmt, wvl, dt)
    what = f"{w} {shape} {case['v']}/{case['nan']} {dt}"
    layout = case.get('layout', 'C')
    lsfx = ':after-other-write' if case.get('after') else ''
    if layout != 'C':
        what += f' layout={layout}'
        lsfx += ':layout'             # signature suffix: a verdict that needs a non-C memory layout
        a_pr = laid_out(a0, layout)
        a0 = a_pr.copy()              # pristine copy in the dtype / byte order handed to the writer
    tmp = tempfile.mkdtemp(prefix='verif-c14-', dir='/tmp')
    try:
        if w == 'zygo':
            site = 'zygo_dat:roundtrip' + lsfx
            path = os.path.join(tmp, 'm.dat')
            dx = case['dx']
            a_in = a0.copy() if layout == 'C' else a_pr
            form = case.get('form', 'kw')
            what += f' form={form}'
            rkw = {}
            if form == 'kw':
                wr = R.call(io.write_zygo_dat, path, a_in, dx, wavelength=wvl, sig=f'{site}:write:exception')
            elif form == 'pos':
                wr = R.call(io.write_zygo_dat, path, a_in, dx, wvl, sig=f'{site}:write:exception')
            elif form == 'omitted':      # the documented default must be what the file says (the case carries wvl = WVL_DEFAULT)
                wr = R.call(io.write_zygo_dat, path, a_in, dx, sig=f'{site}:write:exception')
            else:
                wr = R.call(io.write_zygo_dat, path, a_in, dx, wavelength=wvl, intensity=None, sig=f'{site}:write:exception')
                rkw = {'multi_intensity_action': 'first'}
            if wr is FAILED:
                return
            unchanged(R, a_in, a0, 'zygo_dat:write:caller-array-modified', what)
            out = R.call(io.read_zygo_dat, path, sig=f'{site}:read:exception', **rkw)
            if out is FAILED:
                return
            try:
                b, meta = out['phase'], out['meta']
                rdx, rw = meta['lateral_resolution'] * 1e3, meta['wavelength'] * 1e6
            except Exception as e:   # noqa
                R.violation(f'{site}:type', f'{what}: reader result has no phase/meta ({type(e).__name__}: {e})')
                return
            judge_map(R, b, a, tol, site, what)
            judge_scalar(R, rdx, dx, HDR_REL, f'{site}:dx' + (':zero' if dx == 0 else ''), f'{what}: lateral resolution [mm]')
            judge_scalar(R, rw, wvl, HDR_REL, f'{site}:wavelength' + (':default' if form == 'omitted' else ''), f'{what}: wavelength [um]')
        elif w == 'ifg':
            site = 'Interferogram.zygo_dat:roundtrip' + lsfx
            path = os.path.join(tmp, 'm.dat')
            dx = case['dx']
            a_in = a0.copy() if layout == 'C' else a_pr
            form = case.get('form', 'kw')
            what += f' form={form}'
            rkw = {}
            if dx == 'default':          # the constructor's default: no lateral calibration
                i1 = R.call(Interferogram, a_in, wavelength=wvl, sig=f'{site}:construct:exception')
                dx = 0
            elif form == 'kw':
                i1 = R.call(Interferogram, a_in, dx=dx, wavelength=wvl, sig=f'{site}:construct:exception')
            elif form == 'pos':
                i1 = R.call(Interferogram, a_in, dx, wvl, sig=f'{site}:construct:exception')
            elif form == 'wvl-omitted':  # documented default HeNe (the case carries wvl = WVL_DEFAULT)
                i1 = R.call(Interferogram, a_in, dx=dx, sig=f'{site}:construct:exception')
            else:
                i1 = R.call(Interferogram, a_in, dx=dx, wavelength=wvl, intensity=None, meta=None, sig=f'{site}:construct:exception')
                rkw = {'multi_intensity_action': 'first'}
            if i1 is FAILED:
                return
            try:
                d0 = np.array(i1.data, copy=True)      # what the object holds before it is saved
            except Exception as e:   # noqa
                R.violation(f'{site}:type', f'{what}: Interferogram has no array .data ({type(e).__name__}: {e})')
                return
            if R.call(i1.save_zygo_dat, path, sig=f'{site}:write:exception') is FAILED:
                return
            unchanged(R, a_in, a0, 'Interferogram.zygo_dat:write:caller-array-modified', what)
            unchanged(R, getattr(i1, 'data', None), d0, 'Interferogram.zygo_dat:write:data-modified', what + ' (.data of the saved object)')
            i2 = R.call(Interferogram.from_zygo_dat, path, sig=f'{site}:read:exception', **rkw)
            if i2 is FAILED:
                return
            try:
                b, rdx, rw = i2.data, i2.dx, i2.wavelength
            except Exception as e:   # noqa
                R.violation(f'{site}:type', f'{what}: no data/dx/wavelength on the result ({type(e).__name__}: {e})')
                return
            judge_map(R, b, a, tol, site, what)
            judge_scalar(R, rdx, dx, HDR_REL, f'{site}:dx' + (':zero' if dx == 0 else ''), f'{what}: dx [mm] (written {case["dx"]!r})')
            judge_scalar(R, rw, wvl, HDR_REL, f'{site}:wavelength' + (':default' if form == 'wvl-omitted' else ''), f'{what}: wavelength [um]')
        else:
            site = 'codev_gridint:roundtrip' + lsfx
            path = os.path.join(tmp, 'm.int')
            form = case.get('form', 'explicit')
            if form == 'omitted':        # every optional argument left out: the documented defaults apply
                kw = {}
                want = dict(CV_DEFAULTS)
            else:
                kw = {'typ': case['typ'], 'nnb': bool(case['nnb'])}
                want = dict(CV_DEFAULTS, **kw)
                if case['comment'] != 'default':
                    kw['comment'] = want['comment'] = case['comment']
                if form == 'all-explicit':
                    kw['comment'] = want['comment']
            a_in = a0.copy() if layout == 'C' else a_pr
            if R.call(io.write_codev_gridint, a_in, path, sig=f'{site}:write:exception', **kw) is FAILED:
                return
            unchanged(R, a_in, a0, 'codev_gridint:write:caller-array-modified', what)
            out = R.call(io.read_codev_gridint, path, sig=f'{site}:read:exception:{shape_class(shape)}')
            if out is FAILED:
                return
            try:
                b, meta = out
            except Exception as e:   # noqa
                R.violation(f'{site}:type', f'{what}: reader result is not (array, meta) ({type(e).__name__}: {e})')
                return
            judge_map(R, b, a, tol, site, what + f" typ={want['typ']} nnb={want['nnb']} form={form}")
            # the two header records, read independently: title, data type, interpolation flag
            R.checks += 1
            try:
                with open(path) as f:
                    lines = f.read().split('\n')
                toks = lines[1].split()
                okh = lines[0] == want['comment'] and toks[0] == 'GRD' and toks[3] == want['typ'] and ('NNB' in toks) == want['nnb']
            except Exception:   # noqa
                okh, lines = False, ['?', '?']
            if not okh:
                R.violation(f'{site}:header:{form}', f'{what}: header records {lines[:2]!r} do not say title={want["comment"]!r} '
                                                    f'typ={want["typ"]} nnb={want["nnb"]}')
        nt = np.isfinite(a)
        R.nontrivial(bool(np.any(a[nt] != 0)) or bool(np.any(~nt)))
        R.outcome('roundtrip')
    finally:
        shutil.rmtree(tmp, ignore_errors=True)


# ---------------------------------------------------------------------------------------------
# representability boundaries of the on-disk integer types

I32_MIN, I32_MAX = -2 ** 31, 2 ** 31 - 1
ZYGO_SENTINEL = 2147483640           # counts >= this are reserved for "invalid"; legal heights: I32_MIN .. 2147483639
B_LEGAL = sorted({0, 1, -1, 2, -2, 32767, 32768, -32768, -32769, 65535, 65536, 16777216, 16777217, -16777217,
                  2 ** 30 - 1, 2 ** 30, -2 ** 30, -2 ** 30 - 1, 2147483630, 2147483638, 2147483639, -2147483630, -2147483638}
                 | set(range(I32_MIN, I32_MIN + 10)))                                   # INT32_MIN .. INT32_MIN+9
B_RESERVED = [2147483640, 2147483641, 2147483646, I32_MAX]                               # the sentinel zone
B_BEYOND = [I32_MAX + 1, I32_MAX + 2, I32_MAX + 10, 3000000000, 2 ** 32, 2 ** 32 + 5,
            I32_MIN - 1, I32_MIN - 2, I32_MIN - 10, -3000000000, -2 ** 32, -2 ** 32 - 5]  # just / far beyond either end


def count_class(c):
    if c > I32_MAX:
        return 'beyond+'
    if c < I32_MIN:
        return 'beyond-'
    return 'reserved' if c >= ZYGO_SENTINEL else 'legal'


def heights_of(counts, halves, step):
    """Mid-count heights: (c + s/2) * step, so that neither truncation nor rounding-to-nearest can move the count by more than its own half."""
    return np.array([(c + 0.5 * h) * step for c, h in zip(counts, halves)], dtype=float)


def run_boundary(case, seed, R):
    w = case['writer']
    tmp = tempfile.mkdtemp(prefix='verif-c14-', dir='/tmp')
    try:
        if w == 'codev':
            return _boundary_codev(case, R, tmp)
        wvl = case['wvl']
        step = wvl * 1e3 / ZYGO_RES
        site = ('zygo_dat' if w == 'zygo' else 'Interferogram.zygo_dat') + ':boundary'
        if 'c' in case:
            counts, halves, nanpos = [case['c']], [case['s']], []
            shape = (1, 1)
        else:                           # all legal boundary counts in one map, one NaN among them
            counts = list(B_LEGAL) + [0]
            halves = [1 if c >= 0 else -1 for c in B_LEGAL] + [-1]
            nanpos = [7]
            counts, halves = counts[:7] + [0] + counts[7:], halves[:7] + [1] + halves[7:]
            while len(counts) % 5:
                counts.append(3)
                halves.append(1)
            shape = (len(counts) // 5, 5)
        a = heights_of(counts, halves, step).reshape(shape)
        a.ravel()[nanpos] = np.nan
        cls = [count_class(c) for c in counts]
        legal_only = all(k == 'legal' for k in cls)
        what = f'{w} wavelength {wvl}: counts {counts if len(counts) < 4 else str(counts[:3]) + "..."}'
        path = os.path.join(tmp, 'b.dat')
        a_in = a.copy()

        def write():
            if w == 'zygo':
                return io.write_zygo_dat(path, a_in, 0.5, wavelength=wvl)
            return Interferogram(a_in, dx=0.5, wavelength=wvl).save_zygo_dat(path)
        if legal_only:                  # every sample is a height the format holds: nothing may raise
            if w == 'zygo':
                wr = R.call(io.write_zygo_dat, path, a_in, 0.5, wavelength=wvl, sig=f'{site}:write:exception')
            else:
                wr = R.call(write, sig=f'{site}:write:exception')
            if wr is FAILED:
                return
        else:                           # a height the format cannot hold: refusing it is fine
            R.tick()
            try:
                write()
            except Exception:   # noqa
                R.outcome('boundary:rejected-by-writer')
                R.nontrivial()
                return
        unchanged(R, a_in, a, site.split(':')[0] + ':write:caller-array-modified', what)
        raw = _bytes(path)
        R.checks += 1
        if len(raw) != ZYGO_HEADER + 4 * a.size:
            R.violation(f'{site}:file-size', f'{what}: file of {len(raw)} bytes, expected {ZYGO_HEADER + 4 * a.size}')
            return
        ints = np.frombuffer(raw[ZYGO_HEADER:], dtype='>i4').astype(np.int64).reshape(shape)[::-1]   # rows are stored last-first
        rd = R.call(io.read_zygo_dat, path, sig=f'{site}:read:exception') if w == 'zygo' else \
            R.call(Interferogram.from_zygo_dat, path, sig=f'{site}:read:exception')
        if rd is FAILED:
            return
        try:
            b = np.array(rd['phase'] if w == 'zygo' else rd.data, dtype=float)
        except Exception as e:   # noqa
            R.violation(f'{site}:type', f'{what}: no array in the reader result ({type(e).__name__}: {e})')
            return
        R.observe(b)
        if b.shape != shape:
            R.violation(f'{site}:shape', f'{what}: read shape {b.shape}, written {shape}')
            return
        tol, _ = tolerance(a, 'zygo', wvl)
        for q, (c, h, k) in enumerate(zip(counts, halves, cls)):
            i, j = divmod(q, shape[1])
            fi, g, hgt = int(ints[i, j]), float(b[i, j]), float(a[i, j])
            R.checks += 1
            if np.isnan(hgt):
                R.expect(fi >= ZYGO_SENTINEL and np.isnan(g), f'{site}:invalid-sample', f'{what}: NaN written, file holds {fi}, read {g!r}')
            elif k == 'legal':
                # independent encoder: the count of a mid-count height is c (or its neighbour on the other side of the half)
                if not (fi < ZYGO_SENTINEL and abs(fi - (c + 0.5 * h)) <= 1.0):
                    edge = 'int32-min' if c < I32_MIN + 10 else 'near-sentinel' if c >= 2147483630 else 'inner'
                    R.violation(f'{site}:file-count:{edge}', f'{what}: height {hgt!r} nm = {c + 0.5 * h} counts is stored as {fi}'
                                                             f'{" (an invalid code)" if fi >= ZYGO_SENTINEL else ""}; every count in [{I32_MIN}, {ZYGO_SENTINEL - 1}] is a legal height')
                elif not (np.isfinite(g) and abs(g - hgt) <= float(np.broadcast_to(tol, shape)[i, j])):
                    R.violation(f'{site}:value', f'{what}: height {hgt!r} (count {c}) stored as {fi} reads back {g!r}')
            elif k.startswith('beyond'):
                # outside the property's domain ("huge within format range"): what the writer does with a height the int32
                # field cannot hold is not judged; the case is still executed so that it cannot disturb its neighbours
                continue
            else:
                # a height that lands on the reserved invalid codes: it must be flagged invalid, never come back as some other finite height
                if not (fi >= ZYGO_SENTINEL and np.isnan(g)):
                    R.violation(f'{site}:out-of-range:{k}', f'{what}: height {hgt!r} nm = {c + 0.5 * h} counts does not fit the int32 field '
                                                            f'({"reserved invalid codes" if k == "reserved" else "overflow"}) but is stored as {fi} and reads back as '
                                                            f'{g!r} nm instead of invalid')
        R.nontrivial()
        R.outcome('boundary:' + ('legal' if legal_only else '+'.join(sorted(set(cls) - {'legal'}))))
    finally:
        shutil.rmtree(tmp, ignore_errors=True)


def _boundary_codev(case, R, tmp):
    """int16 samples: +-32767 are the extreme legal counts, -32768 is the NDA sentinel; SSZ is free, so nothing is out of range."""
    site = 'codev_gridint:boundary'
    peak, variant = case['peak'], case['variant']
    cf = [0.25, -0.25, 1.25, -0.75, 32766.25, -32766.25, 16384.25, -16383.75, 255.75, -256.25]
    if variant in ('both', 'pos'):
        cf.append(32767.0)
    if variant in ('both', 'neg'):
        cf.append(-32767.0)
    while len(cf) % 4:
        cf.append(2.25)
    cf = np.array(cf)
    shape = (len(cf) // 4, 4)
    a = (cf * (peak / 32767.0)).reshape(shape)
    nanq = 5
    a.ravel()[nanq] = np.nan
    want = np.rint(cf).astype(np.int64)
    want[nanq] = -32768
    what = f'codev peak {peak} nm, {variant} extreme(s)'
    path = os.path.join(tmp, 'b.int')
    a_in = a.copy()
    if R.call(io.write_codev_gridint, a_in, path, sig=f'{site}:write:exception') is FAILED:
        return
    unchanged(R, a_in, a, 'codev_gridint:write:caller-array-modified', what)
    sp = split_file('codev', _bytes(path), a.size)
    R.checks += 1
    if sp is None:
        R.violation(f'{site}:layout', f'{what}: the file does not hold {a.size} integers after a GRD record')
        return
    with open(path) as f:
        ints = np.array([int(t) for t in f.read().split('\n', 2)[2].split()], dtype=np.int64).reshape(shape)[::-1].ravel()
    R.checks += 1
    if not (np.all(np.abs(ints) <= 32768) and np.array_equal(ints == -32768, want == -32768)):
        R.violation(f'{site}:file-count:range', f'{what}: file integers {ints.tolist()} leave int16 or use the NDA code for a valid sample (expected {want.tolist()})')
    elif np.any(np.abs(ints - want) > 1):
        R.violation(f'{site}:file-count', f'{what}: file integers {ints.tolist()}, independent encoding {want.tolist()}')
    out = R.call(io.read_codev_gridint, path, sig=f'{site}:read:exception')
    if out is FAILED:
        return
    try:
        b = out[0]
    except Exception as e:   # noqa
        R.violation(f'{site}:type', f'{what}: reader result is not (array, meta) ({type(e).__name__}: {e})')
        return
    tol, _ = tolerance(a, 'codev', 1.0)
    judge_map(R, b, a, tol, site, what)
    R.nontrivial()
    R.outcome('boundary:legal')


# ---------------------------------------------------------------------------------------------
# histories: write -> write again -> read (-> save the loaded object again)

ZYGO_TIMESTAMP = slice(76, 80)       # the only header field that may differ between two saves of the same map


def _bytes(path):
    with open(path, 'rb') as f:
        return f.read()


def same_file(R, b1, b2, fmt, sig, what, header_only=False):
    """Second file equals the first byte for byte (the Zygo timestamp field apart)."""
    R.checks += 1
    if fmt == 'zygo':
        b1 = b1[:ZYGO_TIMESTAMP.start] + b'\0' * 4 + b1[ZYGO_TIMESTAMP.stop:]
        b2 = b2[:ZYGO_TIMESTAMP.start] + b'\0' * 4 + b2[ZYGO_TIMESTAMP.stop:]
        if header_only:
            b1, b2 = b1[:ZYGO_HEADER], b2[:ZYGO_HEADER]
    if b1 == b2:
        return True
    n = min(len(b1), len(b2))
    first = next((i for i in range(n) if b1[i] != b2[i]), n)
    if fmt == 'zygo':
        where = f'header byte {first}' if first < ZYGO_HEADER else f'data word {(first - ZYGO_HEADER) // 4}'
        detail = f'{b1[first:first + 4].hex()} vs {b2[first:first + 4].hex()}'
    else:
        where = f'character {first}'
        detail = f'{b1[max(0, first - 20):first + 20]!r} vs {b2[max(0, first - 20):first + 20]!r}'
    R.violation(sig, f'{what}: lengths {len(b1)} / {len(b2)}, first difference at {where}: {detail}')
    return False


def run_twice(case, seed, R):
    shape = tuple(case['shape'])
    w = case['writer']
    fmt = 'codev' if w == 'codev' else 'zygo'
    wvl = case.get('wvl', 1.0)
    dt = case.get('dt', 'float64')
    a0, a = typed_map(make_map(shape, case['v'], case['nan'], fmt, wvl, seed), dt)   # a0: pristine, never handed to the library
    tol, step = typed_tolerance(a, fmt, wvl, dt)
    what = f"{w} {shape} {case['v']}/{case['nan']} {dt}"
    tmp = tempfile.mkdtemp(prefix='verif-c14-', dir='/tmp')
    try:
        ext = '.int' if fmt == 'codev' else '.dat'
        p1, p2, p3 = (os.path.join(tmp, n + ext) for n in ('first', 'second', 'third'))
        a_in = a0.copy()
        if case.get('layout', 'C') != 'C':      # the same non-C-ordered array object written twice
            a_in = laid_out(a0, case['layout'])
            a0 = a_in.copy()
            what += f" layout={case['layout']}"
        if w == 'zygo':
            site = 'zygo_dat:write-twice'
            dx = case['dx']
            for p in (p1, p2):           # the SAME array object both times
                if R.call(io.write_zygo_dat, p, a_in, dx, wavelength=wvl, sig=f'{site}:write:exception') is FAILED:
                    return
                unchanged(R, a_in, a0, 'zygo_dat:write:caller-array-modified', what)
            same_file(R, _bytes(p1), _bytes(p2), fmt, f'{site}:second-file-differs', what)
            out = R.call(io.read_zygo_dat, p2, sig=f'{site}:read:exception')
            if out is FAILED:
                return
            try:
                b, rdx, rw = out['phase'], out['meta']['lateral_resolution'] * 1e3, out['meta']['wavelength'] * 1e6
            except Exception as e:   # noqa
                R.violation(f'{site}:type', f'{what}: reader result has no phase/meta ({type(e).__name__}: {e})')
                return
            judge_map(R, b, a, tol, site, what + ' (second file)')
            judge_scalar(R, rdx, dx, HDR_REL, f'{site}:dx' + (':zero' if dx == 0 else ''), f'{what}: lateral resolution [mm]')
            judge_scalar(R, rw, wvl, HDR_REL, f'{site}:wavelength', f'{what}: wavelength [um]')
        elif w == 'ifg':
            site = 'Interferogram.zygo_dat:write-twice'
            dx = case['dx']
            i1 = R.call(Interferogram, a_in, dx=dx, wavelength=wvl, sig=f'{site}:construct:exception')
            if i1 is FAILED:
                return
            try:
                d0 = np.array(i1.data, copy=True)      # what the object holds before it is saved
            except Exception as e:   # noqa
                R.violation(f'{site}:type', f'{what}: Interferogram has no array .data ({type(e).__name__}: {e})')
                return
            for p in (p1, p2):           # the SAME Interferogram both times
                if R.call(i1.save_zygo_dat, p, sig=f'{site}:write:exception') is FAILED:
                    return
                unchanged(R, a_in, a0, 'Interferogram.zygo_dat:write:caller-array-modified', what)
                unchanged(R, getattr(i1, 'data', None), d0, 'Interferogram.zygo_dat:write:data-modified', what + ' (.data of the saved object)')
                judge_scalar(R, getattr(i1, 'dx', None), dx, 0, 'Interferogram.zygo_dat:write:dx-modified', what + ' (.dx of the saved object)')
            same_file(R, _bytes(p1), _bytes(p2), fmt, f'{site}:second-file-differs', what)
            i2 = R.call(Interferogram.from_zygo_dat, p2, sig=f'{site}:read:exception')
            if i2 is FAILED:
                return
            try:
                b, rdx, rw = i2.data, i2.dx, i2.wavelength
            except Exception as e:   # noqa
                R.violation(f'{site}:type', f'{what}: no data/dx/wavelength on the result ({type(e).__name__}: {e})')
                return
            judge_map(R, b, a, tol, site, what + ' (second file)')
            judge_scalar(R, rdx, dx, HDR_REL, f'{site}:dx' + (':zero' if dx == 0 else ''), f'{what}: dx [mm]')
            judge_scalar(R, rw, wvl, HDR_REL, f'{site}:wavelength', f'{what}: wavelength [um]')
            # the loaded object saved again: the header (spacing, wavelength, sizes) must be the one first written,
            # the samples may move by the one count the int32 truncation allows
            site3 = 'Interferogram.zygo_dat:load-save'
            if R.call(i2.save_zygo_dat, p3, sig=f'{site3}:write:exception') is FAILED:
                return
            same_file(R, _bytes(p1), _bytes(p3), fmt, f'{site3}:header-differs' + (':dx-zero' if dx == 0 else ''),
                      what + ' (file written from the loaded Interferogram vs the first file)', header_only=True)
            i3 = R.call(Interferogram.from_zygo_dat, p3, sig=f'{site3}:read:exception')
            if i3 is FAILED:
                return
            judge_map(R, getattr(i3, 'data', None), a, 2 * tol, site3, what + ' (second generation)')
            judge_scalar(R, getattr(i3, 'dx', None), dx, HDR_REL, f'{site3}:dx' + (':zero' if dx == 0 else ''), f'{what}: dx [mm], second generation')
        else:
            site = 'codev_gridint:write-twice'
            for p in (p1, p2):
                if R.call(io.write_codev_gridint, a_in, p, sig=f'{site}:write:exception') is FAILED:
                    return
                unchanged(R, a_in, a0, 'codev_gridint:write:caller-array-modified', what)
            same_file(R, _bytes(p1), _bytes(p2), fmt, f'{site}:second-file-differs', what)
            out = R.call(io.read_codev_gridint, p2, sig=f'{site}:read:exception:{shape_class(shape)}')
            if out is FAILED:
                return
            try:
                b, meta = out
            except Exception as e:   # noqa
                R.violation(f'{site}:type', f'{what}: reader result is not (array, meta) ({type(e).__name__}: {e})')
                return
            judge_map(R, b, a, tol, site, what + ' (second file)')
        R.nontrivial(True)
        R.outcome('write-twice')
    finally:
        shutil.rmtree(tmp, ignore_errors=True)


# ---------------------------------------------------------------------------------------------
# a camera frame handed to the writer next to the map

def make_frame(shape, idt, ishape):
    """Deterministic 10-bit camera counts (none zero) of the given frame shape class and dtype; (frame, its shape)."""
    n0, n1 = shape
    fs = {'same': (n0, n1), 'smaller': (max(1, n0 - 1), max(1, n1 - 1)), 'larger': (n0 + 1, n1 + 2),
          '1x1': (1, 1), 'empty': (0, 0)}[ishape]
    counts = ((np.arange(fs[0] * fs[1], dtype=np.int64) * 37 + 11) % 1021 + 1).reshape(fs)
    if idt == 'list':
        return counts.tolist(), fs
    if idt == 'bool':
        return counts % 2 == 1, fs
    if idt == 'uint8':
        return (counts % 255 + 1).astype(np.uint8), fs
    if idt == 'float32':
        return (counts / 1023).astype(np.float32), fs       # a normalised frame
    if idt == 'float64':
        return counts + 0.5, fs                             # an averaged frame
    return counts.astype(idt), fs


def run_intensity(case, seed, R):
    shape = tuple(case['shape'])
    w, wvl, dx = case['writer'], case['wvl'], case['dx']
    idt, ishape, action, regen = case['idt'], case['ishape'], case['action'], bool(case.get('regen'))
    a = make_map(shape, case['v'], case['nan'], 'zygo', wvl, seed)
    tol, step = tolerance(a, 'zygo', wvl)
    frame, fs = make_frame(shape, idt, ishape)
    fc = '16-bit' if idt in ('uint16', 'int16') else 'other-itemsize'
    site = ('zygo_dat' if w == 'zygo' else 'Interferogram.zygo_dat') + f':intensity:{fc}'
    what = f"{w} {shape} {case['v']}/{case['nan']} with a {idt} camera frame {fs}, read with multi_intensity_action={action!r}"
    tmp = tempfile.mkdtemp(prefix='verif-c14-', dir='/tmp')
    try:
        path, path2 = os.path.join(tmp, 'm.dat'), os.path.join(tmp, 'm2.dat')
        a_in = a.copy()
        if w == 'zygo':
            if R.call(io.write_zygo_dat, path, a_in, dx, wavelength=wvl, intensity=frame, sig=f'{site}:write:exception') is FAILED:
                return
            unchanged(R, a_in, a, 'zygo_dat:write:caller-array-modified', what)
            out = R.call(io.read_zygo_dat, path, multi_intensity_action=action, sig=f'{site}:read:exception')
            if out is FAILED:
                return
            try:
                b, rdx, rw, frame2 = out['phase'], out['meta']['lateral_resolution'] * 1e3, out['meta']['wavelength'] * 1e6, out['intensity']
            except Exception as e:   # noqa
                R.violation(f'{site}:type', f'{what}: reader result has no phase/intensity/meta ({type(e).__name__}: {e})')
                return
        else:
            i1 = R.call(Interferogram, a_in, dx=dx, wavelength=wvl, intensity=frame, sig=f'{site}:construct:exception')
            if i1 is FAILED:
                return
            if R.call(i1.save_zygo_dat, path, sig=f'{site}:write:exception') is FAILED:
                return
            unchanged(R, a_in, a, 'Interferogram.zygo_dat:write:caller-array-modified', what)
            i2 = R.call(Interferogram.from_zygo_dat, path, multi_intensity_action=action, sig=f'{site}:read:exception')
            if i2 is FAILED:
                return
            try:
                b, rdx, rw, frame2 = i2.data, i2.dx, i2.wavelength, i2.intensity
            except Exception as e:   # noqa
                R.violation(f'{site}:type', f'{what}: no data/dx/wavelength/intensity on the result ({type(e).__name__}: {e})')
                return
        judge_map(R, b, a, tol, site, what)
        judge_scalar(R, rdx, dx, HDR_REL, f'{site}:dx', f'{what}: lateral resolution [mm]')
        judge_scalar(R, rw, wvl, HDR_REL, f'{site}:wavelength', f'{what}: wavelength [um]')
        if regen:
            # second generation: what the reader returned (map, spacing, wavelength AND camera frame) is written again
            site2 = site.split(':')[0] + f':intensity:regenerated:{action}'
            what2 = what + '; second generation: the reader\'s map and frame written again'
            try:
                b_in = np.array(b, dtype=float, copy=True)
            except Exception:   # noqa -- already reported by judge_map
                return
            if R.call(io.write_zygo_dat, path2, b_in, rdx, rw, frame2, sig=f'{site2}:write:exception') is FAILED:
                return
            if w == 'zygo':
                out2 = R.call(io.read_zygo_dat, path2, multi_intensity_action=action, sig=f'{site2}:read:exception')
                if out2 is FAILED:
                    return
                try:
                    b2, rdx2, rw2 = out2['phase'], out2['meta']['lateral_resolution'] * 1e3, out2['meta']['wavelength'] * 1e6
                except Exception as e:   # noqa
                    R.violation(f'{site2}:type', f'{what2}: reader result has no phase/meta ({type(e).__name__}: {e})')
                    return
            else:
                i3 = R.call(Interferogram.from_zygo_dat, path2, multi_intensity_action=action, sig=f'{site2}:read:exception')
                if i3 is FAILED:
                    return
                try:
                    b2, rdx2, rw2 = i3.data, i3.dx, i3.wavelength
                except Exception as e:   # noqa
                    R.violation(f'{site2}:type', f'{what2}: no data/dx/wavelength on the result ({type(e).__name__}: {e})')
                    return
            tol2, _ = tolerance(b_in, 'zygo', wvl)
            judge_map(R, b2, b_in, tol2, site2, what2)
            judge_scalar(R, rdx2, dx, HDR_REL, f'{site2}:dx', f'{what2}: lateral resolution [mm]')
            judge_scalar(R, rw2, wvl, HDR_REL, f'{site2}:wavelength', f'{what2}: wavelength [um]')
        R.nontrivial(True)
        R.outcome('roundtrip+frame' + ('+regenerated' if regen else ''))
    finally:
        shutil.rmtree(tmp, ignore_errors=True)


# ---------------------------------------------------------------------------------------------
# object histories: an Interferogram is built / loaded, changed through its public attributes and methods, then saved

OBJ_INITS = ['fresh', 'fresh-uncal', 'loaded', 'meta-passed', 'meta-wvl', 'meta-datx', 'user-meta']
OBJ_EVENTS = [['latcal', 0.2], ['latcal', 1.75], ['strip_latcal'], ['set-dx', 0.125], ['set-wavelength', 1.064], ['set-data'],
              ['decimate'], ['rebuild'], ['rebuild-decimated'], ['fill'], ['crop'], ['mask'], ['remove_piston'], ['pad'],
              ['save'], ['reload'], ['set-intensity']]
OBJ_INITS_DEEP = ['loaded', 'meta-passed']     # these to the full depth, the others one event less ('fresh' + reload is 'loaded')


def _obj_map(shape, seed, wvl):
    a = make_map(shape, 'mixed', 'corner', 'zygo', wvl, seed)
    a[-1, :] = np.nan                # an invalid last row: crop() changes the shape
    return a


def _obj_init(init, a, tmp):
    if init == 'fresh':
        return Interferogram(a.copy(), dx=0.5, wavelength=0.6328)
    if init == 'fresh-uncal':
        return Interferogram(a.copy(), wavelength=1.55)
    if init == 'user-meta':          # a user's own metadata dictionary
        return Interferogram(a.copy(), dx=0.5, wavelength=0.6328, meta={'part': 'M1', 'operator': 'qa'})
    if init == 'meta-datx':          # the .datx reader's key names; wavelength documented to come from meta (metres)
        return Interferogram(a.copy(), dx=0.25, wavelength=None, meta={'Wavelength': 1.55e-6, 'Lateral Resolution': 2.5e-4})
    p = os.path.join(tmp, 'init.dat')
    Interferogram(a.copy(), dx=0.5, wavelength=0.6328).save_zygo_dat(p)
    L = Interferogram.from_zygo_dat(p)
    if init == 'loaded':
        return L
    if init == 'meta-passed':        # a new object that carries the loaded object's header dictionary along
        return Interferogram(np.array(L.data), dx=L.dx, wavelength=L.wavelength, meta=L.meta)
    if init == 'meta-wvl':           # wavelength taken from the header dictionary (documented)
        return Interferogram(np.array(L.data), dx=L.dx, wavelength=None, meta=L.meta)
    raise ValueError(init)


def _obj_event(i, ev, tmp, k):
    name = ev[0]
    if name == 'latcal':
        i.latcal(ev[1])
    elif name == 'strip_latcal':
        i.strip_latcal()
    elif name == 'set-dx':
        i.dx = ev[1]
    elif name == 'set-wavelength':
        i.wavelength = ev[1]
    elif name == 'set-data':         # another map of the same shape
        i.data = 0.5 * np.array(i.data[::-1, ::-1]) + 3.0
    elif name == 'decimate':         # every second column, in place
        i.data = i.data[:, ::2].copy()
        i.dx = 2 * i.dx
    elif name == 'rebuild':          # a new object from all the public attributes of the old one
        i = Interferogram(np.array(i.data), dx=i.dx, wavelength=i.wavelength, intensity=i.intensity, meta=i.meta)
    elif name == 'rebuild-decimated':
        i = Interferogram(i.data[:, ::2].copy(), dx=2 * i.dx, wavelength=i.wavelength, meta=i.meta)
    elif name == 'fill':
        i.fill(0)
    elif name == 'crop':
        i.crop()
    elif name == 'mask':
        m = np.ones(i.data.shape, bool)
        m[0, -1] = False
        i.mask(m)
    elif name == 'remove_piston':
        i.remove_piston()
    elif name == 'pad':
        i.pad(samples=1)
    elif name == 'save':
        i.save_zygo_dat(os.path.join(tmp, f'ev{k}.dat'))
    elif name == 'reload':
        p = os.path.join(tmp, f'ev{k}.dat')
        i.save_zygo_dat(p)
        i = Interferogram.from_zygo_dat(p)
    elif name == 'set-intensity':
        i.intensity = (np.arange(i.data.size).reshape(i.data.shape) % 200 + 7).astype(np.uint8)
    else:
        raise ValueError(name)
    return i


def run_objhist(case, seed, R):
    shape, init, hist = tuple(case['shape']), case['init'], case['events']
    site = 'Interferogram.zygo_dat:history'
    what = f'Interferogram {init} {shape}, then {hist}'
    tmp = tempfile.mkdtemp(prefix='verif-c14-', dir='/tmp')
    try:
        a = _obj_map(shape, seed, 0.6328)
        R.tick(3)
        try:
            i = _obj_init(init, a, tmp)
            for k, ev in enumerate(hist):
                R.tick()
                i = _obj_event(i, ev, tmp, k)
            # what the object says about itself right now is the reference
            d0 = np.array(i.data, dtype=float, copy=True)
            dx, wvl = float(i.dx), float(i.wavelength)
            ok = d0.ndim == 2 and d0.size > 0 and np.isfinite(dx) and np.isfinite(wvl) and wvl > 0
        except Exception as e:   # noqa -- an event that does not apply in this state is not this property's business
            R.outcome(f'history:not-applicable:{type(e).__name__}')
            return
        if not ok:
            R.outcome('history:not-applicable:state')
            return
        p1, p2 = os.path.join(tmp, 'final.dat'), os.path.join(tmp, 'fresh.dat')
        if R.call(i.save_zygo_dat, p1, sig=f'{site}:write:exception') is FAILED:
            return
        unchanged(R, getattr(i, 'data', None), d0, f'{site}:data-modified-by-save', what + ' (.data of the saved object)')
        judge_scalar(R, getattr(i, 'dx', None), dx, 0, f'{site}:dx-modified-by-save', what + ' (.dx of the saved object)')
        judge_scalar(R, getattr(i, 'wavelength', None), wvl, 0, f'{site}:wavelength-modified-by-save', what + ' (.wavelength of the saved object)')
        i2 = R.call(Interferogram.from_zygo_dat, p1, sig=f'{site}:read:exception')
        if i2 is FAILED:
            return
        try:
            b, rdx, rw = i2.data, i2.dx, i2.wavelength
        except Exception as e:   # noqa
            R.violation(f'{site}:type', f'{what}: no data/dx/wavelength on the result ({type(e).__name__}: {e})')
            return
        tol, _ = tolerance(d0, 'zygo', wvl)
        judge_map(R, b, d0, tol, site, what)
        judge_scalar(R, rdx, dx, HDR_REL, f'{site}:dx' + (':zero' if dx == 0 else ''), f'{what}: object had dx = {dx!r} mm when saved')
        judge_scalar(R, rw, wvl, HDR_REL, f'{site}:wavelength', f'{what}: object had wavelength = {wvl!r} um when saved')
        # differential: a fresh object built from the current values writes the same file
        fr = R.call(Interferogram, d0.copy(), dx=dx, wavelength=wvl, sig=f'{site}:fresh:exception')
        if fr is FAILED or R.call(fr.save_zygo_dat, p2, sig=f'{site}:fresh:exception') is FAILED:
            return
        same_file(R, _bytes(p2), _bytes(p1), 'zygo', f'{site}:file-differs-from-fresh-object',
                  what + ' (file of a fresh Interferogram(data, dx, wavelength) with the current values vs file of the object with the history)')
        R.nontrivial(True)
        R.outcome(f'history:depth{len(hist)}')
    finally:
        shutil.rmtree(tmp, ignore_errors=True)


# ---------------------------------------------------------------------------------------------
# pairs of writes: a first file of another writer / shape / spacing / wavelength, then the judged one

def _silent_roundtrip(case, seed):
    """Write and read one configuration without judging it (its own unit does); nothing it does may leak into the next write."""
    w = case['writer']
    fmt = 'codev' if w == 'codev' else 'zygo'
    wvl = case.get('wvl', 1.0)
    a = make_map(tuple(case['shape']), case['v'], case['nan'], fmt, wvl, seed)
    tmp = tempfile.mkdtemp(prefix='verif-c14-', dir='/tmp')
    try:
        with warnings.catch_warnings():
            warnings.simplefilter('ignore')
            if w == 'zygo':
                p = os.path.join(tmp, 'first.dat')
                fr = make_frame(a.shape, 'uint16', 'same')[0] if case.get('frame') else None
                io.write_zygo_dat(p, a, case['dx'], wavelength=wvl, intensity=fr)
                io.read_zygo_dat(p)
            elif w == 'ifg':
                p = os.path.join(tmp, 'first.dat')
                Interferogram(a, dx=case['dx'], wavelength=wvl).save_zygo_dat(p)
                Interferogram.from_zygo_dat(p)
            else:
                p = os.path.join(tmp, 'first.int')
                io.write_codev_gridint(a, p, typ=case.get('typ', 'SUR'), nnb=bool(case.get('nnb', 0)))
                io.read_codev_gridint(p)
    except Exception:   # noqa
        pass
    finally:
        shutil.rmtree(tmp, ignore_errors=True)


PAIR_CFGS = [
    {'writer': 'zygo', 'shape': [3, 5], 'v': 'mixed', 'nan': 'corner', 'dx': 0.5, 'wvl': 0.6328},
    {'writer': 'zygo', 'shape': [2, 3], 'v': 'neg', 'nan': 'none', 'dx': 0.0123, 'wvl': 1.55, 'frame': 1},
    {'writer': 'ifg', 'shape': [4, 4], 'v': 'pos', 'nan': 'checker', 'dx': 0, 'wvl': 1.55},
    {'writer': 'ifg', 'shape': [5, 3], 'v': 'mixed', 'nan': 'row', 'dx': 7.1234567, 'wvl': 0.6328},
    {'writer': 'codev', 'shape': [3, 5], 'v': 'neg', 'nan': 'corner', 'typ': 'SUR', 'nnb': 0, 'comment': 'default'},
    {'writer': 'codev', 'shape': [4, 1], 'v': 'sag3e8', 'nan': 'none', 'typ': 'WFR', 'nnb': 1, 'comment': 'default'},
]


def run_pair(case, seed, R):
    R.tick(2)
    _silent_roundtrip(case['first'], seed)
    run_roundtrip(dict(case['then'], after=True), seed, R)


# ---------------------------------------------------------------------------------------------
# truncation

def _write(R, fmt, path, a, dx, wvl, site):
    if fmt == 'zygo':
        return R.call(io.write_zygo_dat, path, a.copy(), dx, wavelength=wvl, sig=f'{site}:write:exception')
    return R.call(io.write_codev_gridint, a.copy(), path, sig=f'{site}:write:exception')


def _reader(name):
    if name == 'zygo':
        return lambda p: io.read_zygo_dat(p)['phase']
    if name == 'ifg':
        return lambda p: Interferogram.from_zygo_dat(p).data
    return lambda p: io.read_codev_gridint(p)[0]


def split_file(fmt, raw, N):
    """(offset of the data block, end position of every sample inside the block, decoded sample values) by an
    independent reading of the file; None when the file does not have the layout of the format."""
    if fmt == 'zygo':
        off = ZYGO_HEADER
        if len(raw) != off + 4 * N:
            return None
        words = np.frombuffer(raw[off:], dtype='>i4').astype(float)
        ends = [4 * (k + 1) for k in range(N)]
        return off, ends, words
    try:
        txt = raw.decode('ascii')
    except UnicodeDecodeError:
        return None
    p1 = txt.find('\n')
    p2 = txt.find('\n', p1 + 1)
    if p1 < 0 or p2 < 0:
        return None
    hdr = txt[p1 + 1:p2].split()
    if 'GRD' not in hdr or 'SSZ' not in hdr:
        return None
    ssz = float(hdr[hdr.index('SSZ') + 1])
    off = p2 + 1
    toks = list(re.finditer(r'[-+]?\d+', txt[off:]))
    if len(toks) != N or txt[off:].strip(' \n0123456789+-') != '':
        return None
    ends = [t.end() for t in toks]
    vals = np.array([int(t.group()) for t in toks], dtype=float) / ssz
    return off, ends, vals


def run_trunc(case, seed, R):
    shape = tuple(case['shape'])
    rd = case['reader']
    fmt = 'codev' if rd == 'codev' else 'zygo'
    rname = {'zygo': 'read_zygo_dat', 'ifg': 'Interferogram.from_zygo_dat', 'codev': 'read_codev_gridint'}[rd]
    site = f'{rname}:truncated'
    dx, wvl = case['dx'], case['wvl']
    N = shape[0] * shape[1]
    a = make_map(shape, case['v'], case['nan'], fmt, wvl, seed)
    probe = make_map(shape, 'mixed', 'none', fmt, wvl, seed)
    read = _reader(rd)
    tmp = tempfile.mkdtemp(prefix='verif-c14-', dir='/tmp')
    try:
        ext = '.dat' if fmt == 'zygo' else '.int'
        pfile, ffile, tfile = (os.path.join(tmp, n + ext) for n in ('probe', 'full', 'cut'))
        # 1. where does each file sample land in the output?  (probe file, unique values, read in full)
        if _write(R, fmt, pfile, probe, dx, wvl, site) is FAILED:
            return
        P = R.call(read, pfile, sig=f'{site}:full-read:exception')
        if P is FAILED:
            return
        with open(pfile, 'rb') as f:
            sp = split_file(fmt, f.read(), N)
        try:
            P = np.array(P, dtype=float)
        except Exception:   # noqa
            P = np.zeros(0)
        if sp is None or P.size != N or not np.all(np.isfinite(P)) or len(np.unique(P)) != N or len(np.unique(sp[2])) != N:
            R.violation(f'{site}:layout-probe', f'{shape}: a probe file of {N} distinct samples is not read back as '
                                                f'{N} distinct finite samples, or the file does not have the format\'s layout')
            return
        q_of_k = np.empty(N, int)      # output flat index of file sample k
        q_of_k[np.argsort(sp[2], kind='stable')] = np.argsort(P.ravel(), kind='stable')
        # 2. the file under test, its full read
        if _write(R, fmt, ffile, a, dx, wvl, site) is FAILED:
            return
        F = R.call(read, ffile, sig=f'{site}:full-read:exception')
        if F is FAILED:
            return
        with open(ffile, 'rb') as f:
            raw = f.read()
        sp = split_file(fmt, raw, N)
        try:
            F = np.array(F, dtype=float)
        except Exception:   # noqa
            F = np.zeros(0)
        if sp is None or F.size != N:
            R.violation(f'{site}:layout-probe', f'{shape}: written file does not have the format\'s layout, or its '
                                                f'full read has {F.size} samples instead of {N}')
            return
        off, ends, _ = sp
        L = len(raw) - off
        ends = np.asarray(ends)
        if fmt == 'codev':
            txt = raw[off:].decode('ascii')
            toks = list(re.finditer(r'[-+]?\d+', txt))
            last_start = toks[-1].start()
        else:
            last_start = ends[-1] - 4
        bad = collections.OrderedDict()     # sig -> list of (cut, detail)
        classes = collections.Counter()
        for c in range(L):                  # keep c bytes / characters of the data block
            with open(tfile, 'wb') as f:
                f.write(raw[:off + c])
            R.tick()
            with warnings.catch_warnings(record=True) as wlist:
                warnings.simplefilter('always')
                try:
                    T = read(tfile)
                except Exception:   # noqa -- rejected: fine
                    classes['exception'] += 1
                    continue
            R.checks += 1
            warned = any(not issubclass(w.category, ResourceWarning) for w in wlist)
            complete = ends <= c
            nmiss = int(np.count_nonzero(~complete))
            if fmt == 'codev':
                # inside-last-token: some but not all characters of the final number survive (the format has no length
                # field); leaves-only-whitespace: no digit of any sample survives
                where = 'inside-last-token' if (nmiss == 1 and last_start < c) else \
                        'leaves-only-whitespace' if (nmiss == N and raw[off:off + c].strip() == b'') else 'inside-inner-token'
            else:
                where = 'inside-last-sample' if nmiss == 1 else 'inside-inner-sample'
            try:
                T = np.array(T, dtype=float)
            except Exception:   # noqa
                T = np.zeros(0)
            R.observe(T)
            if T.shape != F.shape:
                classes['unannounced:returned-other-shape'] += 1
                bad.setdefault(f'{site}:shape', []).append((c, f'shape {T.shape} vs untruncated {F.shape}'))
                continue
            Tf, Ff = T.ravel(), F.ravel()
            qc, qm = q_of_k[complete], q_of_k[~complete]
            same = bool(np.array_equal(Tf[qc], Ff[qc], equal_nan=True))
            marked = bool(np.all(np.isnan(Tf[qm])))
            if nmiss == 0:
                if same:
                    classes['returned:nothing-missing'] += 1
                else:
                    classes['unannounced:complete-sample-changed'] += 1
                    bad.setdefault(f'{site}:complete-sample-changed', []).append((c, 'only trailing white space removed, yet the values changed'))
                continue
            if warned and marked and same:
                classes['returned:warned+marked'] += 1
                continue
            if not marked:
                k = int(np.flatnonzero(~complete)[np.flatnonzero(~np.isnan(Tf[qm]))[0]])
                kind = 'silent' if not warned else 'warned-but-not-marked'
                sig = f'{rname}:cut-{where}' if not warned else f'{site}:incomplete-sample-not-invalid'
                classes[f'unannounced:{kind}:full-size-plausible-array:cut-{where}'] += 1
                bad.setdefault(sig, []).append(
                    (c, f'file sample {k} incomplete but read as {Tf[q_of_k[k]]!r} (untruncated {Ff[q_of_k[k]]!r}), '
                        f'{"no warning" if not warned else "warning given"}'))
            elif not same:
                classes['unannounced:complete-sample-changed'] += 1
                bad.setdefault(f'{site}:complete-sample-changed', []).append((c, f'read {_fmt(T)} untruncated {_fmt(F)}'))
            else:
                classes['unannounced:marked-without-warning'] += 1
                bad.setdefault(f'{site}:no-warning', []).append((c, 'missing samples are NaN but no warning was issued'))
        for sig, lst in bad.items():
            R.violation(sig, f'{rd} {shape} {case["v"]}/{case["nan"]}: data block of {L} '
                             f'{"bytes" if fmt == "zygo" else "characters"}; {len(lst)} cut(s) '
                             f'{[c for c, _ in lst][:12]}: ' + '; '.join(f'keep {c}: {d}' for c, d in lst[:4]))
        for k, v in classes.items():
            R.outcome('cut:' + k)
            _TALLY[(rd, k)] += v
        _TALLY[(rd, 'files')] += 1
        _TALLY[(rd, 'cuts')] += L
        R.nontrivial(L > 0)
    finally:
        shutil.rmtree(tmp, ignore_errors=True)


# ---------------------------------------------------------------------------------------------
# plan

def _cells(shapes, vclasses, nanpats):
    for shape in shapes:
        for v in vclasses:
            for pat in nanpats:
                if nan_mask(shape, pat) is None:
                    continue
                yield shape, v, pat


# ---------------------------------------------------------------------------------------------
# results of EARLIER reads are the caller's: a session reads a sample map and a reference map of the same shape and keeps both

def run_read_twice(case, seed, R):
    shape = tuple(case['shape'])
    fmt = 'codev' if case['writer'] == 'codev' else 'zygo'
    wvl = 0.6328
    maps = [make_map(shape, v, pat, fmt, wvl, seed) for v, pat in (('mixed', 'corner'), ('neg', 'checker'), ('pos', 'none'))]
    tmp = tempfile.mkdtemp(prefix='verif-c14-', dir='/tmp')
    try:
        paths = []
        for k, a in enumerate(maps):
            pth = os.path.join(tmp, f'm{k}.' + ('int' if fmt == 'codev' else 'dat'))
            if fmt == 'codev':
                R.call(io.write_codev_gridint, a.copy(), pth, sig='codev_gridint:read-twice:write:exception', hygiene=False)
            else:
                R.call(io.write_zygo_dat, pth, a.copy(), 0.5, wavelength=wvl, sig='zygo_dat:read-twice:write:exception', hygiene=False)
            paths.append(pth)

        def read(pth):
            if case['writer'] == 'codev':
                out = R.call(io.read_codev_gridint, pth, sig='codev_gridint:read-twice:read:exception', hygiene=False)
                return None if out is FAILED else np.asarray(out[0] if isinstance(out, tuple) else out, dtype=float) if not isinstance(out, dict) else np.asarray(out.get('data', out.get('phase')), dtype=float)
            if case['writer'] == 'ifg':
                out = R.call(Interferogram.from_zygo_dat, pth, sig='Interferogram.zygo_dat:read-twice:read:exception', hygiene=False)
                return None if out is FAILED else out.data
            out = R.call(io.read_zygo_dat, pth, sig='zygo_dat:read-twice:read:exception', hygiene=False)
            return None if out is FAILED else out['phase']

        held, snaps = [], []
        for order in ([0, 1, 2], [2, 0, 0, 1]):
            for k in order:
                d = read(paths[k])
                if d is None:
                    return
                for (kk, hd), sn in zip(held, snaps):
                    R.expect(np.array_equal(hd, sn, equal_nan=True), f"{case['writer']}:read-twice:earlier-result-changed",
                             f'the map returned by an earlier read of file {kk} changed when file {k} (same shape {shape}) was read')
                    R.expect(not np.shares_memory(hd, d), f"{case['writer']}:read-twice:results-share-memory", f'maps returned by two reads share memory (files {kk}, {k})')
                tol = np.nanmax(np.abs(maps[k])) / 32767 * 1.01 + 1e-12 if fmt == 'codev' else wvl * 1e3 / ZYGO_RES * 1.01 + 4 * np.finfo(np.float32).eps * np.nanmax(np.abs(maps[k]))
                R.expect_close(np.asarray(d, dtype=float), maps[k], tol, f"{case['writer']}:read-twice:value", f'read {k} of a session of same-shape files')
                held.append((k, d))
                snaps.append(np.array(d, copy=True))
                # the caller processes what he was given (in place): a later read of the SAME file must still return the file's map
                if order != [0, 1, 2] and k == 0:
                    try:
                        d[...] = np.nan_to_num(d) * 0.0 + 5.0
                        snaps[-1] = np.array(d, copy=True)
                    except Exception:   # noqa
                        pass
    finally:
        shutil.rmtree(tmp, ignore_errors=True)
    R.nontrivial()
    R.outcome('read-twice')


def plan(tier, seed):
    shapes = SHAPES + SHAPES_MORE + (SHAPES_THOROUGH if tier == 'thorough' else [])
    zy, ifg, cv = [], [], []
    for shape, v, pat in _cells(shapes, VCLASSES, NANPATS):
        for wvl in WVLS:
            zero = tier == 'thorough' or wvl == WVLS[0]       # quick: the dx = 0 forms with one wavelength only
            for dx in DXS + (DXS_ZERO if zero else []):
                zy.append({'writer': 'zygo', 'shape': list(shape), 'v': v, 'nan': pat, 'dx': dx, 'wvl': wvl})
            for dx in DXS + (DXS_ZERO + ['default'] if zero else []):
                ifg.append({'writer': 'ifg', 'shape': list(shape), 'v': v, 'nan': pat, 'dx': dx, 'wvl': wvl})
            if tier == 'thorough' or (wvl == WVLS[0] and v in ('mixed', 'zero', 'huge')):    # quick: fine spacings on three value classes
                for dx in DXS_FINE:
                    zy.append({'writer': 'zygo', 'shape': list(shape), 'v': v, 'nan': pat, 'dx': dx, 'wvl': wvl})
                    ifg.append({'writer': 'ifg', 'shape': list(shape), 'v': v, 'nan': pat, 'dx': dx, 'wvl': wvl})
        # argument forms: every optional argument omitted (documented default) / positional / all given explicitly
        if tier == 'quick' and v not in FORM_V_QUICK:
            continue
        for form in FORMS_ZYGO:
            zy.append({'writer': 'zygo', 'shape': list(shape), 'v': v, 'nan': pat, 'dx': 0.5,
                       'wvl': WVL_DEFAULT if form == 'omitted' else 1.55, 'form': form})
        for form in FORMS_IFG:
            ifg.append({'writer': 'ifg', 'shape': list(shape), 'v': v, 'nan': pat, 'dx': 0.5,
                        'wvl': WVL_DEFAULT if form == 'wvl-omitted' else 1.55, 'form': form})
    # map dtype x every NaN pattern (integer maps: NaN-free), one spacing / wavelength / argument form
    for shape, v, pat in _cells(shapes, VCLASSES_CV, NANPATS):
        for dt in DTYPES:
            if dt != 'float32' and (pat != 'none' or v not in INT_OK[dt]):
                continue
            if v not in SAGS:
                zy.append({'writer': 'zygo', 'shape': list(shape), 'v': v, 'nan': pat, 'dx': 0.5, 'wvl': 0.6328, 'dt': dt})
                ifg.append({'writer': 'ifg', 'shape': list(shape), 'v': v, 'nan': pat, 'dx': 0.5, 'wvl': 0.6328, 'dt': dt})
            cv.append({'writer': 'codev', 'shape': list(shape), 'v': v, 'nan': pat, 'typ': 'SUR', 'nnb': 0, 'comment': 'default', 'dt': dt})
    for shape, v, pat in _cells(shapes, VCLASSES_CV, NANPATS):
        for typ in ('SUR', 'WFR'):
            for nnb in (0, 1):
                cv.append({'writer': 'codev', 'shape': list(shape), 'v': v, 'nan': pat, 'typ': typ, 'nnb': nnb, 'comment': 'default'})
        if tier == 'thorough' or v in FORM_V_QUICK:
            cv.append({'writer': 'codev', 'shape': list(shape), 'v': v, 'nan': pat, 'typ': 'SUR', 'nnb': 0, 'comment': 'default', 'form': 'omitted'})
            cv.append({'writer': 'codev', 'shape': list(shape), 'v': v, 'nan': pat, 'typ': 'WFR', 'nnb': 1, 'comment': 'default', 'form': 'all-explicit'})
        for comment in ('', 'map 7 of lot B'):
            cv.append({'writer': 'codev', 'shape': list(shape), 'v': v, 'nan': pat, 'typ': 'SUR', 'nnb': 0, 'comment': comment})
    bnd = []
    for w in ('zygo', 'ifg'):
        for wvl in WVLS:
            for c in B_LEGAL + B_RESERVED + B_BEYOND:
                bnd.append({'writer': w, 'wvl': wvl, 'c': c, 's': 1 if c >= 0 else -1})
            bnd.append({'writer': w, 'wvl': wvl, 'c': 0, 's': -1})
            bnd.append({'writer': w, 'wvl': wvl, 'group': 'all-legal'})
    for peak in (500.0, 3e8):
        for variant in ('both', 'pos', 'neg'):
            bnd.append({'writer': 'codev', 'peak': peak, 'variant': variant})
    tw2 = []
    for shape, v, pat in _cells(SHAPES, VCLASSES_CV, NANPATS):
        if v not in SAGS:
            for dx in (0.5, 0) + ((8.7378e-5,) if v == 'mixed' else ()):
                tw2.append({'writer': 'zygo', 'shape': list(shape), 'v': v, 'nan': pat, 'dx': dx, 'wvl': 0.6328})
                tw2.append({'writer': 'ifg', 'shape': list(shape), 'v': v, 'nan': pat, 'dx': dx, 'wvl': 0.6328})
        tw2.append({'writer': 'codev', 'shape': list(shape), 'v': v, 'nan': pat})
        for dt in DTYPES:
            if dt != 'float32' and (pat != 'none' or v not in INT_OK[dt]):
                continue
            if tier == 'quick' and dt == 'float32' and v not in FORM_V_QUICK:
                continue
            if v not in SAGS:
                tw2.append({'writer': 'zygo', 'shape': list(shape), 'v': v, 'nan': pat, 'dx': 0.5, 'wvl': 0.6328, 'dt': dt})
                tw2.append({'writer': 'ifg', 'shape': list(shape), 'v': v, 'nan': pat, 'dx': 0.5, 'wvl': 0.6328, 'dt': dt})
            tw2.append({'writer': 'codev', 'shape': list(shape), 'v': v, 'nan': pat, 'dt': dt})
    # memory layout of the array handed to the writer x every shape x NaN pattern (x dtype for the layouts that reorder elements)
    thorough = tier == 'thorough'
    lay_v = VCLASSES_CV if thorough else LAYOUT_V_QUICK
    lz, li, lc = [], [], []
    for shape, v, pat in _cells(shapes, lay_v, NANPATS):
        for layout in LAYOUTS:
            for dt in ['float64'] + (LAYOUT_DTYPES if (thorough or layout in ('F', 'T')) else []):
                if dt != 'float64' and dt != 'float32' and (pat != 'none' or v not in INT_OK[dt]):
                    continue
                extra = {'layout': layout} if dt == 'float64' else {'layout': layout, 'dt': dt}
                if v not in SAGS:
                    lz.append(dict({'writer': 'zygo', 'shape': list(shape), 'v': v, 'nan': pat, 'dx': 0.5, 'wvl': 0.6328}, **extra))
                    li.append(dict({'writer': 'ifg', 'shape': list(shape), 'v': v, 'nan': pat, 'dx': 0.5, 'wvl': 0.6328}, **extra))
                lc.append(dict({'writer': 'codev', 'shape': list(shape), 'v': v, 'nan': pat, 'typ': 'SUR', 'nnb': 0, 'comment': 'default'}, **extra))
    for shape, v, pat in _cells(SHAPES, ['mixed'], NANPATS):          # the same non-C-ordered array written twice
        for layout in ('F', 'T', 'strided'):
            tw2.append({'writer': 'zygo', 'shape': list(shape), 'v': v, 'nan': pat, 'dx': 0.5, 'wvl': 0.6328, 'layout': layout})
            tw2.append({'writer': 'ifg', 'shape': list(shape), 'v': v, 'nan': pat, 'dx': 0.5, 'wvl': 0.6328, 'layout': layout})
            tw2.append({'writer': 'codev', 'shape': list(shape), 'v': v, 'nan': pat, 'layout': layout})
    # camera frame next to the map: dtype x frame shape x reader action, each followed by a second generation
    fcells = [('mixed', 'corner'), ('neg', 'checker')] + ([('pos', 'none'), ('huge', 'allbut1'), ('zero', 'row')] if thorough else [])
    frm = []
    for shape in shapes:
        for v, pat in fcells:
            if nan_mask(shape, pat) is None:
                continue
            for w in ('zygo', 'ifg'):
                base = {'writer': w, 'shape': list(shape), 'v': v, 'nan': pat, 'regen': 1}
                for idt in FRAME_DTYPES:
                    frm.append(dict(base, idt=idt, ishape='same', action='first', dx=0.5, wvl=0.6328))
                seen = {make_frame(shape, 'uint16', 'same')[1]}
                for ishape in FRAME_SHAPES:
                    fs = make_frame(shape, 'uint16', ishape)[1]
                    if fs in seen:
                        continue
                    seen.add(fs)
                    for idt in ('uint16', 'float64'):
                        frm.append(dict(base, idt=idt, ishape=ishape, action='first', dx=0.0123, wvl=1.55))
                for action in READ_ACTIONS[1:]:
                    for idt in ('uint16', 'uint8', 'float64'):
                        frm.append(dict(base, idt=idt, ishape='same', action=action, dx=0.0123, wvl=1.55))
    # object histories
    oh = []
    odepth = 3 if thorough else 2

    def _hists(d):
        out = [[]]
        level = [[]]
        for _ in range(d):
            level = [h + [e] for h in level for e in OBJ_EVENTS]
            out += level
        return out
    for init in OBJ_INITS:
        deep = init in OBJ_INITS_DEEP
        for h in _hists(odepth if deep else odepth - 1):
            oh.append({'shape': [4, 6], 'init': init, 'events': h})
        for h in _hists(1):
            oh.append({'shape': [3, 5], 'init': init, 'events': h})
    # ordered pairs of different writes
    pair = [{'first': f, 'then': t} for f in PAIR_CFGS for t in PAIR_CFGS]
    if tier == 'quick':
        tshapes, tv, tn, tw = SHAPES, ['mixed', 'pos', 'zero', 'outlier'], ['none', 'corner', 'checker', 'allbut1'], [0.6328]
    else:
        tshapes, tv, tn, tw = SHAPES + [(4, 5), (2, 10)], VCLASSES, NANPATS, WVLS
    tz, ti, tc = [], [], []
    for shape, v, pat in _cells(tshapes, tv, tn):
        for wvl in tw:
            tz.append({'reader': 'zygo', 'shape': list(shape), 'v': v, 'nan': pat, 'dx': 0.5, 'wvl': wvl})
            ti.append({'reader': 'ifg', 'shape': list(shape), 'v': v, 'nan': pat, 'dx': 0.5, 'wvl': wvl})
        tc.append({'reader': 'codev', 'shape': list(shape), 'v': v, 'nan': pat, 'dx': 0.5, 'wvl': 1.0})
    sh = f'shapes {[tuple(s) for s in shapes]}'
    dts = (f' x map dtype {{float64, float32 (every NaN pattern; compared at max(format step, 8 eps32 |a|)), int32, int16 (NaN-free classes that fit)}}')
    cells = (f'{sh} x value classes {VCLASSES} (a C-order ramp with the largest sample marking corner [0,0]; seeded amplitude) '
             f'x NaN patterns {NANPATS} (degenerate shape/pattern pairs dropped)' + dts)
    # size thresholds (writers / readers that stream or convert in blocks of 2^16 .. 2^20 samples): not closed over sizes
    lg_shapes = [[300, 301], [700, 600], [1500, 300]] + ([[1030, 1031]] if tier == 'quick' else [[1030, 1031], [2, 60000], [2100, 1000]])   # axis lengths stay below 65536: the binary format stores them in 16-bit fields
    large = []
    for shp in lg_shapes:
        for v, pat in (('mixed', 'corner'), ('neg', 'checker')):
            large.append({'writer': 'zygo', 'shape': shp, 'v': v, 'nan': pat, 'dx': 0.5, 'wvl': 0.6328})
            large.append({'writer': 'ifg', 'shape': shp, 'v': v, 'nan': pat, 'dx': 0.5, 'wvl': 0.6328})
            if shp[0] * shp[1] <= 500000:
                large.append({'writer': 'codev', 'shape': shp, 'v': v, 'nan': pat, 'typ': 'SUR', 'nnb': 0, 'comment': 'default'})
    rt2 = [{'writer': w, 'shape': list(sh)} for w in ('zygo', 'ifg', 'codev') for sh in ((3, 5), (4, 4), (1, 4))]
    return [
        ScopeUnit('read_twice', rt2, run_read_twice,
                  'sessions over three different maps of ONE shape {3x5, 4x4, 1x4} written to three files, read in the orders [0,1,2] and [2,0,0,1] through read_zygo_dat / Interferogram.from_zygo_dat / '
                  'read_codev_gridint, every earlier result held: each read returns its file\'s map, earlier results never change and never share memory with later ones, and after the caller overwrote '
                  'a result in place the next read of the same file still returns the file\'s map', reset=_reset),
        ScopeUnit('rt_large', large, run_roundtrip,
                  f'size-threshold alphabet of map shapes {lg_shapes} (above 2^16, 2^18 and 2^20 samples, not multiples of them, tall and wide) x value class / NaN pattern {{mixed/corner, neg/checker}} '
                  'through write_zygo_dat, Interferogram.save_zygo_dat (and write_codev_gridint up to 5e5 samples) and back: the same round-trip oracle on EVERY sample (orientation, NaN set, one quantisation step); not closed over sizes',
                  reset=_reset),
        ScopeUnit('rt_zygo', zy, run_roundtrip,
                  f'{cells} x dx {DXS + DXS_ZERO + DXS_FINE} (0 = uncalibrated, must come back exactly 0; fine non-round spacings; dx and wavelength compared at 2^-23 relative) x wavelength {WVLS} x argument form {{wavelength by keyword, positional, OMITTED (file must report the documented 0.6328 um), all optional arguments explicit}}: io.write_zygo_dat -> io.read_zygo_dat; the array passed in must be bit-identical after the write; shape, orientation, NaN set, '
                  '|a-b| <= wavelength/32768 (+4 eps32 |a|), dx and wavelength at float32 precision; non-trivial unless the map is all-zero without NaN',
                  reset=_reset),
        ScopeUnit('rt_interferogram', ifg, run_roundtrip,
                  f'same cells x dx {DXS + DXS_ZERO + DXS_FINE + ["default (omitted)"]} x wavelength x constructor/reader argument form {{keyword, positional, wavelength omitted (HeNe), all explicit}} through Interferogram(...).save_zygo_dat -> Interferogram.from_zygo_dat (.data, .dx, .wavelength); '
                  'the array handed to the constructor and .data of the saved object must be unchanged by the save',
                  reset=_reset),
        ScopeUnit('rt_codev', cv, run_roundtrip,
                  f'{cells} plus large-sag classes {SAGS} nm (value alphabet, positive bowl) x typ {{SUR,WFR}} x nnb {{F,T}} plus comment {{"", custom}} plus argument form {{all optional arguments omitted, all explicit}}; the two header records are parsed independently (title, typ, NNB): io.write_codev_gridint -> io.read_codev_gridint; '
                  '|a-b| <= max|a|/32767', reset=_reset),
        ScopeUnit('rt_boundary', bnd, run_boundary,
                  f'representability boundaries of the on-disk integers, write_zygo_dat and Interferogram.save_zygo_dat x wavelength {WVLS} (two scale factors): one 1x1 map per count in '
                  f'{{legal: 0 (both signs), +-1, +-2, 2^15, 2^16, 2^24(+1), 2^30, INT32_MIN..INT32_MIN+9, 2147483630/38/39 (last before the sentinel)}} = {len(B_LEGAL)} counts, '
                  f'{{reserved invalid codes {B_RESERVED}}}, {{beyond either end {B_BEYOND}}}, heights placed mid-count, plus all legal counts in one map with a NaN; '
                  'oracle: the raw big-endian int32 of every legal height is within one count of an independent encoding and is not an invalid code, it reads back finite within one step; '
                  'a height that lands on the reserved invalid codes is stored as invalid and read as NaN, never as another finite height; heights beyond the int32 range are executed but not judged (outside the property\'s "within format range").  Code V: peaks {500, 3e8} nm x '
                  '{both, only +, only -} extreme at exactly +-32767 with neighbours at 0, +-1, +-32766 counts: raw integers vs independent rounding, NDA only where NaN was written. '
                  'Value alphabet on tiny maps: not closed over shape', reset=_reset),
        ScopeUnit('hist_write_twice', tw2, run_twice,
                  f'histories of depth 2-4 on one object: shapes {SHAPES} x value classes x NaN patterns{dts} x dx {{0.5, 0}} x writer {{write_zygo_dat, Interferogram, write_codev_gridint}}: '
                  'write, write the SAME array / Interferogram again, read the second file: the second file equals the first byte for byte (Zygo timestamp field apart), '
                  'the caller\'s array / .data / .dx are unchanged after each write, the second file reads back as the pristine map; Interferogram additionally '
                  'load -> save -> load: header identical to the first file, dx kept (0 stays 0), map within 2 steps; plus the same Fortran-ordered / transposed-view / strided array '
                  'object written twice (mixed class, every shape and NaN pattern, all three writers)', reset=_reset),
        ScopeUnit('layout_zygo', lz, run_roundtrip,
                  f'memory layout of the array handed to the writer (the writers return nothing, so the hygiene layer cannot vary it): {sh} x value classes {list(lay_v)} x NaN patterns {NANPATS} x layout '
                  f'{LAYOUTS} (Fortran-ordered, transposed view, every 2nd row / 3rd column of a larger array, negative strides, rows of a wider array, read-only, non-native byte order) x dtype {{float64; '
                  f'{LAYOUT_DTYPES} with ' + ('every layout' if thorough else 'F and T') + '}}: io.write_zygo_dat -> io.read_zygo_dat, same oracle as rt_zygo (b[i,j] <-> a[i,j] of the logical array), the array must be unchanged by the write',
                  reset=_reset),
        ScopeUnit('layout_interferogram', li, run_roundtrip,
                  'the same layout x dtype cells through Interferogram(array).save_zygo_dat -> Interferogram.from_zygo_dat', reset=_reset),
        ScopeUnit('layout_codev', lc, run_roundtrip,
                  'the same layout x dtype cells (plus the large-sag classes) through io.write_codev_gridint -> io.read_codev_gridint, oracle of rt_codev', reset=_reset),
        ScopeUnit('rt_zygo_frame', frm, run_intensity,
                  f'a camera frame handed to the writer next to the map: {sh} x cells {fcells} x writer {{io.write_zygo_dat(..., intensity=frame), Interferogram(..., intensity=frame).save_zygo_dat}} x frame dtype {FRAME_DTYPES} '
                  f'(same shape as the map) plus frame shape {FRAME_SHAPES} x {{uint16, float64}} plus reader multi_intensity_action {READ_ACTIONS[1:]} x {{uint16, uint8, float64}}; the map, dx and wavelength read back are judged by the '
                  'rt_zygo oracle (the frame itself is not part of the property); then a second generation: the map, spacing, wavelength AND frame the reader returned are passed to io.write_zygo_dat again and read back '
                  '(oracle: equal to the first-generation map within one step).  Not closed over frame content (one deterministic 10-bit ramp)', reset=_reset),
        ScopeUnit('hist_interferogram', oh, run_objhist,
                  f'object histories: initial object {OBJ_INITS} (fresh / uncalibrated / loaded from a file / built with meta= of a loaded object, with wavelength from meta, with .datx-style or user meta) x EVERY sequence of '
                  f'<= {odepth} events ({OBJ_INITS_DEEP}; the other inits <= {odepth - 1}) from {OBJ_EVENTS} (every public attribute save_zygo_dat reads -- data, dx, wavelength -- reassigned; the methods that change them; '
                  'intermediate save / save+load; a new object built from the old one\'s attributes) on a 4x6 map with an invalid row (3x5: depth <= 1), then save_zygo_dat -> from_zygo_dat.  Oracle: the file reads back as '
                  'what the object held when it was saved (.data within one step, .dx, .wavelength at float32 precision), the save leaves the object unchanged, and the file equals byte for byte (timestamp apart) the file of a '
                  'fresh Interferogram(data, dx, wavelength) built from the current values; an event that raises in a state ends the history unjudged', reset=_reset),
        ScopeUnit('hist_pair', pair, run_pair,
                  f'every ordered pair of {len(PAIR_CFGS)} write+read configurations (writer zygo / Interferogram / Code V x different shape, sign class, NaN pattern, dx, wavelength, one with a uint16 frame): the first is executed '
                  'unjudged, the second is judged by the round-trip oracle (nothing of the first write may leak into the second file)', reset=_reset),
        ScopeUnit('trunc_zygo', tz, run_trunc,
                  f'files of <= 20 samples: shapes {[tuple(s) for s in tshapes]} x {tv} x {tn} x wavelength {tw}; EVERY byte cut of the int32 block '
                  '(keep 0..4N-1 bytes) through io.read_zygo_dat: exception, or warning + incomplete samples NaN + complete samples equal to the untruncated read',
                  reset=_reset),
        ScopeUnit('trunc_interferogram', ti, run_trunc,
                  'the same files and cuts through Interferogram.from_zygo_dat', reset=_reset),
        ScopeUnit('trunc_codev', tc, run_trunc,
                  f'files of <= 20 samples: shapes {[tuple(s) for s in tshapes]} x {tv} x {tn}; EVERY character cut of the text block after the GRD header line '
                  'through io.read_codev_gridint; same outcome classes; a cut that only removes trailing white space must return the unchanged map',
                  reset=_reset),
    ]


if __name__ == '__main__':
    # exact per-cut outcome table (the explorer's histogram counts files in which a class occurs)
    import sys
    from mc import Recorder
    tier = sys.argv[1] if len(sys.argv) > 1 else 'quick'
    seed = int(os.environ.get('VERIF_SEED', '0') or 0)
    for u in plan(tier, seed):
        if u.name.startswith('trunc_'):
            for c in u.cases:
                _reset()
                run_trunc(c, seed, Recorder())
    rows = sorted(_TALLY.items())
    for (rd, k), v in rows:
        print(f'{rd:6s} {k:55s} {v}')
