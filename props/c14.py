"""C14 -- writing then reading an instrument file returns the same map; truncation is never silent.

Two kinds of units, both scope units (DESIGN.md 3.3, section 4 / C14):

* round trip  -- every (shape, value class, NaN pattern, dx, wavelength, writer options): the map is
  written with the real writer into a per-case temporary directory and read back with the real
  reader.  Oracle (independent of the library): same shape, b[i,j] <-> a[i,j], NaN set equal,
  |a-b| <= one quantisation step *of the format*, dx / wavelength equal to float32 header precision.
* truncation  -- for every written file of <= 20 samples, EVERY cut position inside the data block
  (every byte of the binary block, every character of the text block): the real reader must raise,
  or return with a warning, every sample whose bytes / digits are incomplete NaN and every complete
  sample equal to the untruncated read.  Which output sample lives at which file position is
  measured with a probe file (unique values, read in full), so this verdict does not depend on the
  orientation / shape clauses judged by the round-trip units.

Quantisation steps, derived from the formats:
  Zygo .dat  -- phase is a big-endian int32 count of "zygos"; one count = S*O*wavelength/R metres
                (MetroPro reference guide p.12-6); the writer sets S = O = 1 and phase_res = 1
                (R = 32768), so step = wavelength[nm] / 32768.  The header keeps the wavelength as
                float32, which scales every sample: a relative term of a few eps(float32) is added.
  Code V GRD -- samples are int16 (-32767..32767, NDA = -32768 is the sentinel) in units of
                WVL/SSZ; SSZ is a free real number in the header, so the format resolves
                max|a| / 32767.
"""
import collections
import os
import re
import shutil
import tempfile
import warnings

import numpy as np

from mc import ScopeUnit, FAILED

from prysm import io
from prysm.interferogram import Interferogram
from prysm.conf import config

ID = 'C14'
ASSUMPTIONS = [
    'Zygo .dat: the header stores wavelength and lateral resolution as float32; the wavelength scales every '
    'sample on reading, so the value tolerance is one int32 count (wavelength/32768) plus 4 eps(float32)*|a|, and '
    'dx / wavelength are compared at 16 eps(float32) relative',
    'Code V grid INT: the format carries neither a sample spacing nor the light wavelength (WVL/SSZ only define the '
    'unit of the integers), and write_codev_gridint takes neither; the dx / wavelength clause is therefore judged on '
    'the Zygo writers only.  One quantisation step is max|a|/32767 (the int16 range with a free real SSZ), not '
    'whatever SSZ a writer happens to choose',
    'typ="FIL" (intensity apodisation) is not a height map and is outside the statement; SUR and WFR, nnb and the '
    'comment line are enumerated',
    'a cut that removes only the white space after the last number of a text file leaves every sample complete; '
    'returning the full, correct map for it is accepted without a warning',
    'the untruncated read of the same file is the reference for the complete samples of a truncated read '
    '(the property states this relation); the position of every sample in the file is measured with a probe '
    'file of unique values, not taken from the reader',
]

EPS32 = float(np.finfo(np.float32).eps)
ZYGO_HEADER = 834
ZYGO_RES = 32768.0
ZYGO_MAXCOUNT = 2147483639          # 2147483640 and above mean "invalid"

SHAPES = [(1, 1), (1, 4), (4, 1), (2, 3), (3, 2), (4, 4), (3, 5), (5, 3)]
SHAPES_MORE = [(24, 25)]            # 600 samples: the text writer's multi-column line layout
SHAPES_THOROUGH = [(6, 7), (16, 16), (13, 45), (1, 587), (9, 2)]
VCLASSES = ['mixed', 'pos', 'neg', 'const', 'zero', 'tiny', 'huge', 'outlier']
NANPATS = ['none', 'corner', 'row', 'checker', 'allbut1']
SAGS = {'sag1e7': 1e7, 'sag3.5e7': 3.5e7, 'sag3e8': 3e8}    # large sag-type maps [nm]: 10 mm .. 0.3 m (Code V only)
VCLASSES_CV = VCLASSES + list(SAGS)
DXS = [0.5, 0.0123]
DXS_ZERO = [0, 0.0]                  # no lateral calibration: must come back as exactly 0
WVLS = [0.6328, 1.55]

_TALLY = collections.Counter()       # per-cut outcome classes of this process (see __main__)


def _reset():
    config.precision = 64


# ---------------------------------------------------------------------------------------------
# the maps

def nan_mask(shape, pat):
    """Boolean mask of invalid samples, or None when the pattern degenerates for this shape."""
    n0, n1 = shape
    N = n0 * n1
    m = np.zeros(shape, bool)
    if pat == 'none':
        return m
    if N == 1:
        return None                  # any pattern would be "none" or "all"
    if pat == 'corner':
        m[0, 0] = True
    elif pat == 'row':
        if n0 == 1:
            return None              # the whole map
        m[0, :] = True
    elif pat == 'checker':
        i, j = np.indices(shape)
        m = (i + j) % 2 == 1
    elif pat == 'allbut1':
        m[:] = True
        m[n0 - 1, 0] = False         # off every symmetry axis the shape has
    else:
        raise ValueError(pat)
    return m


def make_map(shape, vclass, pat, fmt, wavelength, seed):
    """The map of one alphabet cell: a ramp in C order with a marked (largest) corner [0,0], scaled per class."""
    n0, n1 = shape
    N = n0 * n1
    r = (np.arange(N, dtype=float) + 1.0) / N
    r[0] = 1.25                      # marked corner: the largest sample sits at [0,0]
    r = r.reshape(shape)
    rng = np.random.default_rng([int(seed), VCLASSES_CV.index(vclass), n0, n1])
    g = 1.0 + 0.25 * rng.random()    # the generic representative inside the cell
    step_z = wavelength * 1e3 / ZYGO_RES
    mask = nan_mask(shape, pat)
    if vclass == 'mixed':
        a = 800.0 * g * (r - 0.45)
    elif vclass == 'pos':
        a = 2500.0 * g * r
    elif vclass == 'neg':
        a = -2500.0 * g * r
    elif vclass == 'const':
        a = np.full(shape, 123.456 * g)
    elif vclass == 'zero':
        a = np.zeros(shape)
    elif vclass == 'tiny':
        a = 1e-6 * g * r
    elif vclass == 'huge':
        H = 0.9 * ZYGO_MAXCOUNT * step_z if fmt == 'zygo' else 1e9 * g
        a = H * (2 * r - 1.3) / 1.3
    elif vclass in SAGS:
        a = SAGS[vclass] * g * r / 1.25
    elif vclass == 'outlier':
        a = 0.01 * g * r
        valid = np.flatnonzero(~mask.ravel())
        a.ravel()[valid[-1]] = 1e5 * g
    else:
        raise ValueError(vclass)
    a = a.astype(float)
    a[mask] = np.nan
    return a


def sign_class(a):
    v = a[np.isfinite(a)]
    if v.size == 0 or np.all(v == 0):
        return 'zero'
    if np.all(v >= 0):
        return 'allpos'
    if np.all(v <= 0):
        return 'allneg'
    return 'mixed'


def shape_class(shape):
    n0, n1 = shape
    return 'square' if n0 == n1 else 'nonsquare'


def tolerance(a, fmt, wavelength):
    fin = np.where(np.isnan(a), 0.0, np.abs(a))
    if fmt == 'zygo':
        step = wavelength * 1e3 / ZYGO_RES
        return step * (1 + 1e-9) + 4 * EPS32 * fin, step
    step = float(fin.max()) / 32767.0
    return step * (1 + 1e-9) + 64 * np.finfo(float).eps * fin, step


def _close(g, a, tol):
    if g.shape != a.shape:
        return False
    gn, an = np.isnan(g), np.isnan(a)
    if not np.array_equal(gn, an):
        return False
    with np.errstate(invalid='ignore'):
        err = np.abs(np.where(gn, 0, g) - np.where(an, 0, a))
    return bool(np.all(err <= tol))


def unchanged(R, arr, pristine, sig, what):
    """The caller's array after a write: same object content, bit for bit (NaN == NaN)."""
    R.checks += 1
    try:
        x = np.asarray(arr)
        ok = x.shape == pristine.shape and x.dtype == pristine.dtype and bool(np.array_equal(x, pristine, equal_nan=True))
    except Exception:   # noqa
        ok = False
    if not ok:
        R.violation(sig, f'{what}: the array handed to the writer was modified by it: before {_fmt(pristine)} after {_fmt(arr)}')
    return ok


def judge_map(R, got, a, tol, site, what):
    """Shape, NaN set, orientation, values -- each with its own signature."""
    R.checks += 1
    if got is FAILED:
        return False
    try:
        g = np.array(got, dtype=float)
    except Exception as e:   # noqa
        R.violation(f'{site}:type', f'{what}: returned object is not a real array ({type(e).__name__}: {e})')
        return False
    R.observe(g)
    sc = shape_class(a.shape)
    if g.shape != a.shape:
        kind = 'swapped' if g.shape == a.shape[::-1] else 'other'
        R.violation(f'{site}:shape:{sc}:{kind}', f'{what}: shape {g.shape}, written {a.shape}')
        return False
    if _close(g, a, tol):
        return True
    # not the same map: is it the written map in another orientation?
    tl = np.broadcast_to(np.asarray(tol, dtype=float), a.shape)
    views = {'fliplr': lambda x: x[:, ::-1], 'flipud': lambda x: x[::-1, :], 'rot180': lambda x: x[::-1, ::-1]}
    if a.shape[0] == a.shape[1]:
        views['transpose'] = lambda x: x.T
    for name, view in views.items():
        if _close(g, view(a), view(tl)):
            R.violation(f'{site}:orientation:{name}', f'{what}: the map read back is {name}(written map); '
                                                      f'written {_fmt(a)} read {_fmt(g)}')
            return False
    gn, an = np.isnan(g), np.isnan(a)
    if not np.array_equal(gn, an):
        R.violation(f'{site}:nan-set', f'{what}: invalid samples moved: written at {np.argwhere(an).tolist()} '
                                       f'read at {np.argwhere(gn).tolist()}')
        return False
    with np.errstate(invalid='ignore'):
        err = np.abs(np.where(gn, 0, g) - np.where(an, 0, a))
    k = np.unravel_index(int(np.argmax(err - tol)), err.shape)
    R.violation(f'{site}:value:{sign_class(a)}',
                f'{what}: |read-written| = {err[k]:.6g} at {tuple(int(i) for i in k)} exceeds one quantisation step '
                f'({float(np.max(tol)):.6g}); written {a[k]!r} read {g[k]!r}; written {_fmt(a)} read {_fmt(g)}')
    return False


def _fmt(x):
    x = np.asarray(x)
    if x.size <= 16:
        return repr(np.round(x, 6).tolist())
    return f'array{x.shape} head={np.round(x.ravel()[:6], 6).tolist()}'


def judge_scalar(R, got, want, rel, sig, what):
    R.checks += 1
    try:
        g = float(got)
    except Exception as e:   # noqa
        R.violation(sig, f'{what}: not a number ({type(e).__name__}: {e}): {got!r}')
        return False
    if not abs(g - want) <= rel * abs(want):
        R.violation(sig, f'{what}: read {g!r}, written {want!r} (allowed relative error {rel:.3g})')
        return False
    return True


# ---------------------------------------------------------------------------------------------
# round trip

def run_roundtrip(case, seed, R):
    shape = tuple(case['shape'])
    w = case['writer']
    fmt = 'codev' if w == 'codev' else 'zygo'
    wvl = case.get('wvl', 1.0)
    a = make_map(shape, case['v'], case['nan'], fmt, wvl, seed)
    tol, step = tolerance(a, fmt, wvl)
    what = f"{w} {shape} {case['v']}/{case['nan']}"
    tmp = tempfile.mkdtemp(prefix='verif-c14-', dir='/tmp')
    try:
        if w == 'zygo':
            site = 'zygo_dat:roundtrip'
            path = os.path.join(tmp, 'm.dat')
            dx = case['dx']
            a_in = a.copy()
            if R.call(io.write_zygo_dat, path, a_in, dx, wavelength=wvl, sig=f'{site}:write:exception') is FAILED:
                return
            unchanged(R, a_in, a, 'zygo_dat:write:caller-array-modified', what)
            out = R.call(io.read_zygo_dat, path, sig=f'{site}:read:exception')
            if out is FAILED:
                return
            try:
                b, meta = out['phase'], out['meta']
                rdx, rw = meta['lateral_resolution'] * 1e3, meta['wavelength'] * 1e6
            except Exception as e:   # noqa
                R.violation(f'{site}:type', f'{what}: reader result has no phase/meta ({type(e).__name__}: {e})')
                return
            judge_map(R, b, a, tol, site, what)
            judge_scalar(R, rdx, dx, 16 * EPS32, f'{site}:dx' + (':zero' if dx == 0 else ''), f'{what}: lateral resolution [mm]')
            judge_scalar(R, rw, wvl, 16 * EPS32, f'{site}:wavelength', f'{what}: wavelength [um]')
        elif w == 'ifg':
            site = 'Interferogram.zygo_dat:roundtrip'
            path = os.path.join(tmp, 'm.dat')
            dx = case['dx']
            a_in = a.copy()
            if dx == 'default':          # the constructor's default: no lateral calibration
                i1 = R.call(Interferogram, a_in, wavelength=wvl, sig=f'{site}:construct:exception')
                dx = 0
            else:
                i1 = R.call(Interferogram, a_in, dx=dx, wavelength=wvl, sig=f'{site}:construct:exception')
            if i1 is FAILED:
                return
            if R.call(i1.save_zygo_dat, path, sig=f'{site}:write:exception') is FAILED:
                return
            unchanged(R, a_in, a, 'Interferogram.zygo_dat:write:caller-array-modified', what)
            unchanged(R, getattr(i1, 'data', None), a, 'Interferogram.zygo_dat:write:data-modified', what + ' (.data of the saved object)')
            i2 = R.call(Interferogram.from_zygo_dat, path, sig=f'{site}:read:exception')
            if i2 is FAILED:
                return
            try:
                b, rdx, rw = i2.data, i2.dx, i2.wavelength
            except Exception as e:   # noqa
                R.violation(f'{site}:type', f'{what}: no data/dx/wavelength on the result ({type(e).__name__}: {e})')
                return
            judge_map(R, b, a, tol, site, what)
            judge_scalar(R, rdx, dx, 16 * EPS32, f'{site}:dx' + (':zero' if dx == 0 else ''), f'{what}: dx [mm] (written {case["dx"]!r})')
            judge_scalar(R, rw, wvl, 16 * EPS32, f'{site}:wavelength', f'{what}: wavelength [um]')
        else:
            site = 'codev_gridint:roundtrip'
            path = os.path.join(tmp, 'm.int')
            kw = {'typ': case['typ'], 'nnb': bool(case['nnb'])}
            if case['comment'] != 'default':
                kw['comment'] = case['comment']
            a_in = a.copy()
            if R.call(io.write_codev_gridint, a_in, path, sig=f'{site}:write:exception', **kw) is FAILED:
                return
            unchanged(R, a_in, a, 'codev_gridint:write:caller-array-modified', what)
            out = R.call(io.read_codev_gridint, path, sig=f'{site}:read:exception:{shape_class(shape)}')
            if out is FAILED:
                return
            try:
                b, meta = out
            except Exception as e:   # noqa
                R.violation(f'{site}:type', f'{what}: reader result is not (array, meta) ({type(e).__name__}: {e})')
                return
            judge_map(R, b, a, tol, site, what + f" typ={case['typ']} nnb={case['nnb']}")
        nt = np.isfinite(a)
        R.nontrivial(bool(np.any(a[nt] != 0)) or bool(np.any(~nt)))
        R.outcome('roundtrip')
    finally:
        shutil.rmtree(tmp, ignore_errors=True)


# ---------------------------------------------------------------------------------------------
# histories: write -> write again -> read (-> save the loaded object again)

ZYGO_TIMESTAMP = slice(76, 80)       # the only header field that may differ between two saves of the same map


def _bytes(path):
    with open(path, 'rb') as f:
        return f.read()


def same_file(R, b1, b2, fmt, sig, what, header_only=False):
    """Second file equals the first byte for byte (the Zygo timestamp field apart)."""
    R.checks += 1
    if fmt == 'zygo':
        b1 = b1[:ZYGO_TIMESTAMP.start] + b'\0' * 4 + b1[ZYGO_TIMESTAMP.stop:]
        b2 = b2[:ZYGO_TIMESTAMP.start] + b'\0' * 4 + b2[ZYGO_TIMESTAMP.stop:]
        if header_only:
            b1, b2 = b1[:ZYGO_HEADER], b2[:ZYGO_HEADER]
    if b1 == b2:
        return True
    n = min(len(b1), len(b2))
    first = next((i for i in range(n) if b1[i] != b2[i]), n)
    if fmt == 'zygo':
        where = f'header byte {first}' if first < ZYGO_HEADER else f'data word {(first - ZYGO_HEADER) // 4}'
        detail = f'{b1[first:first + 4].hex()} vs {b2[first:first + 4].hex()}'
    else:
        where = f'character {first}'
        detail = f'{b1[max(0, first - 20):first + 20]!r} vs {b2[max(0, first - 20):first + 20]!r}'
    R.violation(sig, f'{what}: lengths {len(b1)} / {len(b2)}, first difference at {where}: {detail}')
    return False


def run_twice(case, seed, R):
    shape = tuple(case['shape'])
    w = case['writer']
    fmt = 'codev' if w == 'codev' else 'zygo'
    wvl = case.get('wvl', 1.0)
    a = make_map(shape, case['v'], case['nan'], fmt, wvl, seed)      # pristine, never handed to the library
    tol, step = tolerance(a, fmt, wvl)
    what = f"{w} {shape} {case['v']}/{case['nan']}"
    tmp = tempfile.mkdtemp(prefix='verif-c14-', dir='/tmp')
    try:
        ext = '.int' if fmt == 'codev' else '.dat'
        p1, p2, p3 = (os.path.join(tmp, n + ext) for n in ('first', 'second', 'third'))
        a_in = a.copy()
        if w == 'zygo':
            site = 'zygo_dat:write-twice'
            dx = case['dx']
            for p in (p1, p2):           # the SAME array object both times
                if R.call(io.write_zygo_dat, p, a_in, dx, wavelength=wvl, sig=f'{site}:write:exception') is FAILED:
                    return
                unchanged(R, a_in, a, 'zygo_dat:write:caller-array-modified', what)
            same_file(R, _bytes(p1), _bytes(p2), fmt, f'{site}:second-file-differs', what)
            out = R.call(io.read_zygo_dat, p2, sig=f'{site}:read:exception')
            if out is FAILED:
                return
            try:
                b, rdx, rw = out['phase'], out['meta']['lateral_resolution'] * 1e3, out['meta']['wavelength'] * 1e6
            except Exception as e:   # noqa
                R.violation(f'{site}:type', f'{what}: reader result has no phase/meta ({type(e).__name__}: {e})')
                return
            judge_map(R, b, a, tol, site, what + ' (second file)')
            judge_scalar(R, rdx, dx, 16 * EPS32, f'{site}:dx' + (':zero' if dx == 0 else ''), f'{what}: lateral resolution [mm]')
            judge_scalar(R, rw, wvl, 16 * EPS32, f'{site}:wavelength', f'{what}: wavelength [um]')
        elif w == 'ifg':
            site = 'Interferogram.zygo_dat:write-twice'
            dx = case['dx']
            i1 = R.call(Interferogram, a_in, dx=dx, wavelength=wvl, sig=f'{site}:construct:exception')
            if i1 is FAILED:
                return
            for p in (p1, p2):           # the SAME Interferogram both times
                if R.call(i1.save_zygo_dat, p, sig=f'{site}:write:exception') is FAILED:
                    return
                unchanged(R, a_in, a, 'Interferogram.zygo_dat:write:caller-array-modified', what)
                unchanged(R, getattr(i1, 'data', None), a, 'Interferogram.zygo_dat:write:data-modified', what + ' (.data of the saved object)')
                judge_scalar(R, getattr(i1, 'dx', None), dx, 0, 'Interferogram.zygo_dat:write:dx-modified', what + ' (.dx of the saved object)')
            same_file(R, _bytes(p1), _bytes(p2), fmt, f'{site}:second-file-differs', what)
            i2 = R.call(Interferogram.from_zygo_dat, p2, sig=f'{site}:read:exception')
            if i2 is FAILED:
                return
            try:
                b, rdx, rw = i2.data, i2.dx, i2.wavelength
            except Exception as e:   # noqa
                R.violation(f'{site}:type', f'{what}: no data/dx/wavelength on the result ({type(e).__name__}: {e})')
                return
            judge_map(R, b, a, tol, site, what + ' (second file)')
            judge_scalar(R, rdx, dx, 16 * EPS32, f'{site}:dx' + (':zero' if dx == 0 else ''), f'{what}: dx [mm]')
            judge_scalar(R, rw, wvl, 16 * EPS32, f'{site}:wavelength', f'{what}: wavelength [um]')
            # the loaded object saved again: the header (spacing, wavelength, sizes) must be the one first written,
            # the samples may move by the one count the int32 truncation allows
            site3 = 'Interferogram.zygo_dat:load-save'
            if R.call(i2.save_zygo_dat, p3, sig=f'{site3}:write:exception') is FAILED:
                return
            same_file(R, _bytes(p1), _bytes(p3), fmt, f'{site3}:header-differs' + (':dx-zero' if dx == 0 else ''),
                      what + ' (file written from the loaded Interferogram vs the first file)', header_only=True)
            i3 = R.call(Interferogram.from_zygo_dat, p3, sig=f'{site3}:read:exception')
            if i3 is FAILED:
                return
            judge_map(R, getattr(i3, 'data', None), a, 2 * tol, site3, what + ' (second generation)')
            judge_scalar(R, getattr(i3, 'dx', None), dx, 16 * EPS32, f'{site3}:dx' + (':zero' if dx == 0 else ''), f'{what}: dx [mm], second generation')
        else:
            site = 'codev_gridint:write-twice'
            for p in (p1, p2):
                if R.call(io.write_codev_gridint, a_in, p, sig=f'{site}:write:exception') is FAILED:
                    return
                unchanged(R, a_in, a, 'codev_gridint:write:caller-array-modified', what)
            same_file(R, _bytes(p1), _bytes(p2), fmt, f'{site}:second-file-differs', what)
            out = R.call(io.read_codev_gridint, p2, sig=f'{site}:read:exception:{shape_class(shape)}')
            if out is FAILED:
                return
            try:
                b, meta = out
            except Exception as e:   # noqa
                R.violation(f'{site}:type', f'{what}: reader result is not (array, meta) ({type(e).__name__}: {e})')
                return
            judge_map(R, b, a, tol, site, what + ' (second file)')
        R.nontrivial(True)
        R.outcome('write-twice')
    finally:
        shutil.rmtree(tmp, ignore_errors=True)


# ---------------------------------------------------------------------------------------------
# truncation

def _write(R, fmt, path, a, dx, wvl, site):
    if fmt == 'zygo':
        return R.call(io.write_zygo_dat, path, a.copy(), dx, wavelength=wvl, sig=f'{site}:write:exception')
    return R.call(io.write_codev_gridint, a.copy(), path, sig=f'{site}:write:exception')


def _reader(name):
    if name == 'zygo':
        return lambda p: io.read_zygo_dat(p)['phase']
    if name == 'ifg':
        return lambda p: Interferogram.from_zygo_dat(p).data
    return lambda p: io.read_codev_gridint(p)[0]


def split_file(fmt, raw, N):
    """(offset of the data block, end position of every sample inside the block, decoded sample values) by an
    independent reading of the file; None when the file does not have the layout of the format."""
    if fmt == 'zygo':
        off = ZYGO_HEADER
        if len(raw) != off + 4 * N:
            return None
        words = np.frombuffer(raw[off:], dtype='>i4').astype(float)
        ends = [4 * (k + 1) for k in range(N)]
        return off, ends, words
    try:
        txt = raw.decode('ascii')
    except UnicodeDecodeError:
        return None
    p1 = txt.find('\n')
    p2 = txt.find('\n', p1 + 1)
    if p1 < 0 or p2 < 0:
        return None
    hdr = txt[p1 + 1:p2].split()
    if 'GRD' not in hdr or 'SSZ' not in hdr:
        return None
    ssz = float(hdr[hdr.index('SSZ') + 1])
    off = p2 + 1
    toks = list(re.finditer(r'[-+]?\d+', txt[off:]))
    if len(toks) != N or txt[off:].strip(' \n0123456789+-') != '':
        return None
    ends = [t.end() for t in toks]
    vals = np.array([int(t.group()) for t in toks], dtype=float) / ssz
    return off, ends, vals


def run_trunc(case, seed, R):
    shape = tuple(case['shape'])
    rd = case['reader']
    fmt = 'codev' if rd == 'codev' else 'zygo'
    rname = {'zygo': 'read_zygo_dat', 'ifg': 'Interferogram.from_zygo_dat', 'codev': 'read_codev_gridint'}[rd]
    site = f'{rname}:truncated'
    dx, wvl = case['dx'], case['wvl']
    N = shape[0] * shape[1]
    a = make_map(shape, case['v'], case['nan'], fmt, wvl, seed)
    probe = make_map(shape, 'mixed', 'none', fmt, wvl, seed)
    read = _reader(rd)
    tmp = tempfile.mkdtemp(prefix='verif-c14-', dir='/tmp')
    try:
        ext = '.dat' if fmt == 'zygo' else '.int'
        pfile, ffile, tfile = (os.path.join(tmp, n + ext) for n in ('probe', 'full', 'cut'))
        # 1. where does each file sample land in the output?  (probe file, unique values, read in full)
        if _write(R, fmt, pfile, probe, dx, wvl, site) is FAILED:
            return
        P = R.call(read, pfile, sig=f'{site}:full-read:exception')
        if P is FAILED:
            return
        with open(pfile, 'rb') as f:
            sp = split_file(fmt, f.read(), N)
        try:
            P = np.array(P, dtype=float)
        except Exception:   # noqa
            P = np.zeros(0)
        if sp is None or P.size != N or not np.all(np.isfinite(P)) or len(np.unique(P)) != N or len(np.unique(sp[2])) != N:
            R.violation(f'{site}:layout-probe', f'{shape}: a probe file of {N} distinct samples is not read back as '
                                                f'{N} distinct finite samples, or the file does not have the format\'s layout')
            return
        q_of_k = np.empty(N, int)      # output flat index of file sample k
        q_of_k[np.argsort(sp[2], kind='stable')] = np.argsort(P.ravel(), kind='stable')
        # 2. the file under test, its full read
        if _write(R, fmt, ffile, a, dx, wvl, site) is FAILED:
            return
        F = R.call(read, ffile, sig=f'{site}:full-read:exception')
        if F is FAILED:
            return
        with open(ffile, 'rb') as f:
            raw = f.read()
        sp = split_file(fmt, raw, N)
        try:
            F = np.array(F, dtype=float)
        except Exception:   # noqa
            F = np.zeros(0)
        if sp is None or F.size != N:
            R.violation(f'{site}:layout-probe', f'{shape}: written file does not have the format\'s layout, or its '
                                                f'full read has {F.size} samples instead of {N}')
            return
        off, ends, _ = sp
        L = len(raw) - off
        ends = np.asarray(ends)
        if fmt == 'codev':
            txt = raw[off:].decode('ascii')
            toks = list(re.finditer(r'[-+]?\d+', txt))
            last_start = toks[-1].start()
        else:
            last_start = ends[-1] - 4
        bad = collections.OrderedDict()     # sig -> list of (cut, detail)
        classes = collections.Counter()
        for c in range(L):                  # keep c bytes / characters of the data block
            with open(tfile, 'wb') as f:
                f.write(raw[:off + c])
            R.tick()
            with warnings.catch_warnings(record=True) as wlist:
                warnings.simplefilter('always')
                try:
                    T = read(tfile)
                except Exception:   # noqa -- rejected: fine
                    classes['exception'] += 1
                    continue
            R.checks += 1
            warned = any(not issubclass(w.category, ResourceWarning) for w in wlist)
            complete = ends <= c
            nmiss = int(np.count_nonzero(~complete))
            if fmt == 'codev':
                # inside-last-token: some but not all characters of the final number survive (the format has no length
                # field); leaves-only-whitespace: no digit of any sample survives
                where = 'inside-last-token' if (nmiss == 1 and last_start < c) else \
                        'leaves-only-whitespace' if (nmiss == N and raw[off:off + c].strip() == b'') else 'inside-inner-token'
            else:
                where = 'inside-last-sample' if nmiss == 1 else 'inside-inner-sample'
            try:
                T = np.array(T, dtype=float)
            except Exception:   # noqa
                T = np.zeros(0)
            R.observe(T)
            if T.shape != F.shape:
                classes['VIOLATION:returned-other-shape'] += 1
                bad.setdefault(f'{site}:shape', []).append((c, f'shape {T.shape} vs untruncated {F.shape}'))
                continue
            Tf, Ff = T.ravel(), F.ravel()
            qc, qm = q_of_k[complete], q_of_k[~complete]
            same = bool(np.array_equal(Tf[qc], Ff[qc], equal_nan=True))
            marked = bool(np.all(np.isnan(Tf[qm])))
            if nmiss == 0:
                if same:
                    classes['returned:nothing-missing'] += 1
                else:
                    classes['VIOLATION:complete-sample-changed'] += 1
                    bad.setdefault(f'{site}:complete-sample-changed', []).append((c, 'only trailing white space removed, yet the values changed'))
                continue
            if warned and marked and same:
                classes['returned:warned+marked'] += 1
                continue
            if not marked:
                k = int(np.flatnonzero(~complete)[np.flatnonzero(~np.isnan(Tf[qm]))[0]])
                kind = 'silent' if not warned else 'warned-but-not-marked'
                sig = f'{rname}:cut-{where}' if not warned else f'{site}:incomplete-sample-not-invalid'
                classes[f'VIOLATION:{kind}:full-size-plausible-array:cut-{where}'] += 1
                bad.setdefault(sig, []).append(
                    (c, f'file sample {k} incomplete but read as {Tf[q_of_k[k]]!r} (untruncated {Ff[q_of_k[k]]!r}), '
                        f'{"no warning" if not warned else "warning given"}'))
            elif not same:
                classes['VIOLATION:complete-sample-changed'] += 1
                bad.setdefault(f'{site}:complete-sample-changed', []).append((c, f'read {_fmt(T)} untruncated {_fmt(F)}'))
            else:
                classes['VIOLATION:marked-without-warning'] += 1
                bad.setdefault(f'{site}:no-warning', []).append((c, 'missing samples are NaN but no warning was issued'))
        for sig, lst in bad.items():
            R.violation(sig, f'{rd} {shape} {case["v"]}/{case["nan"]}: data block of {L} '
                             f'{"bytes" if fmt == "zygo" else "characters"}; {len(lst)} cut(s) '
                             f'{[c for c, _ in lst][:12]}: ' + '; '.join(f'keep {c}: {d}' for c, d in lst[:4]))
        for k, v in classes.items():
            R.outcome('cut:' + k)
            _TALLY[(rd, k)] += v
        _TALLY[(rd, 'files')] += 1
        _TALLY[(rd, 'cuts')] += L
        R.nontrivial(L > 0)
    finally:
        shutil.rmtree(tmp, ignore_errors=True)


# ---------------------------------------------------------------------------------------------
# plan

def _cells(shapes, vclasses, nanpats):
    for shape in shapes:
        for v in vclasses:
            for pat in nanpats:
                if nan_mask(shape, pat) is None:
                    continue
                yield shape, v, pat


def plan(tier, seed):
    shapes = SHAPES + SHAPES_MORE + (SHAPES_THOROUGH if tier == 'thorough' else [])
    zy, ifg, cv = [], [], []
    for shape, v, pat in _cells(shapes, VCLASSES, NANPATS):
        for wvl in WVLS:
            zero = tier == 'thorough' or wvl == WVLS[0]       # quick: the dx = 0 forms with one wavelength only
            for dx in DXS + (DXS_ZERO if zero else []):
                zy.append({'writer': 'zygo', 'shape': list(shape), 'v': v, 'nan': pat, 'dx': dx, 'wvl': wvl})
            for dx in DXS + (DXS_ZERO + ['default'] if zero else []):
                ifg.append({'writer': 'ifg', 'shape': list(shape), 'v': v, 'nan': pat, 'dx': dx, 'wvl': wvl})
    for shape, v, pat in _cells(shapes, VCLASSES_CV, NANPATS):
        for typ in ('SUR', 'WFR'):
            for nnb in (0, 1):
                cv.append({'writer': 'codev', 'shape': list(shape), 'v': v, 'nan': pat, 'typ': typ, 'nnb': nnb, 'comment': 'default'})
        for comment in ('', 'map 7 of lot B'):
            cv.append({'writer': 'codev', 'shape': list(shape), 'v': v, 'nan': pat, 'typ': 'SUR', 'nnb': 0, 'comment': comment})
    tw2 = []
    for shape, v, pat in _cells(SHAPES, VCLASSES_CV, NANPATS):
        if v not in SAGS:
            for dx in (0.5, 0):
                tw2.append({'writer': 'zygo', 'shape': list(shape), 'v': v, 'nan': pat, 'dx': dx, 'wvl': 0.6328})
                tw2.append({'writer': 'ifg', 'shape': list(shape), 'v': v, 'nan': pat, 'dx': dx, 'wvl': 0.6328})
        tw2.append({'writer': 'codev', 'shape': list(shape), 'v': v, 'nan': pat})
    if tier == 'quick':
        tshapes, tv, tn, tw = SHAPES, ['mixed', 'pos', 'zero', 'outlier'], ['none', 'corner', 'checker', 'allbut1'], [0.6328]
    else:
        tshapes, tv, tn, tw = SHAPES + [(4, 5), (2, 10)], VCLASSES, NANPATS, WVLS
    tz, ti, tc = [], [], []
    for shape, v, pat in _cells(tshapes, tv, tn):
        for wvl in tw:
            tz.append({'reader': 'zygo', 'shape': list(shape), 'v': v, 'nan': pat, 'dx': 0.5, 'wvl': wvl})
            ti.append({'reader': 'ifg', 'shape': list(shape), 'v': v, 'nan': pat, 'dx': 0.5, 'wvl': wvl})
        tc.append({'reader': 'codev', 'shape': list(shape), 'v': v, 'nan': pat, 'dx': 0.5, 'wvl': 1.0})
    sh = f'shapes {[tuple(s) for s in shapes]}'
    cells = (f'{sh} x value classes {VCLASSES} (a C-order ramp with the largest sample marking corner [0,0]; seeded amplitude) '
             f'x NaN patterns {NANPATS} (degenerate shape/pattern pairs dropped)')
    return [
        ScopeUnit('rt_zygo', zy, run_roundtrip,
                  f'{cells} x dx {DXS + DXS_ZERO} (0 = uncalibrated, must come back exactly 0) x wavelength {WVLS}: io.write_zygo_dat -> io.read_zygo_dat; the array passed in must be bit-identical after the write; shape, orientation, NaN set, '
                  '|a-b| <= wavelength/32768 (+4 eps32 |a|), dx and wavelength at float32 precision; non-trivial unless the map is all-zero without NaN',
                  reset=_reset),
        ScopeUnit('rt_interferogram', ifg, run_roundtrip,
                  f'same cells x dx {DXS + DXS_ZERO + ["default (omitted)"]} x wavelength through Interferogram(...).save_zygo_dat -> Interferogram.from_zygo_dat (.data, .dx, .wavelength); '
                  'the array handed to the constructor and .data of the saved object must be unchanged by the save',
                  reset=_reset),
        ScopeUnit('rt_codev', cv, run_roundtrip,
                  f'{cells} plus large-sag classes {SAGS} nm (value alphabet, positive bowl) x typ {{SUR,WFR}} x nnb {{F,T}} plus comment {{"", custom}}: io.write_codev_gridint -> io.read_codev_gridint; '
                  '|a-b| <= max|a|/32767', reset=_reset),
        ScopeUnit('hist_write_twice', tw2, run_twice,
                  f'histories of depth 2-4 on one object: shapes {SHAPES} x value classes x NaN patterns x dx {{0.5, 0}} x writer {{write_zygo_dat, Interferogram, write_codev_gridint}}: '
                  'write, write the SAME array / Interferogram again, read the second file: the second file equals the first byte for byte (Zygo timestamp field apart), '
                  'the caller\'s array / .data / .dx are unchanged after each write, the second file reads back as the pristine map; Interferogram additionally '
                  'load -> save -> load: header identical to the first file, dx kept (0 stays 0), map within 2 steps', reset=_reset),
        ScopeUnit('trunc_zygo', tz, run_trunc,
                  f'files of <= 20 samples: shapes {[tuple(s) for s in tshapes]} x {tv} x {tn} x wavelength {tw}; EVERY byte cut of the int32 block '
                  '(keep 0..4N-1 bytes) through io.read_zygo_dat: exception, or warning + incomplete samples NaN + complete samples equal to the untruncated read',
                  reset=_reset),
        ScopeUnit('trunc_interferogram', ti, run_trunc,
                  'the same files and cuts through Interferogram.from_zygo_dat', reset=_reset),
        ScopeUnit('trunc_codev', tc, run_trunc,
                  f'files of <= 20 samples: shapes {[tuple(s) for s in tshapes]} x {tv} x {tn}; EVERY character cut of the text block after the GRD header line '
                  'through io.read_codev_gridint; same outcome classes; a cut that only removes trailing white space must return the unchanged map',
                  reset=_reset),
    ]


if __name__ == '__main__':
    # exact per-cut outcome table (the explorer's histogram counts files in which a class occurs)
    import sys
    from mc import Recorder
    tier = sys.argv[1] if len(sys.argv) > 1 else 'quick'
    seed = int(os.environ.get('VERIF_SEED', '0') or 0)
    for u in plan(tier, seed):
        if u.name.startswith('trunc_'):
            for c in u.cases:
                _reset()
                run_trunc(c, seed, Recorder())
    rows = sorted(_TALLY.items())
    for (rd, k), v in rows:
        print(f'{rd:6s} {k:55s} {v}')
