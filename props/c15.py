"""C15 -- image formation obeys the convolution theorem; the MTF is a valid MTF.

Reference models (all written here, none calls prysm):

* ``conv``: the cyclic convolution with the origin at sample n//2 of every axis,
  (a * b)[x] = sum_y a[y] b[x - y + o]  (indices mod n).  ``conv`` is bilinear, so its action on
  ALL pairs of unit impulses decides it for every pair of real arrays of that shape:
  delta_p * delta_q = delta_{p+q-o}.
* ``apply_transfer_functions``: out = Re F^-1 ( T . F obj ) with explicit DFT matrices, where T is the
  product of the transfer functions laid out in the *stated* convention (shift=True: zero frequency at
  n//2, grid (arange(n)-n//2)/(n dx); shift=False: zero frequency at [0,0], grid fftfreq).  The map is
  linear in obj, so its operator matrix over every unit impulse is compared.
* MTF/PTF/OTF: OTF[k] = sum_x psf[x] exp(-2 pi i (k-o)(x-o)/n) / sum psf by explicit DFT matrices.
"""
import functools
import itertools

import numpy as np

from scipy import special as _special     # reference jinc only

from mc import ScopeUnit, FAILED
from mc.linalg import deltas, dense
from mc.state import reset_executors

from prysm import convolution, otf, degredations, objects, detector
from prysm._richdata import RichData
from prysm.conf import config

ID = 'C15'
ASSUMPTIONS = [
    'apply_transfer_functions clauses other than "all-ones == identity" are judged modulo the output permutation the '
    'implementation shows for the all-ones transfer function in the same (shape, convention); that permutation itself is '
    'reported by the identity clause (one defect, one signature)',
    'transfer-function callables are represented by ten analytic functions of (fx), (fy), (fr), (ft), (fy,fx), (fr,ft), '
    '(fx,fy,fr,ft), a functools.partial and a bound method; frequency grids use dx=0.5 (implicit) and 0.25 (explicit)',
    'the library transfer functions jitter_ft, smear_ft, pixel_ft, olpf_ft, pinhole_ft are judged against their closed forms '
    '(gaussian, sinc products, cosine product, j1(x)/x from scipy.special) written here; slit_ft, whose closed form is not part of '
    'the property, is represented in a product by what it returns on its own, freshly built grids',
    'radiometric scale alphabets are decimal powers between 1e-100 and 1e100 (quick) / 1e-300 and 1e300 (thorough); the reference '
    'is evaluated on the unscaled float64 data (the laws are homogeneous) and tolerances scale with the data',
]

EPS = np.finfo(float).eps


def par(n):
    return 'odd' if n % 2 else 'even'


def pp(shape):
    return 'x'.join(par(n) for n in shape)


# ---------------------------------------------------------------------------------------------
# conv

def delta(shape, k):
    d = np.zeros(int(np.prod(shape)))
    d[k] = 1.0
    return d.reshape(shape)


def ref_conv(a, b):
    """Brute-force cyclic convolution, origin at n//2."""
    n0, n1 = a.shape
    o0, o1 = n0 // 2, n1 // 2
    out = np.zeros(a.shape)
    for y0 in range(n0):
        for y1 in range(n1):
            # b'[x] = b[x - y + o]
            out += a[y0, y1] * np.roll(b, (y0 - o0, y1 - o1), axis=(0, 1))
    return out


def run_conv_basis(case, seed, R):
    n0, n1, p = case['n0'], case['n1'], case['p']
    shape = (n0, n1)
    N = n0 * n1
    o0, o1 = n0 // 2, n1 // 2
    pi, pj = divmod(p, n1)
    sig = f'conv:basis:{pp(shape)}'
    for q in range(N):
        qi, qj = divmod(q, n1)
        want = np.zeros(shape)
        want[(pi + qi - o0) % n0, (pj + qj - o1) % n1] = 1.0
        got = R.call(convolution.conv, delta(shape, p), delta(shape, q))
        R.expect_close(got, want, 256 * EPS, sig, f'conv(delta{(pi, pj)}, delta{(qi, qj)}) in {shape}')
        if got is not FAILED:
            R.expect(np.asarray(got).dtype.kind == 'f', 'conv:dtype', f'conv of real arrays returned dtype {np.asarray(got).dtype}')
    R.nontrivial(N > 1)
    R.outcome('basis')


def run_conv_dense(case, seed, R):
    n0, n1, salt = case['n0'], case['n1'], case['salt']
    shape = (n0, n1)
    N = n0 * n1
    o = (n0 // 2, n1 // 2)
    a = dense(shape, seed, 3 * salt, complex_=False)
    b = dense(shape, seed, 3 * salt + 1, complex_=False)
    c = dense(shape, seed, 3 * salt + 2, complex_=False)
    n2 = lambda x: float(np.sqrt((x ** 2).sum()))   # noqa
    tol = 200 * EPS * n2(a) * n2(b)
    s = pp(shape)
    ab = R.call(convolution.conv, a.copy(), b.copy())
    R.expect_close(ab, ref_conv(a, b), tol, f'conv:dense:{s}', f'conv(a,b) vs brute-force cyclic sum, {shape}')
    ba = R.call(convolution.conv, b.copy(), a.copy())
    R.expect_close(ba, ref_conv(a, b), tol, f'conv:commutative:{s}', 'conv(b,a) vs brute-force a*b')
    if ab is not FAILED and ba is not FAILED and np.asarray(ab).shape == shape == np.asarray(ba).shape:
        R.expect_close(ab, np.asarray(ba), tol, f'conv:commutative:{s}', 'conv(a,b) != conv(b,a)')
    # linearity in each argument
    al, be = 1.5, -0.75
    cb = R.call(convolution.conv, c.copy(), b.copy())
    lin = R.call(convolution.conv, al * a + be * c, b.copy())
    if ab is not FAILED and cb is not FAILED and np.asarray(ab).shape == shape == np.asarray(cb).shape:
        R.expect_close(lin, al * np.asarray(ab) + be * np.asarray(cb), 2 * (tol + 200 * EPS * n2(c) * n2(b)),
                       f'conv:linear:{s}', 'conv(al*a+be*c, b) != al*conv(a,b)+be*conv(c,b)')
    lin2 = R.call(convolution.conv, b.copy(), al * a + be * c)
    R.expect_close(lin2, al * ref_conv(b, a) + be * ref_conv(b, c), 2 * (tol + 200 * EPS * n2(c) * n2(b)),
                   f'conv:linear:{s}', 'conv(b, al*a+be*c) vs reference')
    # impulse identity and translation, every impulse position, both argument orders
    tola = 200 * EPS * n2(a)
    for p in range(N):
        pi, pj = divmod(p, n1)
        want = np.roll(a, (pi - o[0], pj - o[1]), axis=(0, 1))
        sg = f'conv:impulse-identity:{s}' if (pi, pj) == o else f'conv:translation:{s}'
        got = R.call(convolution.conv, a.copy(), delta(shape, p))
        R.expect_close(got, want, tola, sg, f'conv(a, delta{(pi, pj)}) must be a translated by {(pi - o[0], pj - o[1])}')
        got = R.call(convolution.conv, delta(shape, p), a.copy())
        R.expect_close(got, want, tola, sg, f'conv(delta{(pi, pj)}, a) must be a translated by {(pi - o[0], pj - o[1])}')
    # structured operands (data-dependent shortcuts: "the PSF is symmetric, so its transfer function is real", "the object is binary",
    # "the kernel is separable"): every mirror pair delta_p + delta_flip(p) (symmetric under the 180-degree flip of the ARRAY, which is a
    # symmetry about (N-1)/2, not about the origin sample N//2), boxes, the all-ones array, a flip-symmetric ramp, each in both orders
    structured = []
    for p in range(N):
        h = delta(shape, p) + delta(shape, N - 1 - p)
        structured.append((f'mirror-pair{divmod(p, n1)}', h))
    box = np.zeros(shape)
    box[max(o[0] - 1, 0):o[0] + 1, max(o[1] - 1, 0):o[1] + 1] = 1.0
    ii, jj = np.indices(shape)
    sym = 1.0 + np.minimum(ii, n0 - 1 - ii) + 2.0 * np.minimum(jj, n1 - 1 - jj)
    structured += [('box', box), ('ones', np.ones(shape)), ('flip-symmetric', sym), ('outer', np.outer(np.arange(1, n0 + 1.0), np.arange(1, n1 + 1.0)))]
    for label, h in structured:
        tolh = 200 * EPS * n2(a) * max(n2(h), 1.0)
        got = R.call(convolution.conv, a.copy(), h.copy(), hygiene=False)
        R.expect_close(got, ref_conv(a, h), tolh, f'conv:structured-psf:{s}', f'conv(a, {label}) vs brute-force cyclic sum, {shape}')
        got = R.call(convolution.conv, h.copy(), a.copy(), hygiene=False)
        R.expect_close(got, ref_conv(h, a), tolh, f'conv:structured-object:{s}', f'conv({label}, a) vs brute-force cyclic sum, {shape}')
    # total energies multiply
    if ab is not FAILED and np.asarray(ab).shape == shape:
        R.expect_close(np.asarray(ab).sum(), a.sum() * b.sum(), 200 * EPS * np.abs(a).sum() * np.abs(b).sum(),
                       f'conv:energy:{s}', 'sum(conv(a,b)) != sum(a)*sum(b)')
    # non-negative pair (object and PSF are intensities)
    an, bn = np.abs(a), np.abs(b)
    got = R.call(convolution.conv, an, bn)
    if R.expect_close(got, ref_conv(an, bn), tol, f'conv:dense:{s}', 'conv of non-negative pair'):
        R.expect_close(np.asarray(got).sum(), an.sum() * bn.sum(), 200 * EPS * an.sum() * bn.sum(), f'conv:energy:{s}', 'energy product (non-negative)')
    R.nontrivial(True)
    R.outcome('dense')



# object dtype alphabet: masks (bool), camera counts (uint8/uint16/int32), float32 -- PSF stays floating point
OBJ_DTYPES = {'float64': 1.5, 'float32': 1.5, 'bool': True, 'uint8': 255, 'uint16': 65535, 'int32': -70001}


def dense_as(shape, seed, salt, dt):
    g = np.abs(dense(shape, seed, salt, complex_=False))
    if dt == 'bool':
        m = g > 0.6
        m.flat[0] = True
        return m
    if dt.startswith('float'):
        return g.astype(dt)
    top = {'uint8': 255, 'uint16': 65535, 'int32': 2 ** 31 - 1}[dt]
    a = np.minimum(np.floor(g / g.max() * top), top).astype(dt)
    if dt == 'int32':
        a.flat[::2] *= -1
    return a


def run_conv_dtype(case, seed, R):
    n0, n1, dt = case['n0'], case['n1'], case['dtype']
    shape = (n0, n1)
    N = n0 * n1
    sig = f'conv:dtype:{dt}'
    n2 = lambda x: float(np.sqrt((np.asarray(x, dtype=float) ** 2).sum()))   # noqa
    for hdt in ('float64', 'float32'):
        h = (np.abs(dense(shape, seed, 40, complex_=False)) * 0.37 + 0.01).astype(hdt)
        eps = np.finfo(np.float32).eps if 'float32' in (dt, hdt) else EPS
        h64 = h.astype(float)
        objs = []
        if hdt == 'float64':
            for p in range(N):
                d = np.zeros(shape, dtype=dt)
                d.flat[p] = OBJ_DTYPES[dt]
                objs.append((d, f'impulse {divmod(p, n1)} of dtype {dt}'))
        objs.append((dense_as(shape, seed, 41, dt), f'dense {dt} object'))
        for o, label in objs:
            o64 = o.astype(float)
            tol = 400 * eps * max(n2(o64) * n2(h64), 1e-300)
            want = ref_conv(o64, h64)
            got = R.call(convolution.conv, o, h)
            R.expect_close(got, want, tol, sig, f'conv({label}, {hdt} PSF) in {shape} vs float64 reference')
            got = R.call(convolution.conv, h, o)
            R.expect_close(got, want, tol, sig, f'conv({hdt} PSF, {label}) in {shape} vs float64 reference')
    R.nontrivial(N > 1)
    R.outcome(dt)

# ---------------------------------------------------------------------------------------------
# apply_transfer_functions

DX_IMPLICIT = 0.5     # handed as dx when fx, fy are omitted
DX_EXPLICIT = 0.25    # spacing of explicitly given grids (dx=0.5 is still passed and must be ignored)


def freq_axis(n, d, shifted):
    f = (np.arange(n) - n // 2) / (n * d)
    return f if shifted else np.roll(f, -(n // 2))


def _pix(fx, fy, wx, wy):
    return np.sinc(fx * wx) * np.sinc(fy * wy)


class _Blur:
    def __init__(self, a):
        self.a = a

    def tf(self, fr):
        return np.exp(-self.a * fr ** 2) * (1 + 0j)


# name -> (callable handed to the implementation, names of the grids it must be evaluated on)
CALLABLES = {
    'c_fx': (lambda fx: 1 / (1 + fx ** 2) + 0.5j * fx, ('fx',)),
    'c_fy': (lambda fy: np.exp(-fy ** 2) - 0.25j * fy, ('fy',)),
    'c_fr': (lambda fr: 1 / (1 + 2 * fr), ('fr',)),
    'c_ft': (lambda ft: 1 + 0.5 * np.cos(ft) + 0.25j * np.sin(ft), ('ft',)),
    'c_fyfx': (lambda fy, fx: 1 + 0.3 * fx * fy + 0.2j * (fx - 2 * fy), ('fy', 'fx')),
    'c_frft': (lambda fr, ft: np.exp(-fr) * (1 + 0.3 * np.cos(ft - 0.4)), ('fr', 'ft')),
    'c_all': (lambda fx, fy, fr, ft: (1 + 0.1 * fx) * (1 - 0.2 * fy) + 0.1j * fr * np.sin(ft), ('fx', 'fy', 'fr', 'ft')),
    'c_partial': (functools.partial(_pix, wx=0.7, wy=1.3), ('fx', 'fy')),
    'c_method': (_Blur(0.8).tf, ('fr',)),
}
ARRAYS = ('ones', 'real', 'herm')
POOL = ARRAYS + tuple(CALLABLES)


def tf_array(name, shape, seed, shifted):
    """Array transfer function laid out in the case's convention."""
    n0, n1 = shape
    if name == 'ones':
        return np.ones(shape)
    if name == 'real':
        return dense(shape, seed, 11, complex_=False)
    if name == 'herm':
        # Hermitian about the zero-frequency sample of the convention: spectrum of a real array
        k = dense(shape, seed, 12, complex_=False)
        H = np.fft.fft2(k) / max(1.0, np.abs(k).sum())      # zero frequency at [0,0]
        return np.roll(H, (n0 // 2, n1 // 2), axis=(0, 1)) if shifted else H
    raise KeyError(name)


def ref_grids(shape, d, shifted):
    n0, n1 = shape
    fx = freq_axis(n1, d, shifted)[None, :]
    fy = freq_axis(n0, d, shifted)[:, None]
    return {'fx': fx, 'fy': fy, 'fr': np.hypot(fx, fy), 'ft': np.arctan2(fy, fx)}


_F = {}


def dft2(shape):
    if shape not in _F:
        n0, n1 = shape
        W0 = np.exp(-2j * np.pi * (np.outer(np.arange(n0), np.arange(n0)) % n0) / n0)
        W1 = np.exp(-2j * np.pi * (np.outer(np.arange(n1), np.arange(n1)) % n1) / n1)
        _F[shape] = np.kron(W0, W1)
    return _F[shape]


def ref_operator(T_conv, shape, shifted):
    """Real operator matrix of obj -> Re F^-1 (T . F obj); T given in the case's convention."""
    n0, n1 = shape
    T = np.broadcast_to(T_conv, shape)
    if shifted:
        T = np.roll(T, (-(n0 // 2), -(n1 // 2)), axis=(0, 1))
    F = dft2(shape)
    return ((F.conj().T / (n0 * n1)) @ (T.reshape(-1, 1) * F)).real


def impl_operator(R, shape, call, sig):
    cols = []
    for d in deltas(shape):
        out = R.call(call, d, sig=sig + ':exception')
        if out is FAILED:
            return None
        try:
            out = np.asarray(out)
            ok = out.shape == shape and out.dtype.kind == 'f'
        except Exception:   # noqa
            ok = False
        if not ok:
            R.violation(sig, f'output is not a real array of shape {shape}: {getattr(out, "shape", None)} {getattr(out, "dtype", type(out))}')
            return None
        cols.append(out.ravel())
    return np.stack(cols, axis=1)


def as_perm(A, tol):
    """A if it is (to tol) a permutation matrix, else None."""
    B = np.rint(A)
    if np.abs(A - B).max() <= tol and np.all(B.sum(0) == 1) and np.all(B.sum(1) == 1) and np.all((B == 0) | (B == 1)):
        return B
    return None


def run_atf(case, seed, R):
    n0, n1, names, shifted, fxmode = case['n0'], case['n1'], case['tfs'], case['shift'], case['grid']
    form = case.get('flag', 'bool')      # how the shift flag is spelled: a truthy / falsy non-bool must mean the same
    flag = {'bool': shifted, 'np.bool_': np.bool_(shifted), 'int': int(shifted)}[form]
    shape = (n0, n1)
    N = n0 * n1
    conv = ('shift' if shifted else 'noshift') + ('' if form == 'bool' else f'[flag={form}]')
    # grids handed to the implementation, and the spacing the reference must use
    if fxmode == 'omitted':
        d = DX_IMPLICIT
        kw = {}
    else:
        d = DX_EXPLICIT
        fx1, fy1 = freq_axis(n1, d, shifted), freq_axis(n0, d, shifted)
        if fxmode == '2d':
            fx2, fy2 = np.meshgrid(fx1, fy1)
            kw = {'fx': fx2, 'fy': fy2}
        else:
            kw = {'fx': fx1, 'fy': fy1}
    G = ref_grids(shape, d, shifted)
    tfs, evald = [], []
    for nm in names:
        if nm in CALLABLES:
            f, args = CALLABLES[nm]
            tfs.append(f)
            evald.append(np.broadcast_to(f(*[G[a] for a in args]), shape))
        else:
            t = tf_array(nm, shape, seed, shifted)
            tfs.append(t)
            evald.append(t)
    Tprod = np.ones(shape, dtype=complex)
    for t in evald:
        Tprod = Tprod * t
    has_call = any(nm in CALLABLES for nm in names)
    identity = all(nm == 'ones' for nm in names)
    if identity:
        sig = f'atf:{conv}:identity'
    elif has_call:
        polar = any(a in ('fr', 'ft') for nm in names if nm in CALLABLES for a in CALLABLES[nm][1])
        sig = f'atf:{conv}:callable:{fxmode}:{"polar" if polar else "cart"}'
    elif len(names) == 2:
        sig = f'atf:{conv}:list'
    else:
        sig = f'atf:{conv}:array'

    seq = case.get('seq', 'list')        # the container of the transfer functions: any generator-free sequence must mean the same
    box = {'list': list, 'tuple': tuple, 'stack': lambda t: np.stack([np.asarray(x) for x in t])}[seq]
    if seq != 'list':
        conv += f'[tfs={seq}]'
        sig = f'atf:{conv}:container'

    def call(o, tfl=tfs):
        return convolution.apply_transfer_functions(o, DX_IMPLICIT, box(tfl), shift=flag, **kw)

    amp = float(np.prod([max(1.0, float(np.abs(t).max())) for t in evald])) if evald else 1.0
    tol = 500 * EPS * amp
    A = impl_operator(R, shape, call, sig)
    if A is None:
        R.outcome('failed')
        return
    Aref = ref_operator(Tprod, shape, shifted)
    P = None
    if identity:
        R.expect_close(A, np.eye(N), tol, sig, f'all-ones transfer function list {names} is not the identity, shape {shape} shift={shifted}')
    else:
        err = np.abs(A - Aref).max()
        if err > tol:
            # judge modulo the permutation the implementation applies for the all-ones TF (reported by the identity cases)
            Aid = impl_operator(R, shape, lambda o: convolution.apply_transfer_functions(o, DX_IMPLICIT, [np.ones(shape)], shift=flag), sig)
            P = as_perm(Aid, tol) if Aid is not None else None
            if P is not None and np.array_equal(P, np.eye(N)):
                P = None
        want = Aref if P is None else P @ Aref
        R.expect_close(A, want, tol, sig,
                       f'operator of apply_transfer_functions({names}, shift={shifted}, grid={fxmode}) on {shape} vs DFT reference')
    # dense object: linear superposition, list == product (implementation against itself and against the reference)
    o = dense(shape, seed, 5, complex_=False)
    otol = tol * float(np.abs(o).sum())
    # every array handed over explicitly, so that the call-hygiene layer sees object, transfer functions and grids
    got = R.call(convolution.apply_transfer_functions, o.copy(), DX_IMPLICIT, box(tfs), shift=flag, sig=sig + ':exception', **kw)
    want = (np.eye(N) if identity else (Aref if P is None else P @ Aref)) @ o.ravel()
    R.expect_close(got, want.reshape(shape), otol, sig, f'dense object through {names}, shift={shifted}, grid={fxmode}, {shape}')
    if len(names) == 2:
        one = R.call(call, o.copy(), [Tprod], sig=sig + ':exception')
        sg = sig if (has_call or identity) else f'atf:{conv}:list-product'
        if one is not FAILED and np.asarray(one).shape == shape:
            R.expect_close(got, np.asarray(one), 2 * otol, sg, f'list {names} != its product as one array, shift={shifted}, {shape}')
    R.nontrivial(N > 1 and len(names) > 0)
    R.outcome(('identity' if identity else 'callable' if has_call else 'array') + ':' + conv)


# ---------------------------------------------------------------------------------------------
# argument forms: how dx is spelled, what dtype the object has -- with CALLABLE transfer functions and no user grids

DX_FORMS = {'int1': 1, 'int2': 2, 'float': 0.5, 'np.float32': np.float32(0.5), 'np.int64': np.int64(2),
            'np.uint8': np.uint8(2), 'np.uint64': np.uint64(2), '0d-float': np.array(0.5), '0d-int': np.array(2)}
DX_FORMS_FULL = ('int1', 'int2', 'float', 'np.float32', 'np.int64')              # crossed with every list of FORM_LISTS
DX_FORMS_MORE = ('np.uint8', 'np.uint64', '0d-float', '0d-int')                  # unsigned scalars, 0-d arrays: crossed with FORM_LISTS_FEW
FORM_LISTS_FEW = [['c_fx'], ['c_fr'], ['c_all'], ['c_fr', 'c_ft']]
FORM_LISTS = [[nm] for nm in CALLABLES] + [['c_fx', 'c_fy'], ['c_fr', 'c_ft'], ['c_all', 'herm'], ['real', 'c_fyfx']]


def run_atf_forms(case, seed, R):
    n0, n1, names, shifted, dxf, dt = case['n0'], case['n1'], case['tfs'], case['shift'], case['dx'], case['dtype']
    shape = (n0, n1)
    N = n0 * n1
    dx = DX_FORMS[dxf]
    G = ref_grids(shape, float(dx), shifted)
    tfs, evald = [], []
    for nm in names:
        if nm in CALLABLES:
            f, args = CALLABLES[nm]
            tfs.append(f)
            evald.append(np.broadcast_to(f(*[G[a] for a in args]), shape))
        else:
            t = tf_array(nm, shape, seed, shifted)
            tfs.append(t)
            evald.append(t)
    Tprod = np.ones(shape, dtype=complex)
    for t in evald:
        Tprod = Tprod * t
    Aref = ref_operator(Tprod, shape, shifted)
    amp = float(np.prod([max(1.0, float(np.abs(t).max())) for t in evald]))
    # a float32 object or a float32 dx legitimately gives single-precision spectra / frequency grids
    eps = float(np.finfo(np.float32).eps) if (dt == 'float32' or dxf == 'np.float32') else EPS
    conv = 'shift' if shifted else 'noshift'
    sig = f'atf:{conv}:callable:dx={dxf}' if dt == 'float64' else f'atf:{conv}:callable:obj={dt}'
    objs = []
    for p in sorted({0, N - 1, (n0 // 2) * n1 + n1 // 2}):
        d = np.zeros(shape, dtype=dt)
        d.flat[p] = OBJ_DTYPES[dt]
        objs.append((d, f'impulse {divmod(p, n1)}'))
    objs.append((dense_as(shape, seed, 70, dt), 'dense'))
    for o, label in objs:
        o64 = o.astype(float)
        tol = 500 * eps * amp * max(float(np.abs(o64).sum()), 1e-300)
        want = (Aref @ o64.ravel()).reshape(shape)
        got = R.call(convolution.apply_transfer_functions, o, dx, list(tfs), shift=shifted, sig=sig + ':exception')
        R.expect_close(got, want, tol, sig, f'{dt} {label} through callables {names}, dx={dx!r} ({dxf}), shift={shifted}, {shape} vs DFT reference on the grid of the stated convention')
        one = R.call(convolution.apply_transfer_functions, o, dx, [Tprod], shift=shifted, sig=sig + ':exception')
        if got is not FAILED and one is not FAILED and np.asarray(one).shape == shape == np.asarray(got).shape:
            R.expect_close(got, np.asarray(one), 2 * tol, sig, f'list {names} != the same product handed in as one array ({dt} {label}, dx={dxf})')
    R.nontrivial(N > 1)
    R.outcome(f'{dxf}:{dt}')


# ---------------------------------------------------------------------------------------------
# the library's own transfer functions, curried with functools.partial as the docstring of apply_transfer_functions says,
# in lists of every order: one callable must not disturb the grids the next one reads

def _ref_jinc(x):
    x = np.asarray(x, dtype=float)
    small = np.abs(x) < 1e-8
    safe = np.where(small, 1.0, x)
    return np.where(small, 0.5, _special.j1(safe) / safe)


def _b(G, a, b):
    """broadcast sum of two grids (zero-weighted) so that a separable reference has the full shape"""
    return 0 * G[a] + 0 * G[b]


# name -> (callable handed over, grids it reads, closed form on the reference grids or None = evaluate it alone on fresh grids)
LIBRARY = {
    'jitter.4': (functools.partial(degredations.jitter_ft, scale=0.4), ('fr',), lambda G: np.exp(-2 * (np.pi * 0.4 * G['fr']) ** 2)),
    'jitter.7': (functools.partial(degredations.jitter_ft, scale=0.7), ('fr',), lambda G: np.exp(-2 * (np.pi * 0.7 * G['fr']) ** 2)),
    'smear': (functools.partial(degredations.smear_ft, width=0.7, height=1.3), ('fx', 'fy'), lambda G: np.sinc(0.7 * G['fx']) * np.sinc(1.3 * G['fy'])),
    'smear_x': (functools.partial(degredations.smear_ft, width=0.9, height=0), ('fx', 'fy'), lambda G: np.sinc(0.9 * G['fx']) + _b(G, 'fx', 'fy')),
    'pixel': (functools.partial(detector.pixel_ft, width_x=0.6, width_y=1.1), ('fx', 'fy'), lambda G: np.sinc(0.6 * G['fx']) * np.sinc(1.1 * G['fy'])),
    'olpf': (functools.partial(detector.olpf_ft, width_x=0.3, width_y=0.45), ('fx', 'fy'), lambda G: np.cos(0.6 * G['fx']) * np.cos(0.9 * G['fy'])),
    'pinhole': (functools.partial(objects.pinhole_ft, 0.6), ('fr',), lambda G: _ref_jinc(2 * np.pi * 0.6 * G['fr'])),
    'slit': (functools.partial(objects.slit_ft, 0.8, 1.1), ('fx', 'fy'), None),
}
# user callables reading each grid on its own (to see a grid disturbed by the entry before them) and one array
LIB_READERS = ('c_fx', 'c_fy', 'c_fr', 'c_ft', 'herm')
LIB_POOL = tuple(LIBRARY) + LIB_READERS
LIB_TRIPLES = (('jitter.4', 'pinhole', 'c_fr'), ('smear', 'pixel', 'c_fx'))
LIB_TRIPLES_THOROUGH = (('jitter.7', 'c_frft', 'jitter.4'), ('olpf', 'slit', 'c_fy'), ('smear_x', 'jitter.4', 'c_all'))


def resolve_tf(nm, shape, seed, shifted, G):
    """-> (what is handed to the implementation, its value on the reference grids, the grids it reads)."""
    if nm in CALLABLES:
        f, args = CALLABLES[nm]
        return f, np.broadcast_to(f(*[G[a].copy() for a in args]), shape), args
    if nm in LIBRARY:
        f, args, ref = LIBRARY[nm]
        val = ref(G) if ref is not None else f(**{a: G[a].copy() for a in args})
        return f, np.broadcast_to(np.asarray(val), shape), args
    t = tf_array(nm, shape, seed, shifted)
    return t, t, ()


def run_atf_lib(case, seed, R):
    prec = case['precision']
    config.precision = prec
    try:
        _run_atf_lib(case, seed, R)
    finally:
        config.precision = 64


def _run_atf_lib(case, seed, R):
    n0, n1, names, shifted, fxmode, prec = case['n0'], case['n1'], case['tfs'], case['shift'], case['grid'], case['precision']
    shape = (n0, n1)
    N = n0 * n1
    conv = 'shift' if shifted else 'noshift'
    if fxmode == 'omitted':
        d = DX_IMPLICIT
        kw = {}
    else:
        d = DX_EXPLICIT
        fx1, fy1 = freq_axis(n1, d, shifted), freq_axis(n0, d, shifted)
        if fxmode == '2d':
            fx2, fy2 = np.meshgrid(fx1, fy1)
            kw = {'fx': fx2, 'fy': fy2}
        else:
            kw = {'fx': fx1, 'fy': fy1}
    G = ref_grids(shape, d, shifted)
    tfs, evald, reads = [], [], set()
    for nm in names:
        f, val, args = resolve_tf(nm, shape, seed, shifted, G)
        tfs.append(f)
        evald.append(val)
        reads |= set(args)
    Tprod = np.ones(shape, dtype=complex)
    for t in evald:
        Tprod = Tprod * t
    kind = 'polar' if reads <= {'fr', 'ft'} else 'cart' if reads <= {'fx', 'fy'} else 'mixed'
    sig = f'atf:{conv}:library:{fxmode}:{kind}' + ('' if prec == 64 else ':precision32')
    # with config.precision = 32 the implicit grids are single precision (documented); user grids stay float64
    eps = float(np.finfo(np.float32).eps) if prec == 32 else EPS
    amp = float(np.prod([max(1.0, float(np.abs(t).max())) for t in evald]))
    tol = 500 * eps * amp
    Aref = ref_operator(Tprod, shape, shifted)
    what = f'{names}, shift={shifted}, grid={fxmode}, precision={prec}, {shape}'
    o = dense(shape, seed, 5, complex_=False)
    otol = tol * float(np.abs(o).sum())
    # (the call-hygiene variants of apply_transfer_functions run in unit atf for every one of these shapes; here only the caller's
    # grids are watched: a transfer function that writes into fx / fy changes the user's arrays)
    snap = {k: v.copy() for k, v in kw.items()}
    got = R.call(convolution.apply_transfer_functions, o.copy(), DX_IMPLICIT, list(tfs), shift=shifted, sig=sig + ':exception', hygiene=False, **kw)
    for k in kw:
        R.expect(np.array_equal(kw[k], snap[k]), f'atf:{conv}:library:user-grid-mutated', f'apply_transfer_functions with {what} changed the {k} array of the caller')
    ok = R.expect_close(got, (Aref @ o.ravel()).reshape(shape), otol, sig, f'dense object through the list {what} vs explicit-DFT reference with the PRODUCT of the transfer functions, each on its own grid')
    one = R.call(convolution.apply_transfer_functions, o.copy(), DX_IMPLICIT, [Tprod], shift=shifted, sig=sig + ':exception', hygiene=False, **snap)
    if ok and one is not FAILED and np.asarray(one).shape == shape:
        R.expect_close(got, np.asarray(one), 2 * otol, sig, f'list != its product handed over as one array: {what}')
    R.nontrivial(N > 1)
    R.outcome(f'{kind}:{conv}:{len(names)}')


# the library transfer functions called directly: value against the closed form, and (hygiene layer) the caller's grids untouched
TF_DIRECT = {
    'jitter_ft': (degredations.jitter_ft, ('fr',), {'scale': 0.4}, lambda G: np.exp(-2 * (np.pi * 0.4 * G['fr']) ** 2)),
    'smear_ft': (degredations.smear_ft, ('fx', 'fy'), {'width': 0.7, 'height': 1.3}, lambda G: np.sinc(0.7 * G['fx']) * np.sinc(1.3 * G['fy'])),
    'smear_ft:x': (degredations.smear_ft, ('fx', 'fy'), {'width': 0.9, 'height': 0}, lambda G: np.sinc(0.9 * G['fx'])),
    'smear_ft:y': (degredations.smear_ft, ('fx', 'fy'), {'width': 0, 'height': 0.9}, lambda G: np.sinc(0.9 * G['fy'])),
    'pixel_ft': (detector.pixel_ft, ('fx', 'fy'), {'width_x': 0.6, 'width_y': 1.1}, lambda G: np.sinc(0.6 * G['fx']) * np.sinc(1.1 * G['fy'])),
    'olpf_ft': (detector.olpf_ft, ('fx', 'fy'), {'width_x': 0.3, 'width_y': 0.45}, lambda G: np.cos(0.6 * G['fx']) * np.cos(0.9 * G['fy'])),
    'pinhole_ft': (objects.pinhole_ft, ('fr',), {'radius': 0.6}, lambda G: _ref_jinc(2 * np.pi * 0.6 * G['fr'])),
}


def run_tf_direct(case, seed, R):
    prec = case['precision']
    config.precision = prec
    try:
        n0, n1, name, shifted, layout, dt = case['n0'], case['n1'], case['tf'], case['shift'], case['layout'], case['dtype']
        shape = (n0, n1)
        f, args, params, ref = TF_DIRECT[name]
        G = ref_grids(shape, DX_IMPLICIT, shifted)           # fx: (1, n1) row, fy: (n0, 1) column, fr / ft: full
        want = ref(G)
        if layout == 'grid':
            given = {a: np.ascontiguousarray(np.broadcast_to(G[a], shape)).astype(dt) for a in args}
        else:                                                # 'separable': broadcastable row / column, as apply_transfer_functions hands them
            given = {a: G[a].astype(dt) for a in args}
        snap = {a: v.copy() for a, v in given.items()}
        eps = float(np.finfo(np.float32).eps) if (prec == 32 or dt == 'float32') else EPS
        sig = f'{name.split(":")[0]}:value' + ('' if (prec == 64 and dt == 'float64') else ':single')
        got = R.call(f, sig=sig + ':exception', **given, **params)
        if got is not FAILED:
            try:
                full = np.broadcast_to(np.asarray(got), shape)       # a separable answer (row / column) stands for the full grid
            except Exception:   # noqa
                full = got
            # |d sinc| <= pi, |d jinc| <= 1, exponent of the gaussian <= 2 (pi 0.4 sqrt2)^2 ~ 6.3: 64 eps covers single-precision grids
            R.expect_close(full, np.broadcast_to(want, shape), 64 * eps, sig,
                           f'{name}({", ".join(args)}; {params}) on {layout} {dt} grids of {shape}, shift={shifted}, precision={prec} vs closed form')
        for a in args:
            R.expect(np.array_equal(given[a], snap[a]), f'{name.split(":")[0]}:input-mutated', f'{name} changed the {a} array it was given ({layout}, {dt}, precision={prec})')
        R.nontrivial(n0 * n1 > 1)
        R.outcome(f'{name}:{dt}:{prec}')
    finally:
        config.precision = 64


# ---------------------------------------------------------------------------------------------
# MTF / PTF / OTF

def ref_otf(psf):
    n0, n1 = psf.shape
    k0 = np.arange(n0) - n0 // 2
    k1 = np.arange(n1) - n1 // 2
    W0 = np.exp(-2j * np.pi * (np.outer(k0, k0) % n0) / n0)      # integer argument reduction keeps the reference exact to an ulp
    W1 = np.exp(-2j * np.pi * (np.outer(k1, k1) % n1) / n1)
    return (W0 @ psf @ W1.T) / psf.sum()


def check_psf(R, psf, dx, form, label, s, eps=EPS, content=None, want=None, exact_dc=True, hygiene=True):
    """content: float64 array proportional to psf on which the reference is evaluated (the laws are homogeneous); default psf itself.
    want: the reference OTF itself, where a closed form exists (sums of impulses at sizes too large for DFT matrices)"""
    shape = psf.shape
    n0, n1 = shape
    o = (n0 // 2, n1 // 2)
    if form == 'array':
        a = (psf.copy(), dx)
    else:
        a = (RichData(data=psf.copy(), dx=dx, wavelength=None),)
    m = R.call(otf.mtf_from_psf, *a, hygiene=hygiene)
    p = R.call(otf.ptf_from_psf, *a, hygiene=hygiene)
    t = R.call(otf.otf_from_psf, *a, hygiene=hygiene)
    if want is None:
        want = ref_otf(np.asarray(psf if content is None else content, dtype=float))
    tol = 256 * eps * max(1.0, max(shape) / 16)
    M = P = T = None
    if m is not FAILED:
        M = getattr(m, 'data', None)
        if R.expect_close(M, np.abs(want), tol, f'mtf:value:{s}', f'MTF of {label} ({form})'):
            M = np.asarray(M)
            R.expect(M.dtype.kind == 'f', 'mtf:dtype', f'MTF dtype {M.dtype}')
            R.expect(M[o] == 1.0, f'mtf:dc:{s}', f'MTF at zero frequency is {M[o]!r}, not 1, for {label}')
            R.expect(M.max() <= 1 + tol, f'mtf:le1:{s}', f'MTF exceeds 1: max={M.max()!r} for {label}')
            # point symmetry about the origin sample (cyclic: every sample has its partner)
            i0 = (2 * o[0] - np.arange(n0)) % n0
            i1 = (2 * o[1] - np.arange(n1)) % n1
            R.expect_close(M, M[np.ix_(i0, i1)], tol, f'mtf:symmetry:{s}', f'MTF[o+k] != MTF[o-k] for {label}')
        else:
            M = None
    if t is not FAILED:
        T = getattr(t, 'data', None)
        if R.expect_close(T, want, tol, f'otf:value:{s}', f'OTF of {label} ({form})'):
            T = np.asarray(T)   # (complex x/x is not exactly 1 in floating point; the DC value is covered by the comparison above)
        else:
            T = None
    if p is not FAILED:
        P = getattr(p, 'data', None)
        try:
            P = np.asarray(P)
            okp = P.shape == shape and P.dtype.kind == 'f' and bool(np.all(np.abs(P) <= np.pi))
        except Exception:   # noqa
            okp = False
        if R.expect(okp, f'ptf:range:{s}', f'PTF is not a real array of {shape} within [-pi, pi] (radians) for {label}'):
            R.expect_close(np.abs(want) * np.exp(1j * P), want, tol, f'ptf:value:{s}', f'|OTF_ref| exp(i PTF) vs OTF_ref for {label} ({form})')
            # (x/x of a complex DC sample with a rounding-sized imaginary part, as Bluestein-length FFTs leave it, is 1 only to an ulp)
            R.expect(P[o] == 0.0 if exact_dc else abs(P[o]) <= tol, f'ptf:dc:{s}', f'PTF at zero frequency is {P[o]!r}')
        else:
            P = None
    if M is not None and P is not None and T is not None:
        R.expect_close(M * np.exp(1j * P), T, tol, f'otf:consistency:{s}', f'OTF != MTF exp(i PTF) for {label}')


OTF_FNS = {'mtf': otf.mtf_from_psf, 'ptf': otf.ptf_from_psf, 'otf': otf.otf_from_psf}


def judge_otf(R, name, res, content, sig, what):
    """Compare the RichData returned by <name>_from_psf with the reference for the array CONTENT given."""
    if res is FAILED:
        return
    want = ref_otf(content)
    tol = 256 * EPS
    D = getattr(res, 'data', None)
    if name == 'mtf':
        R.expect_close(D, np.abs(want), tol, sig, what)
    elif name == 'otf':
        R.expect_close(D, want, tol, sig, what)
    else:
        try:
            P = np.asarray(D, dtype=float)
            ok = P.shape == content.shape
        except Exception:   # noqa
            ok = False
        if R.expect(ok, sig, what + ': PTF is not a real array of the PSF shape'):
            R.expect_close(np.abs(want) * np.exp(1j * P), want, tol, sig, what)


def run_mtf_reuse(case, seed, R):
    """History of length 2-3 on ONE buffer: compute, overwrite the same ndarray in place, compute again."""
    n0, n1, f1, f2, form, kind = case['n0'], case['n1'], case['first'], case['second'], case['form'], case['kind']
    shape = (n0, n1)
    dx = 0.5
    A = np.abs(dense(shape, seed, 50, complex_=False)) + 0.05
    B = np.abs(dense(shape, seed, 51, complex_=False)) + 0.05
    B[n0 // 2, n1 // 2] += 1.0
    buf = A.copy()
    arg = (buf, dx) if form == 'array' else (RichData(data=buf, dx=dx, wavelength=None),)
    r1 = R.call(OTF_FNS[f1], *arg, hygiene=False)
    judge_otf(R, f1, r1, A, f'{f1}:value:{pp(shape)}', f'{f1}_from_psf on a fresh buffer ({form})')
    if kind == 'interleaved':
        other = B.copy()
        r = R.call(OTF_FNS[f1], other, dx, hygiene=False)
        judge_otf(R, f1, r, B, f'{f1}:value:{pp(shape)}', f'{f1}_from_psf on a second array')
    if kind == 'unmodified':
        content = A
    elif kind == 'pedestal':
        buf -= buf.min()           # the caller's pedestal subtraction, in place
        content = buf.copy()
    elif kind == 'roll':
        buf[...] = np.roll(A, (1, 1), axis=(0, 1))
        content = buf.copy()
    else:                          # 'assign', 'interleaved': the next frame is written into the same buffer
        buf[...] = B
        content = B
    r2 = R.call(OTF_FNS[f2], *arg, hygiene=False)
    judge_otf(R, f2, r2, content, f'{f2}_from_psf:reused-buffer:{kind}',
              f'{f1}_from_psf(buf) ; {kind} in place ; {f2}_from_psf(buf) must answer for the CURRENT contents ({form}, {shape})')
    R.nontrivial(True)
    R.outcome(kind)



def run_mtf(case, seed, R):
    n0, n1, kind = case['n0'], case['n1'], case['kind']
    shape = (n0, n1)
    N = n0 * n1
    s = pp(shape)
    dx = 0.5
    if kind == 'single':
        for k in range(N):
            for form in ('array', 'richdata'):
                check_psf(R, 2.5 * delta(shape, k), dx, form, f'delta{divmod(k, n1)} in {shape}', s)
    elif kind == 'pair':
        p = case['p']
        for q in range(p + 1, N):
            for w in (1.0, 3.0):
                psf = delta(shape, p) + w * delta(shape, q)
                check_psf(R, psf, dx, 'array', f'delta{divmod(p, n1)} + {w}*delta{divmod(q, n1)} in {shape}', s)
    else:
        psf = np.abs(dense(shape, seed, 20 + case['salt'], complex_=False))
        if case['salt'] == 2:
            psf[psf < 0.8] = 0.0          # sparse non-negative
            psf[n0 // 2, n1 // 2] += 0.5  # never identically zero
        for form in ('array', 'richdata'):
            check_psf(R, psf, dx, form, f'dense non-negative (salt {case["salt"]}) {shape}', s)
        # dx is required for bare arrays (documented ValueError)
        try:
            otf.mtf_from_psf(psf)
            R.violation('mtf:dx-none', 'mtf_from_psf(array) without dx did not raise')
        except ValueError:
            pass
        except Exception as e:   # noqa
            R.violation('mtf:dx-none', f'mtf_from_psf(array) without dx raised {type(e).__name__}, documented ValueError')
        R.tick()
    R.nontrivial(N > 1)
    R.outcome(kind)


# ---------------------------------------------------------------------------------------------
# threshold sizes (fast-length / padding fast paths): NOT closed over the data dimension

LARGE_N = (11, 12, 13, 16, 17, 19, 23, 26, 31, 32, 33, 34, 37, 64, 65)
LARGE_2D = ((13, 17), (16, 13), (26, 8))


def large_shapes():
    out = []
    for n in LARGE_N:
        out += [(n, 1), (1, n), (n, 3)]
    return out + list(LARGE_2D)


def run_conv_large(case, seed, R):
    n0, n1 = case['n0'], case['n1']
    shape = (n0, n1)
    o0, o1 = n0 // 2, n1 // 2
    sig = f'conv:large:{pp(shape)}'
    corners = {(0, 0), (0, n1 - 1), (n0 - 1, 0), (n0 - 1, n1 - 1)}
    ps = sorted(corners | {(o0, o1), ((o0 + 1) % n0, (o1 + 1) % n1), (n0 - 1, o1), (o0, n1 - 1)})
    # second impulse: offsets +1 and +n//2 from the origin (so that the sum wraps around the border), corners, last sample
    qs = sorted(corners | {(o0, o1), ((o0 + 1) % n0, (o1 + 1) % n1), ((o0 + n0 // 2) % n0, (o1 + n1 // 2) % n1), ((o0 + 1) % n0, o1), (o0, (o1 + 1) % n1)})
    for p in ps:
        for q in qs:
            want = np.zeros(shape)
            want[(p[0] + q[0] - o0) % n0, (p[1] + q[1] - o1) % n1] = 1.0
            got = R.call(convolution.conv, delta(shape, p[0] * n1 + p[1]), delta(shape, q[0] * n1 + q[1]))
            R.expect_close(got, want, 1024 * EPS, sig + ':impulses', f'conv(delta{p}, delta{q}) in {shape}: cyclic translation law')
    a = dense(shape, seed, 60, complex_=False)
    b = dense(shape, seed, 61, complex_=False)
    n2 = lambda x: float(np.sqrt((x ** 2).sum()))   # noqa
    tol = 400 * EPS * n2(a) * n2(b)
    ab = R.call(convolution.conv, a.copy(), b.copy())
    if R.expect_close(ab, ref_conv(a, b), tol, sig + ':dense', f'dense pair vs brute-force circular convolution, {shape}'):
        R.expect_close(np.asarray(ab).sum(), a.sum() * b.sum(), 400 * EPS * np.abs(a).sum() * np.abs(b).sum(), sig + ':energy', 'sum(conv(a,b)) != sum(a) sum(b)')
    an, bn = np.abs(a), np.abs(b)
    got = R.call(convolution.conv, an, bn)
    if R.expect_close(got, ref_conv(an, bn), tol, sig + ':dense', 'non-negative dense pair'):
        R.expect_close(np.asarray(got).sum(), an.sum() * bn.sum(), 400 * EPS * an.sum() * bn.sum(), sig + ':energy', 'energy product (non-negative)')
    for q in qs:
        want = np.roll(a, (q[0] - o0, q[1] - o1), axis=(0, 1))
        got = R.call(convolution.conv, a.copy(), delta(shape, q[0] * n1 + q[1]))
        R.expect_close(got, want, 400 * EPS * n2(a), sig + ':translation', f'conv(a, delta{q}) must be a rolled by {(q[0] - o0, q[1] - o1)}')
    R.nontrivial(True)
    R.outcome('large')


def run_mtf_large(case, seed, R):
    n0, n1 = case['n0'], case['n1']
    shape = (n0, n1)
    s = 'large:' + pp(shape)
    for k in sorted({0, n1 - 1, (n0 - 1) * n1, n0 * n1 - 1, (n0 // 2) * n1 + n1 // 2}):
        check_psf(R, delta(shape, k), 0.5, 'array', f'delta{divmod(k, n1)} in {shape}', s)
    psf = delta(shape, 0) + 3.0 * delta(shape, n0 * n1 - 1)
    check_psf(R, psf, 0.5, 'array', f'corner pair in {shape}', s)
    psf = np.abs(dense(shape, seed, 62, complex_=False))
    for form in ('array', 'richdata'):
        check_psf(R, psf, 0.5, form, f'dense non-negative {shape}', s)
    R.nontrivial(True)
    R.outcome('large')


# ---------------------------------------------------------------------------------------------
# blocking thresholds: element counts just above a power of two (work split in blocks of 2^7 .. 2^20 and the tail dropped).
# NOT closed over the data dimension.  References are O(N): sums of weighted impulses have closed forms for every law.

def threshold_shapes(tier):
    out = []
    for k in range(7, 17):
        for n in (2 ** k + 1, 2 ** k + 2 ** (k - 1) + 3):
            out += [(n, 1), (1, n)]
    out += [(129, 3), (3, 130), (150, 150), (181, 182), (300, 300), (257, 1030), (1030, 1025)]     # the last one has > 2^20 elements (a camera frame)
    if tier != 'quick':
        out += [(2 ** k + 1, 3) for k in range(8, 15)] + [(513, 514), (1025, 1025), (2049, 515)]
    return out


def probe_points(shape):
    """impulse positions: the corners, the origin sample and its neighbour, the last sample, one sample just past half of the buffer"""
    n0, n1 = shape
    N = n0 * n1
    ks = [0, N - 1, (n0 // 2) * n1 + n1 // 2, ((n0 // 2 + 1) % n0) * n1 + (n1 // 2 + 1) % n1, (N // 2 + 1) % N, N - 2 if N > 2 else 0]
    out = []
    for k in ks:
        if k not in out:
            out.append(k)
    return out


def otf_of_impulses(shape, pts, w):
    """closed-form OTF of sum_i w_i delta_{p_i}: sum_i w_i exp(-2 pi i ((k0-o0)(p0-o0)/n0 + (k1-o1)(p1-o1)/n1)) / sum w, exact integer phase reduction"""
    n0, n1 = shape
    k0 = np.arange(n0, dtype=np.int64) - n0 // 2
    k1 = np.arange(n1, dtype=np.int64) - n1 // 2
    acc = np.zeros(shape, dtype=complex)
    for k, wi in zip(pts, w):
        p0, p1 = divmod(k, n1)
        e0 = np.exp(-2j * np.pi * ((k0 * (p0 - n0 // 2)) % n0) / n0)
        e1 = np.exp(-2j * np.pi * ((k1 * (p1 - n1 // 2)) % n1) / n1)
        acc += wi * np.outer(e0, e1)
    return acc / float(np.sum(w))


def run_threshold(case, seed, R):
    n0, n1 = case['n0'], case['n1']
    shape = (n0, n1)
    N = n0 * n1
    o0, o1 = n0 // 2, n1 // 2
    s = 'threshold:' + pp(shape)
    pts = probe_points(shape)
    w = [1.0 + 0.5 * i for i in range(len(pts))]
    n2 = lambda x: float(np.sqrt((x ** 2).sum()))   # noqa
    a = dense(shape, seed, 90, complex_=False)
    lg = max(1.0, np.log2(N))
    # conv: a dense object with a PSF made of weighted impulses == the weighted sum of cyclic translations of the object, EVERY element
    h = np.zeros(shape)
    want = np.zeros(shape)
    for k, wi in zip(pts, w):
        p0, p1 = divmod(k, n1)
        h[p0, p1] += wi
        want += wi * np.roll(a, (p0 - o0, p1 - o1), axis=(0, 1))
    tol = 64 * lg * EPS * n2(a) * n2(h)
    small = N <= 2 ** 18          # the camera-frame sized cases are kept cheap: one call per routine, no call-hygiene variants
    got = R.call(convolution.conv, a.copy(), h.copy(), hygiene=small)
    if R.expect_close(got, want, tol, f'conv:{s}', f'conv(dense, {len(pts)} weighted impulses) vs the sum of cyclic translations, {shape}'):
        R.expect_close(np.asarray(got).sum(), a.sum() * h.sum(), 64 * lg * EPS * np.abs(a).sum() * h.sum(), f'conv:{s}:energy', 'sum(conv(a,h)) != sum(a) sum(h)')
    if small:
        got = R.call(convolution.conv, h.copy(), a.copy(), hygiene=False)
        R.expect_close(got, want, tol, f'conv:{s}', f'conv({len(pts)} weighted impulses, dense) (commuted), {shape}')
        # impulse identity on the dense object
        got = R.call(convolution.conv, a.copy(), delta(shape, o0 * n1 + o1), hygiene=False)
        R.expect_close(got, a, 64 * lg * EPS * n2(a), f'conv:{s}:identity', f'conv(a, delta at the origin sample) != a, {shape}')
    # MTF / PTF / OTF of the impulse sum (closed form) and of single impulses at the first / last sample
    check_psf(R, h, 0.5, 'array', f'{len(pts)} weighted impulses in {shape}', s, eps=EPS * lg / 4, want=otf_of_impulses(shape, pts, w), exact_dc=False, hygiene=small)
    for k in ((0, N - 1) if small else ()):
        check_psf(R, 2.0 * delta(shape, k), 0.5, 'richdata', f'2*delta{divmod(k, n1)} in {shape}', s, eps=EPS * lg / 4, want=otf_of_impulses(shape, [k], [2.0]), exact_dc=False)
    # apply_transfer_functions: impulse-sum object through [real array, callable of fr]; the spectrum of the object is the closed form above
    for shifted in ((True, False) if small else (True,)):
        G = ref_grids(shape, DX_IMPLICIT, shifted)
        T = (1 + 0.25 * np.cos(np.arange(N, dtype=float)).reshape(shape))           # real array, in the convention of the case as it is
        f, args = CALLABLES['c_fr']
        Tc = T * f(G['fr'])
        if shifted:
            # centred spectrum of the object (origin at sample n//2 in both domains) in closed form, inverted with numpy's pocketfft
            O = otf_of_impulses(shape, pts, w) * float(np.sum(w))
            spec = np.roll(Tc * O, (-o0, -o1), axis=(0, 1))
            want_img = np.roll(np.fft.ifft2(spec), (o0, o1), axis=(0, 1)).real
        else:
            # unshifted convention (origin at sample [0,0] in both domains): numpy's FFT both ways
            want_img = np.fft.ifft2(Tc * np.fft.fft2(h)).real
        conv = 'shift' if shifted else 'noshift'
        got = R.call(convolution.apply_transfer_functions, h.copy(), DX_IMPLICIT, [T, f], shift=shifted, sig=f'atf:{conv}:{s}:exception', hygiene=small)
        R.expect_close(got, want_img, 64 * lg * EPS * 1.25 * n2(h), f'atf:{conv}:{s}', f'{len(pts)} weighted impulses through [real array, callable of fr], shift={shifted}, {shape}')
        if small:
            got = R.call(convolution.apply_transfer_functions, a.copy(), DX_IMPLICIT, [np.ones(shape), np.ones(shape)], shift=shifted, sig=f'atf:{conv}:{s}:exception', hygiene=False)
            R.expect_close(got, a, 64 * lg * EPS * n2(a), f'atf:{conv}:{s}:identity', f'all-ones transfer functions are not the identity on a dense object, shift={shifted}, {shape}')
    R.nontrivial(True)
    R.outcome('threshold')


# ---------------------------------------------------------------------------------------------
# radiometric scale (the laws are homogeneous) and PSF dtype alphabets

SCALES_QUICK = (1e-100, 1e-30, 1e-20, 1e-15, 1e-8, 1e-3, 1e3, 1e8, 1e12, 1e15, 1e30, 1e100,
                # next to the special value 1 (inside / outside the rtol=1e-5, atol=1e-8 of numpy.isclose and the 1e-9 of math.isclose)
                1 - 4e-6, 1 + 7e-6, 1 - 3e-9, 1 + 6e-10, 0.9999, 1.0002)
SCALES_THOROUGH = (1e-300, 1e-200) + SCALES_QUICK + (1e200, 1e300)
SCALES_F32 = (1e-30, 1e-15, 1e-8, 1e8, 1e15, 1e30)       # inside the range of float32
CONV_SCALES = (1e-100, 1e-20, 1e-15, 1e-8, 1.0, 1e8, 1e12, 1e15, 1e100)
TF_SCALES = (1e-100, 1e-15, 1.0, 1e15, 1e100)
# shapes of every parity class and with a degenerate axis, for the grid / precision variants of unit atf_library
LIB_VARIANT_SHAPES = ((1, 2), (2, 1), (2, 2), (2, 3), (3, 2), (3, 3), (4, 5), (5, 4))


def scale_tag(c):
    return 'small' if c < 1 else 'large'


def run_mtf_scale(case, seed, R):
    n0, n1, c, dt = case['n0'], case['n1'], case['scale'], case['dtype']
    shape = (n0, n1)
    N = n0 * n1
    s = f'scale-{scale_tag(c)}:{pp(shape)}' + ('' if dt == 'float64' else f':{dt}')
    eps = EPS if dt == 'float64' else float(np.finfo(np.float32).eps)
    dx = 0.5
    # every unit impulse (|OTF| == 1 everywhere with a genuine linear phase), in the units of the scale
    for k in range(N):
        base = delta(shape, k)
        check_psf(R, (c * base).astype(dt), dx, 'array', f'{c:g} * delta{divmod(k, n1)} ({dt}) in {shape}', s, eps=eps, content=base)
    for salt in (0, 2):
        base = np.abs(dense(shape, seed, 20 + salt, complex_=False))
        if salt == 2:
            base[base < 0.8] = 0.0
            base[n0 // 2, n1 // 2] += 0.5
        # unit energy times the scale ("total energy c"), and O(1) samples times the scale
        for b, lab in ((base / base.sum(), 'unit-energy'), (base, 'O(1)')):
            psf = (c * b).astype(dt)
            for form in ('array', 'richdata'):
                check_psf(R, psf, dx, form, f'{c:g} * {lab} dense non-negative (salt {salt}, {dt}) {shape}', s, eps=eps, content=b)
    R.nontrivial(N > 1)
    R.outcome(f'{scale_tag(c)}:{dt}')


PSF_DTYPES = ('float32', 'bool', 'uint8', 'uint16', 'int32', 'int64', 'uint64')


def run_mtf_dtype(case, seed, R):
    n0, n1, dt = case['n0'], case['n1'], case['dtype']
    shape = (n0, n1)
    N = n0 * n1
    s = f'dtype-{dt}:{pp(shape)}'
    eps = float(np.finfo(np.float32).eps) if dt == 'float32' else EPS
    top = {'float32': 1.5, 'bool': True, 'uint8': 255, 'uint16': 65535, 'int32': 2 ** 31 - 1, 'int64': 2 ** 40, 'uint64': 2 ** 40}[dt]
    for k in range(N):
        d = np.zeros(shape, dtype=dt)
        d.flat[k] = top
        check_psf(R, d, 0.5, 'array', f'impulse {divmod(k, n1)} of dtype {dt} in {shape}', s, eps=eps)
    g = np.abs(dense(shape, seed, 24, complex_=False))
    if dt == 'bool':
        psf = g > 0.6
        psf.flat[0] = True
    elif dt == 'float32':
        psf = g.astype(dt)
    else:
        psf = np.floor(g / g.max() * min(top, 65535)).astype(dt)      # camera counts
        psf.flat[N - 1] = max(int(psf.flat[N - 1]), 1)
    for form in ('array', 'richdata'):
        check_psf(R, psf, 0.5, form, f'dense non-negative {dt} frame {shape}', s, eps=eps)
    R.nontrivial(N > 1)
    R.outcome(dt)


def run_conv_scale(case, seed, R):
    n0, n1, ca, cb = case['n0'], case['n1'], case['obj'], case['psf']
    shape = (n0, n1)
    N = n0 * n1
    o = (n0 // 2, n1 // 2)
    a0 = dense(shape, seed, 80, complex_=False)
    b0 = np.abs(dense(shape, seed, 81, complex_=False))
    b0 /= b0.sum()                                            # PSF of unit energy, in the units of its scale
    n2 = lambda x: float(np.sqrt((x ** 2).sum()))   # noqa
    cc = ca * cb
    sig = f'conv:scale:{"equal" if ca == cb else "obj>psf" if ca > cb else "obj<psf"}'
    a, b = ca * a0, cb * b0
    tol = 200 * EPS * n2(a0) * n2(b0) * cc
    want = ref_conv(a0, b0) * cc
    ab = R.call(convolution.conv, a.copy(), b.copy())
    if R.expect_close(ab, want, tol, sig, f'conv({ca:g}*a, {cb:g}*h) vs {cc:g} * brute-force cyclic sum of the O(1) pair, {shape}'):
        R.expect_close(np.asarray(ab).sum(), cc * (a0.sum() * b0.sum()), 200 * EPS * cc * np.abs(a0).sum() * np.abs(b0).sum(), sig, 'energy product of the scaled pair')
    ba = R.call(convolution.conv, b.copy(), a.copy(), hygiene=False)
    R.expect_close(ba, want, tol, sig, f'conv({cb:g}*h, {ca:g}*a) (commuted) vs reference, {shape}')
    # scaled impulse at the origin / at the last sample: identity and translation in the units of the data
    for p in sorted({o[0] * n1 + o[1], N - 1}):
        pi, pj = divmod(p, n1)
        got = R.call(convolution.conv, a.copy(), cb * delta(shape, p), hygiene=False)
        R.expect_close(got, cc * np.roll(a0, (pi - o[0], pj - o[1]), axis=(0, 1)), 200 * EPS * n2(a0) * cc, sig,
                       f'conv({ca:g}*a, {cb:g}*delta{(pi, pj)}) must be {cc:g} * a translated by {(pi - o[0], pj - o[1])}, {shape}')
    R.nontrivial(True)
    R.outcome(sig)


ATF_SCALE_LISTS = (['herm'], ['c_fr'], ['real', 'c_fx'], ['jitter.4', 'pixel'])


def run_atf_scale(case, seed, R):
    n0, n1, names, shifted, co, ct = case['n0'], case['n1'], case['tfs'], case['shift'], case['obj'], case['tf']
    shape = (n0, n1)
    N = n0 * n1
    conv = 'shift' if shifted else 'noshift'
    G = ref_grids(shape, DX_IMPLICIT, shifted)
    tfs, evald = [], []
    for i, nm in enumerate(names):
        f, val, _ = resolve_tf(nm, shape, seed, shifted, G)
        if i == 0 and not callable(f):
            f = ct * f                                       # the transfer-function ARRAY carries the scale ct (the map is bilinear)
        tfs.append(f)
        evald.append(val)
    scaled_tf = not callable(tfs[0])
    Tprod = np.ones(shape, dtype=complex)
    for t in evald:
        Tprod = Tprod * t
    Aref = ref_operator(Tprod, shape, shifted)
    cc = co * (ct if scaled_tf else 1.0)
    sig = f'atf:{conv}:scale'
    amp = float(np.prod([max(1.0, float(np.abs(t).max())) for t in evald]))
    o0 = dense(shape, seed, 5, complex_=False)
    tol = 500 * EPS * amp * float(np.abs(o0).sum()) * cc
    got = R.call(convolution.apply_transfer_functions, co * o0, DX_IMPLICIT, list(tfs), shift=shifted, sig=sig + ':exception', hygiene=False)
    R.expect_close(got, cc * (Aref @ o0.ravel()).reshape(shape), tol, sig,
                   f'{co:g} * dense object through {names} (array scaled by {ct if scaled_tf else 1:g}), shift={shifted}, {shape} vs {cc:g} * reference of the O(1) data')
    got = R.call(convolution.apply_transfer_functions, co * delta(shape, N - 1), DX_IMPLICIT, list(tfs), shift=shifted, sig=sig + ':exception', hygiene=False)
    R.expect_close(got, cc * Aref[:, N - 1].reshape(shape), 500 * EPS * amp * cc, sig, f'{co:g} * last unit impulse through {names}, shift={shifted}, {shape}')
    R.nontrivial(N > 1)
    R.outcome(f'{scale_tag(co)}:{conv}')


# ---------------------------------------------------------------------------------------------

def plan(tier, seed):
    B = 5 if tier == 'quick' else 7
    shapes = sorted(itertools.product(range(1, B + 1), repeat=2), key=lambda s: (s[0] * s[1], s))
    basis_cases = [{'n0': a, 'n1': b, 'p': p} for a, b in shapes for p in range(a * b)]
    dense_cases = [{'n0': a, 'n1': b, 'salt': k} for a, b in shapes for k in (0, 1)]
    lists = [[]] + [[a] for a in POOL] + [[a, b] for a in POOL for b in POOL]
    atf_cases = [{'n0': a, 'n1': b, 'tfs': l, 'shift': sh, 'grid': g}
                 for a, b in shapes for l in lists for sh in (True, False) for g in ('omitted', '2d', '1d')]
    flag_cases = [{'n0': a, 'n1': b, 'tfs': l, 'shift': sh, 'grid': g, 'flag': fl}
                  for a, b in shapes for l in lists if len(l) <= 1 for sh in (True, False) for g in ('omitted', '2d', '1d') for fl in ('np.bool_', 'int')]
    dtype_cases = [{'n0': a, 'n1': b, 'dtype': dt} for a, b in shapes for dt in OBJ_DTYPES]
    reuse_cases = [{'n0': a, 'n1': b, 'first': f1, 'second': f2, 'form': fm, 'kind': k}
                   for a, b in shapes if a * b > 1 for f1 in OTF_FNS for f2 in OTF_FNS for fm in ('array', 'richdata')
                   for k in ('unmodified', 'assign', 'pedestal', 'roll', 'interleaved')]
    big = large_shapes()
    large_cases = [{'n0': a, 'n1': b} for a, b in big]
    atf_large_cases = [{'n0': a, 'n1': b, 'tfs': l, 'shift': sh, 'grid': 'omitted'} for a, b in big
                       for l in (['ones'], ['herm'], ['c_fr'], ['real', 'c_fx']) for sh in (True, False)]
    # dx forms on float64 objects, object dtypes with dx = python int 2 and float: the two alphabets are crossed with every list, shape, convention
    form_cases = [{'n0': a, 'n1': b, 'tfs': l, 'shift': sh, 'dx': dxf, 'dtype': dt} for a, b in shapes for l in FORM_LISTS for sh in (True, False)
                  for dxf, dt in [(d, 'float64') for d in DX_FORMS_FULL] + [(d, t) for d in ('int2', 'float') for t in OBJ_DTYPES if t != 'float64']]
    form_cases += [{'n0': a, 'n1': b, 'tfs': l, 'shift': sh, 'dx': dxf, 'dtype': 'float64'} for a, b in shapes for l in FORM_LISTS_FEW for sh in (True, False) for dxf in DX_FORMS_MORE]
    # the container of the transfer functions: tuple (any list of length <= 1, three pairs), 3-D ndarray stack (arrays only)
    seq_pairs = [['c_fx', 'c_fy'], ['real', 'herm'], ['c_all', 'herm']]
    flag_cases += [{'n0': a, 'n1': b, 'tfs': l, 'shift': sh, 'grid': 'omitted', 'seq': 'tuple'}
                   for a, b in shapes for l in [x for x in lists if len(x) <= 1] + seq_pairs for sh in (True, False)]
    flag_cases += [{'n0': a, 'n1': b, 'tfs': l, 'shift': sh, 'grid': 'omitted', 'seq': 'stack'}
                   for a, b in shapes for l in [[x] for x in ARRAYS] + [['real', 'herm'], ['ones', 'ones']] for sh in (True, False)]
    # library transfer functions: every single entry and EVERY ordered pair of the pool, a few triples in every order
    triples = LIB_TRIPLES + (LIB_TRIPLES_THOROUGH if tier != 'quick' else ())
    lib_lists = [[a] for a in LIB_POOL] + [[a, b] for a in LIB_POOL for b in LIB_POOL] + [list(t) for tr in triples for t in itertools.permutations(tr)]
    lib_lists = [l for l in lib_lists if any(nm in LIBRARY for nm in l)]
    lib_cases = [{'n0': a, 'n1': b, 'tfs': l, 'shift': sh, 'grid': 'omitted', 'precision': 64} for a, b in shapes for l in lib_lists for sh in (True, False)]
    lib_cases += [{'n0': a, 'n1': b, 'tfs': l, 'shift': sh, 'grid': g, 'precision': pr}
                  for a, b in (LIB_VARIANT_SHAPES if tier == 'quick' else shapes) for l in lib_lists
                  for sh in (True, False) for g, pr in (('2d', 64), ('1d', 64), ('omitted', 32))]
    direct_cases = [{'n0': a, 'n1': b, 'tf': nm, 'shift': sh, 'layout': lay, 'dtype': dt, 'precision': pr}
                    for a, b in shapes for nm in TF_DIRECT for sh in (True, False) for lay in ('grid', 'separable')
                    for dt, pr in (('float64', 64), ('float32', 64), ('float64', 32), ('float32', 32))]
    scales = SCALES_QUICK if tier == 'quick' else SCALES_THOROUGH
    mtf_scale_cases = [{'n0': a, 'n1': b, 'scale': c, 'dtype': 'float64'} for a, b in shapes for c in scales]
    mtf_scale_cases += [{'n0': a, 'n1': b, 'scale': c, 'dtype': 'float32'} for a, b in shapes for c in SCALES_F32]
    mtf_dtype_cases = [{'n0': a, 'n1': b, 'dtype': dt} for a, b in shapes for dt in PSF_DTYPES]
    conv_scale_cases = [{'n0': a, 'n1': b, 'obj': ca, 'psf': cb} for a, b in shapes for ca in CONV_SCALES for cb in CONV_SCALES if (ca, cb) != (1.0, 1.0)]
    atf_scale_cases = [{'n0': a, 'n1': b, 'tfs': l, 'shift': sh, 'obj': co, 'tf': ct}
                       for a, b in shapes for l in ATF_SCALE_LISTS for sh in (True, False) for co in CONV_SCALES
                       for ct in (TF_SCALES if l[0] in ARRAYS else (1.0,)) if (co, ct) != (1.0, 1.0)]
    mtf_cases = [{'n0': a, 'n1': b, 'kind': 'single'} for a, b in shapes]
    mtf_cases += [{'n0': a, 'n1': b, 'kind': 'pair', 'p': p} for a, b in shapes for p in range(a * b - 1)]
    mtf_cases += [{'n0': a, 'n1': b, 'kind': 'dense', 'salt': k} for a, b in shapes for k in (0, 1, 2)]
    return [
        ScopeUnit('conv_basis', basis_cases, run_conv_basis,
                  f'every shape in [1..{B}]^2 (odd/even, non-square) x EVERY ordered pair of unit impulses (one case per first impulse): '
                  'conv(delta_p, delta_q) == delta_(p+q-o) cyclically with o = n//2 per axis; conv is bilinear, so this is complete for the shape'),
        ScopeUnit('conv_dense', dense_cases, run_conv_dense,
                  f'every shape in [1..{B}]^2 x two seeded dense real triples: brute-force cyclic sum, commutativity, linearity in both arguments, '
                  'impulse identity and translation for EVERY impulse position in both argument orders, energy product, a non-negative pair'),
        ScopeUnit('conv_dtype', dtype_cases, run_conv_dtype,
                  f'every shape in [1..{B}]^2 x object dtype {{float64, float32, bool, uint8, uint16, int32}} (masks, camera counts) x PSF {{float64, float32}}: EVERY unit impulse of that dtype '
                  '(at the top of its range, negative for int32) and one dense object, in both argument orders, against the float64 brute-force reference (eps of float32 where a float32 array takes part)'),
        ScopeUnit('atf', atf_cases, run_atf,
                  f'every shape in [1..{B}]^2 x ALL lists of length <= 2 from the pool {{ones, real, complex Hermitian, callables of (fx),(fy),(fr),(ft),'
                  '(fy,fx),(fr,ft),(fx,fy,fr,ft), functools.partial(fx,fy), bound method(fr)}} x shift {True,False} x grids {omitted, 2-D, 1-D}: '
                  'operator matrix over every unit impulse vs explicit-DFT reference with the TFs evaluated on the grid of the stated convention; '
                  'all-ones/empty list == identity; dense object; list == product (implementation against itself)'),
        ScopeUnit('atf_flag_forms', flag_cases, run_atf,
                  f'every shape in [1..{B}]^2 x ALL lists of length <= 1 from the pool x grids x the shift flag spelled np.bool_(True/False) and 1/0: judged exactly like shift=True/False; '
                  'and the transfer functions handed over in a tuple (every list of length <= 1, pairs [c_fx,c_fy],[real,herm],[c_all,herm]) or as a 3-D ndarray stack (arrays only: singles, [real,herm],[ones,ones]) '
                  'x shift, grids omitted: judged exactly like the list'),
        ScopeUnit('atf_forms', form_cases, run_atf_forms,
                  f'callable transfer functions without user grids: every shape in [1..{B}]^2 x lists {{every single callable of (fx),(fy),(fr),(ft),(fy,fx),(fr,ft),(fx,fy,fr,ft), partial, method; 4 mixed pairs}} x shift x '
                  '(dx spelled as python int 1, 2, float 0.5, np.float32(0.5), np.int64(2) with float64 objects; dx spelled np.uint8(2), np.uint64(2), 0-d arrays array(0.5), array(2) with the lists [c_fx],[c_fr],[c_all],[c_fr,c_ft]; object dtype {bool, uint8, uint16, int32, float32} with dx in {2, 0.5}): corner / centre / last impulses and one dense object of that dtype; '
                  'oracle: explicit-DFT reference with the callables evaluated on the grid of the stated convention, and list == the same product as one array'),
        ScopeUnit('mtf', mtf_cases, run_mtf,
                  f'every shape in [1..{B}]^2: PSF = EVERY unit impulse (array and RichData form), EVERY pair of impulses with weights {{1,3}}, '
                  'three seeded dense / sparse non-negative arrays: MTF==|OTF_ref|, MTF[o]==1 exactly, MTF<=1+256eps, cyclic point symmetry, '
                  'OTF==reference, PTF in radians consistent with the reference phase, OTF==MTF*exp(i*PTF)'),
        ScopeUnit('mtf_reuse', reuse_cases, run_mtf_reuse,
                  f'histories on ONE ndarray, every shape in [2..{B}]-sized grids x ordered pair (first, second) in {{mtf,ptf,otf}}^2 x form {{array, RichData wrapping the array}} x '
                  '{unmodified, next frame assigned in place, pedestal subtracted in place, rolled in place, another array transformed in between then assigned}: '
                  'the second call must answer for the CURRENT contents of the buffer (fresh explicit-DFT reference)'),
        ScopeUnit('atf_library', lib_cases, run_atf_lib,
                  f'the library\'s own transfer functions curried with functools.partial (jitter_ft at two scales, smear_ft with both / one width, pixel_ft, olpf_ft, pinhole_ft, slit_ft) together with '
                  f'user callables reading fx, fy, fr, ft on their own and one Hermitian array: every shape in [1..{B}]^2 x EVERY single entry and EVERY ORDERED PAIR of that pool of {len(LIB_POOL)} that contains a library function, '
                  f'plus every order of {len(triples)} triples, x shift, grids omitted at config.precision 64; and x (user grids 2-D / 1-D at precision 64; grids omitted at config.precision 32) on '
                  + ('the shapes (1,2),(2,1),(2,2),(2,3),(3,2),(3,3),(4,5),(5,4) (every parity class, degenerate axes)' if tier == 'quick' else 'every shape') +
                  ': dense object against the explicit-DFT reference with the PRODUCT of the closed forms, each on its own reference grid; list == product handed over as one array; the user\'s grids unchanged afterwards',
                  reset=reset_executors),
        ScopeUnit('tf_direct', direct_cases, run_tf_direct,
                  f'jitter_ft, smear_ft (both widths, width only, height only), pixel_ft, olpf_ft, pinhole_ft called directly: every shape in [1..{B}]^2 x shift x grids given as full 2-D arrays or as broadcastable row / column x '
                  'grid dtype {float64, float32} x config.precision {64, 32}: value against the closed form (eps of single precision where it takes part), and the grids handed in are unchanged afterwards',
                  reset=reset_executors),
        ScopeUnit('mtf_scale', mtf_scale_cases, run_mtf_scale,
                  f'radiometric scale alphabet (MTF / PTF / OTF do not depend on the units of the PSF): every shape in [1..{B}]^2 x scale {{{", ".join(f"{c:g}" for c in scales)}}} (float64) and '
                  f'{{{", ".join(f"{c:g}" for c in SCALES_F32)}}} (float32) x PSF = scale * {{EVERY unit impulse; dense and sparse non-negative arrays of unit energy and with O(1) samples, array and RichData form}}: '
                  'all clauses of unit mtf against the explicit-DFT reference of the UNSCALED data, tolerances unchanged (they are relative to MTF = 1)'),
        ScopeUnit('mtf_dtype', mtf_dtype_cases, run_mtf_dtype,
                  f'PSF dtype alphabet {{{", ".join(PSF_DTYPES)}}} (camera frames, masks): every shape in [1..{B}]^2 x EVERY unit impulse at the top of the range and one dense frame (array and RichData form): all clauses of unit mtf '
                  'against the float64 reference (eps of float32 for a float32 PSF)'),
        ScopeUnit('conv_scale', conv_scale_cases, run_conv_scale,
                  f'conv is bilinear: every shape in [1..{B}]^2 x object scale x PSF scale in {{{", ".join(f"{c:g}" for c in CONV_SCALES)}}}^2 (object O(1) samples, PSF of unit energy, each times its scale): '
                  'brute-force cyclic sum of the O(1) pair times the product of the scales with a tolerance that scales the same way, both argument orders, energy product, scaled impulse at the origin and at the last sample'),
        ScopeUnit('atf_scale', atf_scale_cases, run_atf_scale,
                  f'apply_transfer_functions is linear in the object and in every transfer-function array: every shape in [1..{B}]^2 x lists {{[herm],[c_fr],[real,c_fx],[jitter_ft,pixel_ft]}} x shift x object scale in the same alphabet '
                  '(x {1e-100, 1e-15, 1, 1e15, 1e100} for the scale of the leading array): dense object and last unit impulse against the scaled explicit-DFT reference'),
        ScopeUnit('threshold', [{'n0': a, 'n1': b} for a, b in threshold_shapes(tier)], run_threshold,
                  'blocking thresholds (NOT closed over the data dimension): shapes (n,1),(1,n) for n in {2^k+1, 2^k+2^(k-1)+3 : k=7..16}, (129,3),(3,130),(150,150),(181,182),(300,300),(257,1030) and (1030,1025) (> 2^20 elements)'
                  + ('' if tier == 'quick' else ', (2^k+1,3) for k=8..14, (513,514),(1025,1025),(2049,515)') +
                  ': a dense object convolved with a PSF of <= 6 weighted impulses (corners, origin, origin+1, last, last-1, just past half of the buffer) against the weighted sum of cyclic translations on EVERY element, both argument orders, '
                  'energy product, impulse identity; MTF / PTF / OTF of that PSF and of single impulses at the first / last sample against the closed-form phase ramps on EVERY element; the same PSF as object through '
                  '[real array, callable of fr] in both conventions against the closed-form spectrum inverted with numpy\'s own FFT; all-ones lists == identity (shapes of more than 2^18 elements: one call per routine, shifted convention only, no call-hygiene variants)'),
        ScopeUnit('conv_large', large_cases, run_conv_large,
                  'threshold sizes (NOT closed over the data dimension): axis lengths {11,12,13,16,17,19,23,26,31,32,33,34,37,64,65} in shapes (n,1),(1,n),(n,3) and (13,17),(16,13),(26,8): '
                  'impulse pairs whose sum wraps around the border (corners, last sample, origin, origin+1, origin+n//2) judged by the cyclic translation law; one dense and one non-negative pair '
                  'against the brute-force circular convolution, energy product, translation of the dense object by every chosen impulse'),
        ScopeUnit('atf_large', atf_large_cases, run_atf,
                  'the same threshold shapes x lists {[ones],[herm],[c_fr],[real,c_fx]} x shift {True,False}: full operator matrix against the explicit-DFT reference'),
        ScopeUnit('mtf_large', large_cases, run_mtf_large,
                  'the same threshold shapes: corner / centre impulses, a corner pair and a dense non-negative PSF through mtf/ptf/otf_from_psf against the explicit-DFT reference'),
    ]
