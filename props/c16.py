"""C16 -- sensor model: DN stay in range; binning and mosaicking conserve signal.

Reference models (written here, independent of prysm):

* ``Detector.expose`` with the random sources replaced by their means (``mc.state.noise_free``, the
  public prysm.mathops backend shim): the documented chain
      e-  = aerial*t + dark_current*t*dcnu          (electrons collected)
      x   = e-*prnu + bias                           (bias is documented in e-)
      x   = min(x, fwc)                              (full well)
      DN  = clip(trunc(x / conversion_gain), 0, 2^bits - 1)   (conversion_gain is e-/DN)
  dtype uint8 / uint16 / uint32 for bits <= 8 / 16 / 32; shape (frames, *img), squeezed for frames=1.
  Where x/gain is within a few ulp of an integer both neighbouring DN are accepted.
* ``bindown`` / ``tile``: 0/1 block-membership matrix S (sum binning); avg binning = S/prod(f);
  tile(avg) = S^T (replicate), tile(sum) = S^T/prod(f).
* Bayer: the colour of site (i, j) is a function of (i%2, j%2) and the CFA string; every operator is
  rebuilt from that function.  Malvar kernels are transcribed from Malvar/He/Cutler 2004, fig. 2.
* one live ``Detector`` over histories of exposures and attribute reassignments: the law above for the CURRENT attribute values,
  and (differential) the exposure of a fresh Detector built with them.
* large frames: the published kernels applied by strided slices (interior), own site slices, sums of strided sub-arrays, np.repeat.
"""
import contextlib
import itertools

import numpy as np

from mc import ScopeUnit, HistoryUnit, FAILED
from mc.linalg import operator_matrix, dense
from mc.state import noise_free, reset_executors

from prysm import detector, bayer

ID = 'C16'
ASSUMPTIONS = [
    'noise-free exposure = prysm.mathops.np._srcmodule swapped for a proxy whose poisson/normal draws return their means',
    'bias is applied in electrons before the full-well clip (documented unit "e-"); the property does not fix the order of bias and full well, the implementation\'s order is taken',
    'safe white-balance limiting is modelled as one common descaling ratio max(1, max_planes(max(plane)/saturation)) applied to all gains '
    '(the release notes call it colorimetrically correct handling of saturation); every documented plane takes part',
]

EPS = np.finfo(float).eps


# ---------------------------------------------------------------------------------------------
# Detector.expose

T_EXP = 2.0


def nu_map(kind, shape, lo=0.5):
    if kind is None:
        return None
    n = shape[0] * shape[1]
    if kind == 'ones':
        return np.ones(shape)
    return (lo + np.arange(n, dtype=float) / max(1, n - 1)).reshape(shape)     # ramp lo .. lo+1


def ref_expose(img, P):
    """(lo, hi, regime) per pixel: admissible DN band and the regime of the reference value."""
    t = P.get('t', T_EXP)
    dark = P['dc'] * t * (P['dcnu'] if P['dcnu'] is not None else 1.0)
    e = img * t + dark
    if P.get('int_counts'):
        e = np.rint(e)          # the typed seam hands back integer counts, like numpy's poisson
    pr = P['prnu'] if P['prnu'] is not None else 1.0
    x = e * pr + P['bias']
    mag = np.abs(e * pr) + abs(P['bias'])
    full = x >= P['fwc']
    x = np.minimum(x, P['fwc'])
    q = x / P['gain']
    d = 8 * EPS * mag / P['gain']
    cap = 2 ** P['bits'] - 1
    lo = np.clip(np.floor(np.maximum(q - d, 0)), 0, cap)
    hi = np.clip(np.floor(np.maximum(q + d, 0)), 0, cap)
    regime = np.where(lo >= cap, 'adc-saturated', np.where(full, 'full-well', np.where(hi <= 0, 'dark', 'linear')))
    return lo.astype(np.int64), hi.astype(np.int64), regime


def signal_alphabet(bits, gain, bias, fwc):
    cap = 2 ** bits - 1
    vals = {0.0, 0.4, 1.0, 1e13, (cap + 1) * gain}
    for c in (cap * gain, float(fwc)):
        vals |= {c - 1, c, c + 1, 10 * c}
        if bias:
            vals |= {c - bias - 1, c - bias, c - bias + 1}
    return sorted(v for v in vals if v >= 0)


def run_expose(case, seed, R):
    bits, gain, bias, fwc, frames = case['bits'], case['gain'], case['bias'], case['fwc'], case['frames']
    shape = tuple(case['shape'])
    dcnu = nu_map(case['dcnu'], shape)
    prnu = nu_map(case['prnu'], shape)
    dc = 0.0 if dcnu is None else 2.0
    P = dict(bits=bits, gain=gain, bias=bias, fwc=fwc, dcnu=dcnu, prnu=prnu, dc=dc)
    cap = 2 ** bits - 1
    want_dtype = np.uint8 if bits <= 8 else np.uint16 if bits <= 16 else np.uint32
    want_shape = shape if frames == 1 else (frames, *shape)
    det = detector.Detector(dark_current=dc, read_noise=3.0, bias=bias, fwc=fwc, conversion_gain=gain, bits=bits,
                            exposure_time=T_EXP, prnu=None if prnu is None else prnu.copy(), dcnu=None if dcnu is None else dcnu.copy())
    sigs = signal_alphabet(bits, gain, bias, fwc)
    n = shape[0] * shape[1]
    mixed = np.array([sigs[(5 * j + 1) % len(sigs)] for j in range(n)]).reshape(shape)
    exc_sig = 'expose:exception' + (':prnu-map' if prnu is not None else '')
    images = [np.full(shape, s) for s in sigs] + [mixed]
    outs = []
    with noise_free():
        for k, im in enumerate(images):
            out = R.call(det.expose, im / T_EXP, frames, sig=exc_sig)
            if out is FAILED:
                R.outcome('exception')
                return
            try:
                out = np.asarray(out)
                okshape = out.shape == want_shape
            except Exception:   # noqa
                okshape = False
            if not R.expect(okshape, 'expose:shape', f'shape {getattr(out, "shape", None)} != documented {want_shape} (frames={frames})'):
                return
            R.expect(out.dtype == want_dtype, 'expose:dtype', f'dtype {out.dtype} != documented {np.dtype(want_dtype)} for {bits} bits')
            if out.dtype.kind not in 'ui':
                R.violation('expose:dtype', f'non-integer DN dtype {out.dtype}')
                return
            dn = out.astype(np.int64).reshape((frames, *shape))
            lo, hi, regime = ref_expose(im / T_EXP, P)
            R.expect(dn.min() >= 0 and dn.max() <= cap, 'expose:range',
                     f'DN outside [0, {cap}]: min {dn.min()} max {dn.max()} (bits={bits}, signal {"mixed" if k == len(sigs) else sigs[k]})')
            bad = (dn < lo) | (dn > hi)
            if bad.any():
                i = tuple(int(v) for v in np.argwhere(bad)[0])
                R.violation(f'expose:value:{regime[i[1:]]}',
                            f'DN {dn[i]} at frame/pixel {i}, reference {lo[i[1:]]}..{hi[i[1:]]} (bits={bits} gain={gain} bias={bias} fwc={fwc} '
                            f'signal e-={im[i[1:]]}; {int(bad.sum())} pixels wrong)')
            R.checks += 1
            outs.append((dn, regime))
    # brighter never reads darker: every ordered pair of uniform signals, per frame and pixel
    for a in range(len(sigs)):
        for b in range(a + 1, len(sigs)):
            darker = outs[b][0] < outs[a][0]
            R.checks += 1
            if darker.any():
                i = tuple(int(v) for v in np.argwhere(darker)[0])
                R.violation(f'expose:monotone:{outs[b][1][i[1:]]}',
                            f'signal {sigs[b]} e- reads {outs[b][0][i]} DN but the darker {sigs[a]} e- reads {outs[a][0][i]} DN (bits={bits} gain={gain} bias={bias} fwc={fwc})')
                break
    R.nontrivial(True)
    R.outcome('exposed')


# ---------------------------------------------------------------------------------------------
# parameter forms and precision: a seam that returns the SAME dtypes as numpy's generators

class _TypedRandom:
    """numpy.random stand-in: poisson -> int64 counts equal to round(mean), normal -> float64 equal to loc."""

    def poisson(self, lam=1.0, size=None):
        out = np.rint(np.asarray(lam, dtype=float)).astype(np.int64)
        return np.broadcast_to(out, size if size is not None else out.shape).copy()

    def normal(self, loc=0.0, scale=1.0, size=None):
        return np.full(size if size is not None else np.shape(loc), float(loc), dtype=np.float64)

    def __getattr__(self, k):
        return getattr(np.random, k)


class _TypedProxy:
    def __init__(self, real):
        self._real = real
        self.random = _TypedRandom()

    def __getattr__(self, k):
        return getattr(self._real, k)


@contextlib.contextmanager
def noise_free_typed():
    from prysm import mathops
    real = mathops.np._srcmodule
    mathops.np._srcmodule = _TypedProxy(real)
    try:
        yield
    finally:
        mathops.np._srcmodule = real


def run_expose_forms(case, seed, R):
    from prysm.conf import config
    bits, prec, bias, rn, maps, fwc, gain, frames = (case[k] for k in ('bits', 'prec', 'bias', 'read_noise', 'maps', 'fwc', 'gain', 'frames'))
    shape = (2, 4)
    dcnu = nu_map(maps, shape)
    prnu = nu_map(maps, shape)
    dc = 0.0 if dcnu is None else 2.0
    P = dict(bits=bits, gain=gain, bias=bias, fwc=fwc, dcnu=dcnu, prnu=prnu, dc=dc, int_counts=True)
    cap = 2 ** bits - 1
    want_dtype = np.uint8 if bits <= 8 else np.uint16 if bits <= 16 else np.uint32
    want_shape = shape if frames == 1 else (frames, *shape)
    sigs = signal_alphabet(bits, gain, bias, fwc)
    n = shape[0] * shape[1]
    mixed = np.array([sigs[(5 * j + 1) % len(sigs)] for j in range(n)]).reshape(shape)
    cell = f'prec{prec}' if prec == 32 else ('rn0' if rn == 0 else 'forms')
    outs = []
    config.precision = prec
    try:
        det = detector.Detector(dark_current=dc, read_noise=rn, bias=bias, fwc=fwc, conversion_gain=gain, bits=bits, exposure_time=T_EXP, prnu=prnu, dcnu=dcnu)
        with noise_free_typed():
            for k, im in enumerate([np.full(shape, v) for v in sigs] + [mixed]):
                out = R.call(det.expose, im / T_EXP, frames, sig=f'expose:{cell}:exception')
                if out is FAILED:
                    return
                try:
                    out = np.asarray(out)
                    ok = out.shape == want_shape and out.dtype == want_dtype
                except Exception:   # noqa
                    ok = False
                if not R.expect(ok, f'expose:{cell}:shape-dtype', f'{getattr(out, "shape", None)} {getattr(out, "dtype", None)} != documented {want_shape} {np.dtype(want_dtype)}'):
                    return
                dn = out.astype(np.int64).reshape((frames, *shape))
                lo, hi, regime = ref_expose(im / T_EXP, P)
                R.expect(dn.min() >= 0 and dn.max() <= cap, f'expose:{cell}:range', f'DN outside [0, {cap}]: max {dn.max()} (bits={bits}, precision={prec})')
                bad = (dn < lo) | (dn > hi)
                R.checks += 1
                if bad.any():
                    i = tuple(int(v) for v in np.argwhere(bad)[0])
                    R.violation(f'expose:{cell}:value:{regime[i[1:]]}',
                                f'DN {dn[i]} at frame/pixel {i}, reference {lo[i[1:]]}..{hi[i[1:]]} (bits={bits} precision={prec} gain={gain} bias={bias!r} read_noise={rn} '
                                f'fwc={fwc!r} maps={maps} e-={im[i[1:]]}; {int(bad.sum())} pixels wrong)')
                if k < len(sigs):
                    outs.append((dn, regime))
    finally:
        config.precision = 64
    for a in range(len(outs)):
        for b in range(a + 1, len(outs)):
            darker = outs[b][0] < outs[a][0]
            R.checks += 1
            if darker.any():
                i = tuple(int(v) for v in np.argwhere(darker)[0])
                R.violation(f'expose:{cell}:monotone:{outs[b][1][i[1:]]}', f'signal {sigs[b]} e- reads {outs[b][0][i]} DN, the darker {sigs[a]} e- reads {outs[a][0][i]} DN (bits={bits} precision={prec})')
                break
    R.nontrivial(True)
    R.outcome(cell)


LAYOUTS = ('C', 'F', 'T-view', 'strided', 'reversed')
DEGENERATE = ((1, 1), (1, 2), (2, 1), (1, 5), (5, 1))     # image shapes with unit-length axes


def in_layout(a, layout):
    """The same values as the C-ordered array a, laid out differently in memory."""
    if a is None or layout == 'C':
        return a
    if layout == 'F':
        return np.asfortranarray(a)
    if layout == 'T-view':
        return np.ascontiguousarray(a.T).T            # transposed view of a C array
    if layout == 'strided':
        big = np.full((2 * a.shape[0] + 1, 3 * a.shape[1] + 2), -1.0)
        big[1::2, 2::3] = a
        return big[1::2, 2::3]
    if layout == 'reversed':
        return np.ascontiguousarray(a[::-1, ::-1])[::-1, ::-1]
    raise KeyError(layout)


def run_expose_layout(case, seed, R):
    bits, gain, frames, maps, layout = case['bits'], case['gain'], case['frames'], case['maps'], case['layout']
    shape = tuple(case['shape'])
    bias, fwc = 10, 1e12
    dcnu = nu_map(maps, shape)
    prnu = nu_map(maps, shape)
    dc = 0.0 if dcnu is None else 2.0
    P = dict(bits=bits, gain=gain, bias=bias, fwc=fwc, dcnu=dcnu, prnu=prnu, dc=dc)
    cap = 2 ** bits - 1
    want_shape = shape if frames == 1 else (frames, *shape)
    det = detector.Detector(dark_current=dc, read_noise=3.0, bias=bias, fwc=fwc, conversion_gain=gain, bits=bits, exposure_time=T_EXP,
                            prnu=in_layout(prnu, layout if case['maps_too'] else 'C'), dcnu=in_layout(dcnu, layout if case['maps_too'] else 'C'))
    n = shape[0] * shape[1]
    sigs = signal_alphabet(bits, gain, bias, fwc)
    ramp = (np.arange(n, dtype=float) + 1).reshape(shape) * (1.2 * cap * gain / n)        # every pixel different, the last ones saturated
    mixed = np.array([sigs[(5 * j + 1) % len(sigs)] for j in range(n)]).reshape(shape)
    sig = f'expose:layout:{layout}'
    with noise_free():
        for im, label in ((ramp, 'ramp'), (mixed, 'mixed alphabet')):
            arg = in_layout(im / T_EXP, layout)
            out = R.call(det.expose, arg, frames, sig=sig + ':exception')
            if out is FAILED:
                continue
            try:
                out = np.asarray(out)
                ok = out.shape == want_shape and out.dtype.kind in 'ui'
            except Exception:   # noqa
                ok = False
            if not R.expect(ok, sig + ':shape', f'{label}: shape/dtype {getattr(out, "shape", None)} {getattr(out, "dtype", None)}, documented {want_shape} unsigned'):
                continue
            dn = out.astype(np.int64).reshape((frames, *shape))
            lo, hi, regime = ref_expose(im / T_EXP, P)
            bad = (dn < lo) | (dn > hi)
            R.checks += 1
            if bad.any():
                i = tuple(int(v) for v in np.argwhere(bad)[0])
                R.violation(sig, f'{label} image in {layout} layout {shape}: DN {dn[i]} at frame/pixel {i}, reference {lo[i[1:]]}..{hi[i[1:]]} '
                                 f'(bits={bits} gain={gain}; {int(bad.sum())} pixels wrong -- pixels permuted?)')
    R.nontrivial(layout != 'C')
    R.outcome(layout)



# ---------------------------------------------------------------------------------------------
# ONE Detector object over a history of exposures and re-configurations

HIST_SHAPE = (4, 6)
HIST_ATTRS = {      # every public attribute expose() reads -> its value alphabet
    'conversion_gain': [2.0, 8.0, 0.5, 1.0],      # exactly 1: the value at which a scaling step may be skipped
    'bits': [12, 8, 16],
    'bias': [10, 0],
    'fwc': [50000.0, 1000.0],
    'exposure_time': [2.0, 0.25, 1.0],            # exactly 1: "image * t" may be skipped and the caller's array used as the work array
    'dark_current': [0.0, 2.0],
    'read_noise': [3.0, 0.0],
    'prnu': [None, 'ramp'],
    'dcnu': [None, 'ramp'],
    'lut': [None, 'lut'],
}
HIST_LUT = (np.arange(2 ** 16) * 3 // 4).astype(np.uint16)      # monotone, non-trivial response table over every 16-bit code
HIST_RAMP = np.concatenate([[0.0, 0.4, 1.0], np.geomspace(3.0, 3e6, HIST_SHAPE[0] * HIST_SHAPE[1] - 3)]).reshape(HIST_SHAPE)   # e-/s, dark .. far above every ceiling


def _hist_value(attr, idx):
    v = HIST_ATTRS[attr][idx]
    if v == 'ramp':
        return nu_map('ramp', HIST_SHAPE)
    if v == 'lut':
        return HIST_LUT.copy()
    return v


class DetState:
    """The real Detector plus the harness' own record of what its attributes currently are (never the same array objects)."""

    def __init__(self, init):
        self.idx = {a: int(init['start'].get(a, 0)) for a in HIST_ATTRS}
        self.cur = {a: _hist_value(a, i) for a, i in self.idx.items()}
        self.frames = init['frames']
        self.trace = []
        self.last = None
        self.det = self.build()

    def build(self):
        c = {a: (v.copy() if isinstance(v, np.ndarray) else v) for a, v in self.cur.items()}
        return detector.Detector(dark_current=c['dark_current'], read_noise=c['read_noise'], bias=c['bias'], fwc=c['fwc'], conversion_gain=c['conversion_gain'],
                                 bits=c['bits'], exposure_time=c['exposure_time'], prnu=c['prnu'], dcnu=c['dcnu'], lut=c['lut'])

    def params(self):
        c = self.cur
        return dict(bits=c['bits'], gain=c['conversion_gain'], bias=c['bias'], fwc=c['fwc'], dcnu=c['dcnu'], prnu=c['prnu'], dc=c['dark_current'], t=c['exposure_time'])

    def images(self):
        c = self.cur
        sigs = signal_alphabet(c['bits'], c['conversion_gain'], c['bias'], c['fwc'])
        n = HIST_SHAPE[0] * HIST_SHAPE[1]
        mixed = np.array([sigs[(5 * j + 1) % len(sigs)] for j in range(n)]).reshape(HIST_SHAPE) / c['exposure_time']
        return [('fixed log ramp', HIST_RAMP.copy()), ('ceiling alphabet of the current settings', mixed)]


def hd_fresh(init, seed):
    return DetState(init)


def hd_events(init, hist, st):
    evs = [['expose']]
    for a, vals in HIST_ATTRS.items():
        evs += [['set', a, i] for i in range(len(vals)) if i != st.idx[a]]
    evs += [['scale-in-place', a] for a in ('prnu', 'dcnu') if isinstance(st.cur[a], np.ndarray)]
    return evs


def _hd_expose(st, det, R, hygiene):
    outs = []
    with noise_free():
        for label, im in st.images():
            outs.append((label, im, R.call(det.expose, im, st.frames, sig='history:expose:exception', hygiene=hygiene)))
    return outs


def hd_apply(st, ev, R):
    st.trace = st.trace + [ev]
    st.last = None
    if ev[0] == 'expose':
        st.last = _hd_expose(st, st.det, R, True)
    elif ev[0] == 'set':
        _, a, i = ev
        st.idx[a] = i
        st.cur[a] = _hist_value(a, i)
        setattr(st.det, a, _hist_value(a, i))              # public attribute reassigned on the live object
    else:
        a = ev[1]
        st.idx[a] = -1
        st.cur[a] = st.cur[a] * 0.5
        arr = getattr(st.det, a)
        arr *= 0.5                                          # the map the detector holds, edited in place by its owner
    return st


def _hd_judge(st, outs, fresh_outs, cell, hist, R):
    P = st.params()
    cap = 2 ** P['bits'] - 1
    shape = HIST_SHAPE
    want_shape = shape if st.frames == 1 else (st.frames, *shape)
    lut = st.cur['lut']
    want_dtype = np.dtype(np.uint8 if P['bits'] <= 8 else np.uint16 if P['bits'] <= 16 else np.uint32) if lut is None else lut.dtype
    where = f'after history {hist}'
    for (label, im, out), fr in zip(outs, fresh_outs):
        if out is FAILED:
            continue
        try:
            out = np.asarray(out)
            ok = out.shape == want_shape and out.dtype == want_dtype
        except Exception:   # noqa
            ok = False
        if not R.expect(ok, f'history:expose:{cell}:shape-dtype', f'{label}: {getattr(out, "shape", None)} {getattr(out, "dtype", None)} != documented {want_shape} {want_dtype} {where}'):
            continue
        dn = out.astype(np.int64).reshape((st.frames, *shape))
        lo, hi, regime = ref_expose(im, P)
        if lut is not None:
            lo, hi = lut.astype(np.int64)[lo], lut.astype(np.int64)[hi]
        R.expect(dn.min() >= 0 and dn.max() <= cap, f'history:expose:{cell}:range', f'{label}: DN outside [0, {cap}]: min {dn.min()} max {dn.max()} {where}')
        bad = (dn < lo) | (dn > hi)
        R.checks += 1
        if bad.any():
            i = tuple(int(v) for v in np.argwhere(bad)[0])
            cfg = {a: (v if not isinstance(v, np.ndarray) else f'array{v.shape}') for a, v in st.cur.items()}
            R.violation(f'history:expose:{cell}:value:{regime[i[1:]]}',
                        f'{label}: DN {dn[i]} at frame/pixel {i}, noise-free law for the CURRENT attributes gives {lo[i[1:]]}..{hi[i[1:]]} ({int(bad.sum())} pixels wrong); current attributes {cfg}; {where}')
        if fr is not FAILED:
            R.expect_equal(out, fr, f'history:expose:{cell}:stale-object-state', f'{label}: the exposure of the re-configured detector differs from a fresh Detector built with the same current attributes; {where}')


def hd_check(st, init, hist, R):
    ev = hist[-1] if hist else ['initial']
    cell = 'initial' if not hist else 'after-expose' if ev[0] == 'expose' else f'after-{ev[0]}-{ev[1]}'
    fresh_det = st.build()
    fresh_outs = [o for _, _, o in _hd_expose(st, fresh_det, R, False)]
    if st.last is not None:
        _hd_judge(st, st.last, fresh_outs, 'event', hist, R)
    # probe exposure in EVERY state (the state object is discarded afterwards: longer histories are replayed without it)
    _hd_judge(st, _hd_expose(st, st.det, R, False), fresh_outs, cell, hist, R)
    for a in ('prnu', 'dcnu'):
        if isinstance(st.cur[a], np.ndarray):
            R.expect_equal(getattr(st.det, a), st.cur[a], f'history:expose:modified-{a}', f'expose changed the {a} map held by the detector; after history {hist}')
    R.nontrivial(True)
    R.outcome(cell if ev[0] != 'set' else 'after-set')


def hd_canon(st):
    import json
    return json.dumps(st.trace)


# ---------------------------------------------------------------------------------------------
# bindown / tile

def ref_sum_matrix(shape, factor):
    out_shape = tuple(s // f for s, f in zip(shape, factor))
    S = np.zeros((int(np.prod(out_shape)), int(np.prod(shape))))
    for idx in np.ndindex(*shape):
        o = tuple(i // f for i, f in zip(idx, factor))
        S[np.ravel_multi_index(o, out_shape), np.ravel_multi_index(idx, shape)] = 1.0
    return S, out_shape


def run_bin(case, seed, R):
    shape, factor = tuple(case['shape']), tuple(case['factor'])
    nd = len(shape)
    S, small = ref_sum_matrix(shape, factor)
    pf = float(np.prod(factor))
    tol = 8 * EPS
    mats = {}
    for name, f, shp, ref in (
            ('bindown:sum', lambda d: detector.bindown(d, factor, 'sum'), shape, S),
            ('bindown:avg', lambda d: detector.bindown(d, list(factor), 'avg'), shape, S / pf),
            ('tile:avg', lambda d: detector.tile(d, factor, 'avg'), small, S.T),
            ('tile:sum', lambda d: detector.tile(d, list(factor), 'sum'), small, S.T / pf)):
        sig = f'{name}:{nd}d'
        out = R.call(operator_matrix, f, shp, R=R, sig=sig + ':exception')
        if out is FAILED:
            continue
        A, shape_out = out
        want_out = small if name.startswith('bindown') else shape
        R.expect(tuple(shape_out) == tuple(want_out), sig + ':shape', f'{name}({shp}, {factor}) returned shape {shape_out}, expected {want_out}')
        if R.expect_close(A, ref, tol, sig, f'operator matrix of {name} {shp} factor {factor}'):
            mats[name] = A
            ones_in = np.ones(A.shape[1])
            if name.endswith('sum'):
                R.expect_close(A.sum(0), ones_in, 8 * tol * pf, sig + ':conserve', f'{name} does not conserve the total (column sums)')
            else:
                R.expect_close(A @ ones_in, np.ones(A.shape[0]), 8 * tol * pf, sig + ':conserve', f'{name} does not conserve the level of a constant array')
    if 'bindown:sum' in mats and 'tile:avg' in mats:
        R.expect_close(mats['bindown:sum'], mats['tile:avg'].T, tol, f'adjoint:bindown(sum)-tile(avg):{nd}d', 'bindown(sum) is not the transpose of tile(avg)')
    if 'bindown:avg' in mats and 'tile:sum' in mats:
        R.expect_close(mats['bindown:avg'], mats['tile:sum'].T, tol, f'adjoint:bindown(avg)-tile(sum):{nd}d', 'bindown(avg) is not the transpose of tile(sum)')
    # dense array: superposition, defaults, aliases, scalar factor, <x, tile(y)> == <bindown(x), y>
    x = dense(shape, seed, 1, complex_=False)
    y = dense(small, seed, 2, complex_=False)
    tx = 32 * EPS * float(np.abs(x).sum())
    ty = 32 * EPS * float(np.abs(y).sum())
    bs = R.call(detector.bindown, x.copy(), factor, 'sum')
    R.expect_close(bs, (S @ x.ravel()).reshape(small), tx, f'bindown:sum:{nd}d', 'dense array, sum')
    if bs is not FAILED and np.asarray(bs).shape == small:
        R.expect_close(np.asarray(bs).sum(), x.sum(), tx, f'bindown:sum:{nd}d:conserve', 'total of dense array')
    ba = R.call(detector.bindown, x.copy(), factor)
    R.expect_close(ba, (S @ x.ravel()).reshape(small) / pf, tx, f'bindown:default-avg:{nd}d', 'default mode of bindown must be avg')
    ts = R.call(detector.tile, y.copy(), factor)
    R.expect_close(ts, (S.T @ y.ravel()).reshape(shape) / pf, ty, f'tile:default-sum:{nd}d', 'default scaling of tile must be sum')
    if ts is not FAILED and np.asarray(ts).shape == shape:
        R.expect_close(np.asarray(ts).sum(), y.sum(), 4 * ty, f'tile:sum:{nd}d:conserve', 'total of dense array')
        if ba is not FAILED and np.asarray(ba).shape == small:
            R.expect_close((x * np.asarray(ts)).sum(), (np.asarray(ba) * y).sum(), 16 * EPS * float(np.abs(x).sum() * np.abs(y).max()),
                           f'adjoint:bindown(avg)-tile(sum):{nd}d', '<x, tile(y)> != <bindown(x), y> for the default pair')
    ta = R.call(detector.tile, y.copy(), factor, 'avg')
    R.expect_close(ta, (S.T @ y.ravel()).reshape(shape), ty, f'tile:avg:{nd}d', 'dense array, avg')
    for alias in ('average', 'mean'):
        R.expect_close(R.call(detector.bindown, x.copy(), factor, alias), (S @ x.ravel()).reshape(small) / pf, tx, f'bindown:alias:{alias}', 'documented alias of avg')
        R.expect_close(R.call(detector.tile, y.copy(), factor, alias), (S.T @ y.ravel()).reshape(shape), ty, f'tile:alias:{alias}', 'documented alias of avg')
    if len(set(factor)) == 1:
        R.expect_close(R.call(detector.bindown, x.copy(), factor[0], 'sum'), (S @ x.ravel()).reshape(small), tx, f'bindown:scalar-factor:{nd}d', 'scalar factor broadcast')
        R.expect_close(R.call(detector.tile, y.copy(), factor[0], 'avg'), (S.T @ y.ravel()).reshape(shape), ty, f'tile:scalar-factor:{nd}d', 'scalar factor broadcast')
    for fn, arg in ((detector.bindown, x), (detector.tile, y)):
        try:
            fn(arg.copy(), factor, 'median')
            R.violation(f'{fn.__name__}:invalid-mode', 'invalid mode did not raise the documented ValueError')
        except ValueError:
            pass
        except Exception as e:   # noqa
            R.violation(f'{fn.__name__}:invalid-mode', f'invalid mode raised {type(e).__name__}, documented ValueError')
        R.tick()
    R.nontrivial(pf > 1)
    R.outcome('binned' if pf > 1 else 'factor-1')


BIN_DTYPES = ('bool', 'uint8', 'uint16', 'int32', 'float32')


def data_as(shape, seed, dt, variant):
    n = int(np.prod(shape))
    k = np.arange(n)
    if dt == 'bool':
        a = np.ones(n, dtype=bool) if variant == 'top' else (np.abs(dense((n,), seed, 7, complex_=False)) > 0.5)
    elif dt == 'uint8':
        a = (255 - k % 6) if variant == 'top' else (k * 37) % 256
    elif dt == 'uint16':
        a = (65535 - k % 7) if variant == 'top' else (4095 - k % 5)          # 16-bit and 12-bit frames
    elif dt == 'int32':
        a = (2 ** 31 - 1 - k % 5) if variant == 'top' else (-(2 ** 31) + k % 3)
    else:
        a = np.abs(dense((n,), seed, 8, complex_=False)) * (1000.0 if variant == 'top' else 1.0)
    return np.asarray(a).astype(dt).reshape(shape)


def run_bin_dtype(case, seed, R):
    shape, factor, dt = tuple(case['shape']), tuple(case['factor']), case['dtype']
    S, small = ref_sum_matrix(shape, factor)
    Si = S.astype(np.int64)
    pf = int(np.prod(factor))
    integer = dt != 'float32'
    e32 = float(np.finfo(np.float32).eps)
    for variant in ('top', 'mid'):
        x = data_as(shape, seed, dt, variant)
        y = data_as(small, seed, dt, variant)
        # exact reference in Python integers (float64 for the float32 alphabet cell)
        if integer:
            xi = x.ravel().astype(np.int64)                     # |x| <= 2^31, at most 216 terms per bin: exact in int64
            want_sum = [int(v) for v in (Si @ xi)]
            total = sum(int(v) for v in x.ravel().tolist())
        else:
            want_sum = (S @ x.ravel().astype(float))
            total = float(x.astype(float).sum())
        mag = float(np.abs(x.astype(float)).sum())
        sig = f'bindown:sum:dtype={dt}'
        bs = R.call(detector.bindown, x, factor, 'sum')
        if bs is not FAILED:
            try:
                b = np.asarray(bs)
                ok = b.shape == small and b.dtype.kind in 'fiub'
            except Exception:   # noqa
                ok = False
            if R.expect(ok, sig, f'bindown({dt}{shape}, {factor}, sum): shape/dtype {getattr(bs, "shape", None)} {getattr(bs, "dtype", None)}'):
                if integer:
                    got = [int(v) for v in b.ravel().tolist()]
                    R.expect(got == want_sum, sig, f'bindown({dt}{shape} {variant}, {factor}, sum) = {got[:4]}.., exact integer sums {want_sum[:4]}..')
                    R.expect(sum(got) == total, sig + ':conserve', f'total {sum(got)} != {total} (Python integers) for {dt}{shape} {variant} factor {factor}')
                else:
                    R.expect_close(b, np.asarray(want_sum).reshape(small), 64 * e32 * max(mag, 1e-30), sig, f'float32 {variant} sums')
                    R.expect_close(float(b.astype(float).sum()), total, 64 * e32 * max(mag, 1e-30), sig + ':conserve', 'float32 total')
        ba = R.call(detector.bindown, x, factor, 'avg')
        want_avg = np.asarray([float(v) / pf for v in want_sum]).reshape(small)
        R.expect_close(ba, want_avg, (8 * EPS if integer else 64 * e32) * np.maximum(np.abs(want_avg), mag / pf if not integer else 1.0),
                       f'bindown:avg:dtype={dt}', f'bindown({dt}{shape} {variant}, {factor}, avg) vs exact means')
        # tile: replicate (avg) keeps every value, sum spreads value/prod(factor)
        yf = y.astype(float)
        rep = (S.T @ yf.ravel()).reshape(shape)
        ta = R.call(detector.tile, y, factor, 'avg')
        R.expect_close(ta, rep, 0.0, f'tile:avg:dtype={dt}', f'tile({dt}{small} {variant}, {factor}, avg) must replicate the values exactly')
        ts = R.call(detector.tile, y, factor, 'sum')
        if R.expect_close(ts, rep / pf, (64 * EPS if integer else 64 * e32) * np.abs(rep / pf) + 1e-300, f'tile:sum:dtype={dt}', f'tile({dt}{small} {variant}, {factor}, sum) vs value/prod(factor)'):
            R.expect_close(float(np.asarray(ts, dtype=float).sum()), float(yf.sum()), (256 * EPS if integer else 64 * e32) * max(float(np.abs(yf).sum()), 1e-300),
                           f'tile:sum:dtype={dt}:conserve', 'total of the tiled array')
    R.nontrivial(pf > 1)
    R.outcome(dt)



# ---------------------------------------------------------------------------------------------
# Bayer

SITE = {'rggb': {(0, 0): 'r', (0, 1): 'g1', (1, 0): 'g2', (1, 1): 'b'},
        'bggr': {(0, 0): 'b', (0, 1): 'g1', (1, 0): 'g2', (1, 1): 'r'}}
PLANES = ('r', 'g1', 'g2', 'b')


def colour(i, j, cfa):
    return SITE[cfa][(i % 2, j % 2)]


def ref_decomposite(m, n, cfa):
    """Matrix (4*m/2*n/2, m*n): planes r, g1, g2, b stacked."""
    h, w = m // 2, n // 2
    D = np.zeros((4 * h * w, m * n))
    for i in range(m):
        for j in range(n):
            k = PLANES.index(colour(i, j, cfa))
            D[k * h * w + (i // 2) * w + (j // 2), i * n + j] = 1.0
    return D


def ref_composite(m, n, cfa):
    """Matrix (m*n, 4*m*n): picks from four dense planes the one native to each site."""
    C = np.zeros((m * n, 4 * m * n))
    for i in range(m):
        for j in range(n):
            k = PLANES.index(colour(i, j, cfa))
            C[i * n + j, k * m * n + i * n + j] = 1.0
    return C


def malvar_row(i, j, ch, m, n, cfa):
    """Interior Malvar-He-Cutler row for output channel ch ('r','g','b') at site (i,j); None near the edges."""
    if i < 2 or j < 2 or i >= m - 2 or j >= n - 2:
        return None
    row = np.zeros((m, n))
    c = colour(i, j, cfa)
    native = {'r': ('r',), 'g': ('g1', 'g2'), 'b': ('b',)}[ch]
    if c in native:
        row[i, j] = 1.0
        return row.ravel()
    cross1 = ((-1, 0), (1, 0), (0, -1), (0, 1))
    cross2 = ((-2, 0), (2, 0), (0, -2), (0, 2))
    diag = ((-1, -1), (-1, 1), (1, -1), (1, 1))
    if ch == 'g':
        w = {(0, 0): 4.0, **{o: 2.0 for o in cross1}, **{o: -1.0 for o in cross2}}
    elif c in ('g1', 'g2'):
        if colour(i, j + 1, cfa) == ch:      # wanted colour sits left/right of this green site
            w = {(0, 0): 5.0, (0, -1): 4.0, (0, 1): 4.0, (0, -2): -1.0, (0, 2): -1.0, (-2, 0): 0.5, (2, 0): 0.5, **{o: -1.0 for o in diag}}
        else:                                # above / below
            w = {(0, 0): 5.0, (-1, 0): 4.0, (1, 0): 4.0, (-2, 0): -1.0, (2, 0): -1.0, (0, -2): 0.5, (0, 2): 0.5, **{o: -1.0 for o in diag}}
    else:                                    # red at blue site or blue at red site
        w = {(0, 0): 6.0, **{o: 2.0 for o in diag}, **{o: -1.5 for o in cross2}}
    for (di, dj), v in w.items():
        row[i + di, j + dj] = v / 8.0
    return row.ravel()


def run_bayer(case, seed, R):
    m, n, cfa = case['m'], case['n'], case['cfa']
    h, w = m // 2, n // 2
    N = m * n
    D = ref_decomposite(m, n, cfa)

    def stack4(f):
        return lambda d: np.concatenate([np.asarray(p).ravel() for p in f(d)])

    out = R.call(operator_matrix, stack4(lambda d: bayer.decomposite_bayer(d, cfa)), (m, n), R=R, sig=f'decomposite:{cfa}:exception')
    Dm = None
    if out is not FAILED and R.expect_equal(out[0], D, f'decomposite:{cfa}', f'operator of decomposite_bayer {(m, n)}'):
        Dm = out[0]
    planes = R.call(bayer.decomposite_bayer, np.zeros((m, n)), cfa)
    if planes is not FAILED:
        R.expect(len(planes) == 4 and all(np.asarray(p).shape == (h, w) for p in planes), f'decomposite:{cfa}:shape', 'four planes of shape (m//2, n//2) expected')
    out = R.call(operator_matrix, lambda s: bayer.recomposite_bayer(s[0], s[1], s[2], s[3], cfa), (4, h, w), R=R, sig=f'recomposite:{cfa}:exception')
    if out is not FAILED and R.expect_equal(out[0], D.T, f'recomposite:{cfa}', f'operator of recomposite_bayer {(h, w)}') and Dm is not None:
        R.expect_equal(out[0] @ Dm, np.eye(N), f'recomposite(decomposite):{cfa}', 'recomposite_bayer(decomposite_bayer(x)) != x')
        R.expect_equal(Dm @ out[0], np.eye(N), f'decomposite(recomposite):{cfa}', 'decomposite_bayer(recomposite_bayer(p)) != p')
    out = R.call(operator_matrix, lambda s: bayer.composite_bayer(s[0], s[1], s[2], s[3], cfa), (4, m, n), R=R, sig=f'composite:{cfa}:exception')
    C = ref_composite(m, n, cfa)
    if out is not FAILED:
        R.expect_equal(out[0], C, f'composite:{cfa}', f'operator of composite_bayer {(m, n)}')
    out = R.call(operator_matrix, lambda d: bayer.demosaic_deinterlace(d, cfa), (m, n), R=R, sig=f'deinterlace:{cfa}:exception')
    if out is not FAILED:
        A, shp = out
        R.expect(tuple(shp) == (h, w, 3), f'deinterlace:{cfa}:shape', f'shape {shp} != {(h, w, 3)}')
        Dr, Dg1, Dg2, Db = (D[k * h * w:(k + 1) * h * w] for k in range(4))
        want = np.stack([Dr, (Dg1 + Dg2) / 2, Db], axis=1).reshape(h * w * 3, N)     # last axis = colour
        R.expect_equal(A, want, f'deinterlace:{cfa}', 'operator of demosaic_deinterlace: r, (g1+g2)/2, b')
    # Malvar
    out = R.call(operator_matrix, lambda d: bayer.demosaic_malvar(d, cfa), (m, n), R=R, sig=f'malvar:{cfa}:exception')
    if out is not FAILED:
        A, shp = out
        if R.expect(tuple(shp) == (m, n, 3) and A.shape == (3 * N, N), f'malvar:{cfa}:shape', f'shape {shp} != {(m, n, 3)}'):
            A3 = A.reshape(m, n, 3, N)
            native_bad, interior_bad = [], []
            for i in range(m):
                for j in range(n):
                    c = colour(i, j, cfa)
                    ch = {'r': 0, 'g1': 1, 'g2': 1, 'b': 2}[c]
                    unit = np.zeros(N)
                    unit[i * n + j] = 1.0
                    if not np.array_equal(A3[i, j, ch], unit):
                        native_bad.append((i, j, c))
                    for k, name in enumerate('rgb'):
                        ref = malvar_row(i, j, name, m, n, cfa)
                        if ref is not None and np.abs(A3[i, j, k] - ref).max() > 8 * EPS:
                            interior_bad.append((i, j, name))
            R.expect(not native_bad, f'malvar:native-site:{cfa}', f'raw sample not returned unchanged at its native colour site: {native_bad[:6]}')
            R.expect(not interior_bad, f'malvar:interior-kernel:{cfa}', f'interior weights differ from Malvar et al. fig. 2 at (i, j, channel) {interior_bad[:6]}')
            R.expect_close(A.sum(1), np.ones(3 * N), 16 * EPS, f'malvar:flat-field:{cfa}', 'a flat mosaic does not demosaic to the same flat level (kernel rows must sum to 1)')
    # dense mosaic: superposition, input untouched, native sites through composite_bayer, output= forms
    x = np.abs(dense((m, n), seed, 3, complex_=False)) + 0.1
    x0 = x.copy()
    rgb = R.call(bayer.demosaic_malvar, x, cfa)
    R.expect_equal(x, x0, f'malvar:{cfa}:mutates-input', 'demosaic_malvar modified its input')
    if rgb is not FAILED and np.asarray(rgb).shape == (m, n, 3):
        rgb = np.asarray(rgb)
        back = R.call(bayer.composite_bayer, rgb[..., 0], rgb[..., 1], rgb[..., 1], rgb[..., 2], cfa)
        R.expect_equal(back, x0, f'composite(malvar):{cfa}', 'compositing the demosaiced planes does not return the raw mosaic')
    planes = R.call(bayer.decomposite_bayer, x, cfa)
    if planes is not FAILED and len(planes) == 4:
        buf = np.full((m, n), -1.0)
        ret = R.call(bayer.recomposite_bayer, *planes, cfa=cfa, output=buf)
        R.expect(ret is buf, f'recomposite:{cfa}:output', 'output= array is not the returned array')
        R.expect_equal(buf, x0, f'recomposite(decomposite):{cfa}', 'round trip through output= buffer')
        di = R.call(bayer.demosaic_deinterlace, x, cfa)
        pr, pg1, pg2, pb = (np.asarray(p) for p in planes)
        R.expect_close(di, np.stack([pr, (pg1 + pg2) / 2, pb], axis=2), 4 * EPS * x.max(), f'deinterlace:{cfa}', 'dense mosaic')
    buf = np.full((m, n), -1.0)
    ret = R.call(bayer.composite_bayer, x, x, x, x, cfa=cfa, output=buf)
    R.expect(ret is buf, f'composite:{cfa}:output', 'output= array is not the returned array')
    R.expect_equal(buf, x0, f'composite:{cfa}', 'compositing four copies of a mosaic must return it')
    # in-place compositing: output= is one of the four colour planes themselves (each plane keeps its own native sites, so every choice
    # is well defined: the result has each plane's values at that plane's sites)
    pl = [x0 + 1000.0 * (k + 1) for k in range(4)]          # four different full-resolution planes
    sep = R.call(bayer.composite_bayer, *[p_.copy() for p_ in pl], cfa=cfa, hygiene=False)
    if sep is not FAILED:
        for k, pname in enumerate(('r', 'g1', 'g2', 'b')):
            args = [p_.copy() for p_ in pl]
            ret = R.call(bayer.composite_bayer, *args, cfa=cfa, output=args[k], hygiene=False, sig=f'composite:{cfa}:output-aliases-plane:exception')
            R.expect_equal(ret, sep, f'composite:{cfa}:output-aliases-{pname}', f'composite_bayer(..., output=<the {pname} plane>) differs from compositing into a fresh array')
    R.nontrivial(True)
    R.outcome(cfa)


INT_MOSAICS = [('uint8', 2 ** 8 - 1), ('uint16', 2 ** 8 - 1), ('uint16', 2 ** 16 - 1),
               ('uint32', 2 ** 8 - 1), ('uint32', 2 ** 16 - 1), ('uint32', 2 ** 28), ('uint32', 2 ** 32 - 1),
               ('int64', 2 ** 8 - 1), ('int64', 2 ** 16 - 1), ('int64', 2 ** 28), ('int64', 2 ** 32 - 1)]


def ints(a):
    return [int(v) for v in np.asarray(a).ravel().tolist()]


def run_bayer_int(case, seed, R):
    """Integer raw frames: every routine must hand back the raw sample at its native colour site EXACTLY."""
    m, n, cfa, dt, top = case['m'], case['n'], case['cfa'], case['dtype'], case['top']
    h, w = m // 2, n // 2
    k = np.arange(m * n, dtype=np.int64)
    vals = np.where(k % 3 == 0, k % (top + 1), top - (7 * k + 3) % min(top + 1, 1021))     # low counts and odd values just below the top
    x = vals.astype(dt).reshape(m, n)
    x0 = x.copy()
    xi = [[int(v) for v in row] for row in x0.tolist()]
    tag = f'{dt}:top=2^{int(np.log2(top + 1)) if (top + 1) & top == 0 else 28}'
    planes = R.call(bayer.decomposite_bayer, x, cfa)
    if planes is not FAILED and R.expect(len(planes) == 4 and all(np.asarray(p).shape == (h, w) for p in planes), f'decomposite:int:{cfa}', 'four (m//2, n//2) planes'):
        for nm, p in zip(PLANES, planes):
            want = [xi[i][j] for i in range(m) for j in range(n) if colour(i, j, cfa) == nm]
            R.expect(ints(p) == want, f'decomposite:int:{cfa}', f'plane {nm} of a {tag} mosaic is not the raw samples')
        back = R.call(bayer.recomposite_bayer, *[np.ascontiguousarray(p) for p in planes], cfa)
        if back is not FAILED:
            R.expect(np.asarray(back).shape == (m, n) and ints(back) == ints(x0), f'recomposite(decomposite):int:{cfa}', f'round trip of a {tag} mosaic')
    back = R.call(bayer.composite_bayer, x, x, x, x, cfa)
    if back is not FAILED:
        R.expect(np.asarray(back).shape == (m, n) and ints(back) == ints(x0), f'composite:int:{cfa}', f'compositing four copies of a {tag} mosaic')
    di = R.call(bayer.demosaic_deinterlace, x, cfa)
    if di is not FAILED and R.expect(np.asarray(di).shape == (h, w, 3), f'deinterlace:int:{cfa}', 'shape (m//2, n//2, 3)'):
        di = np.asarray(di)
        for ch, nm in ((0, 'r'), (2, 'b')):
            want = [xi[i][j] for i in range(m) for j in range(n) if colour(i, j, cfa) == nm]
            got = di[..., ch].ravel().tolist()
            R.expect(all(float(g) == float(wv) and int(g) == wv for g, wv in zip(got, want)), f'deinterlace:native-site:int:{cfa}',
                     f'{nm} plane of demosaic_deinterlace on a {tag} mosaic is not the raw samples (first {got[:3]} vs {want[:3]})')
    rgb = R.call(bayer.demosaic_malvar, x, cfa)
    R.expect(ints(x) == ints(x0), f'malvar:{cfa}:mutates-input', 'demosaic_malvar modified its integer input')
    if rgb is not FAILED and R.expect(np.asarray(rgb).shape == (m, n, 3), f'malvar:int:{cfa}:shape', 'shape (m, n, 3)'):
        rgb = np.asarray(rgb)
        bad = []
        for i in range(m):
            for j in range(n):
                ch = {'r': 0, 'g1': 1, 'g2': 1, 'b': 2}[colour(i, j, cfa)]
                g = rgb[i, j, ch].item()
                if not (float(g) == float(xi[i][j]) and int(g) == xi[i][j]):
                    bad.append((i, j, g, xi[i][j]))
        R.expect(not bad, f'malvar:native-site:int:{cfa}', f'{tag} mosaic: raw sample changed at its native colour site (i, j, got, raw): {bad[:4]}')
    R.nontrivial(True)
    R.outcome(dt)



# ---------------------------------------------------------------------------------------------
# argument forms of the colour planes: where the four arrays live in memory and in which order they are handed over

PLANE_FORMS = ('fresh', 'decomposite:rggb', 'decomposite:bggr', 'site-slices', 'site-slices-of-window', 'stack', 'last-axis', 'same-object')
PERMS = [list(p) for p in itertools.permutations(range(4))]


def planes_in_form(form, h, w, dt, R):
    """Four (h, w) planes with pairwise different content, living in memory as the form says; FAILED if prysm could not cut them."""
    vals = ((np.arange(4 * h * w, dtype=np.int64).reshape(4, h, w) * 7 + 3) % 4093 + 1).astype(dt)
    if np.dtype(dt).kind == 'f':
        vals = vals + 0.25
    if form == 'fresh':
        return [vals[k].copy() for k in range(4)]
    if form == 'stack':
        st = vals.copy()
        return [st[k] for k in range(4)]
    if form == 'last-axis':
        st = np.ascontiguousarray(np.moveaxis(vals, 0, 2))          # (h, w, 4), e.g. an image with four channels
        return [st[..., k] for k in range(4)]
    if form == 'same-object':
        a = vals[0].copy()
        return [a, a, a, a]
    # strided views into ONE owning mosaic of shape (2h, 2w)
    if form == 'site-slices-of-window':
        big = np.full((2 * h + 3, 2 * w + 5), 9, dtype=dt)
        mosaic = big[1:1 + 2 * h, 2:2 + 2 * w]
    else:
        mosaic = np.empty((2 * h, 2 * w), dtype=dt)
    for k, (pi, pj) in enumerate(((0, 0), (0, 1), (1, 0), (1, 1))):
        mosaic[pi::2, pj::2] = vals[k]
    if form.startswith('decomposite:'):
        out = R.call(bayer.decomposite_bayer, mosaic, form.split(':')[1], hygiene=False, sig='decomposite:forms:exception')     # the live views a user gets
        if out is FAILED or len(out) != 4 or not all(isinstance(p, np.ndarray) and p.shape == (h, w) for p in out):
            R.violation('decomposite:forms:shape', 'decomposite_bayer did not return four (m//2, n//2) arrays')
            return FAILED
        return list(out)
    return [mosaic[pi::2, pj::2] for (pi, pj) in ((1, 1), (0, 0), (1, 0), (0, 1))]


def run_bayer_forms(case, seed, R):
    h, w, form, dt, cfa = case['h'], case['w'], case['form'], case['dtype'], case['cfa']
    planes = planes_in_form(form, h, w, dt, R)
    if planes is FAILED:
        return
    fclass = form.split(':')[0]
    for perm in PERMS:
        args = [planes[k] for k in perm]
        snaps = [np.array(a) for a in args]
        order = 'as-cut' if perm == [0, 1, 2, 3] else 'permuted'
        # recomposite: (h, w) planes -> (2h, 2w) mosaic
        want = np.empty((2 * h, 2 * w), dtype=dt)
        for i in range(2 * h):
            for j in range(2 * w):
                want[i, j] = snaps[PLANES.index(colour(i, j, cfa))][i // 2, j // 2]
        sig = f'recomposite:planes={fclass}:{order}:{cfa}'
        out = R.call(bayer.recomposite_bayer, *args, cfa=cfa, sig=sig + ':exception')
        if R.expect_equal(out, want, sig, f'recomposite_bayer of {form} planes handed over in order {perm}, cfa={cfa}: every sample must sit at its colour\'s native site of the REQUESTED layout'):
            R.expect(np.asarray(out).dtype == np.dtype(dt), sig + ':dtype', f'dtype {np.asarray(out).dtype} != {dt} of the planes')
            back = R.call(bayer.decomposite_bayer, out, cfa, hygiene=False)
            if back is not FAILED and R.expect(len(back) == 4, f'decomposite(recomposite):planes={fclass}', 'four planes expected'):
                for nm, b, sn in zip(PLANES, back, snaps):
                    R.expect_equal(b, sn, f'decomposite(recomposite):planes={fclass}:{order}:{cfa}', f'plane {nm} of decomposite_bayer(recomposite_bayer({form} planes in order {perm}))')
        for a, sn in zip(args, snaps):
            R.expect_equal(a, sn, f'recomposite:planes={fclass}:input-modified', f'recomposite_bayer changed a plane ({form}, order {perm})')
        buf = np.full((2 * h, 2 * w), 5, dtype=dt)
        ret = R.call(bayer.recomposite_bayer, *args, cfa=cfa, output=buf, sig=sig + ':exception')
        if ret is not FAILED:
            R.expect(ret is buf, f'recomposite:{cfa}:output', 'output= array is not the returned array')
            R.expect_equal(buf, want, sig + ':output', f'recomposite_bayer into output= of {form} planes in order {perm}')
        # composite: the same four arrays taken as DENSE (m, n) = (h, w) planes (h, w even)
        wantc = np.empty((h, w), dtype=dt)
        for i in range(h):
            for j in range(w):
                wantc[i, j] = snaps[PLANES.index(colour(i, j, cfa))][i, j]
        sigc = f'composite:planes={fclass}:{order}:{cfa}'
        outc = R.call(bayer.composite_bayer, *args, cfa=cfa, sig=sigc + ':exception')
        R.expect_equal(outc, wantc, sigc, f'composite_bayer of {form} planes handed over in order {perm}, cfa={cfa}')
        for a, sn in zip(args, snaps):
            R.expect_equal(a, sn, f'composite:planes={fclass}:input-modified', f'composite_bayer changed a plane ({form}, order {perm})')
    R.nontrivial(True)
    R.outcome(fclass)


# ---------------------------------------------------------------------------------------------
# frame-size threshold alphabet (NOT closed over the data dimension)

def _malvar_stencils(cfa):
    st = {}
    for pi in (0, 1):
        for pj in (0, 1):
            for k, ch in enumerate('rgb'):
                row = malvar_row(2 + pi, 2 + pj, ch, 8, 8, cfa).reshape(8, 8)
                st[pi, pj, k] = {(int(i) - 2 - pi, int(j) - 2 - pj): float(row[i, j]) for i, j in zip(*np.nonzero(row))}
    return st


def ref_malvar_interior(x, cfa):
    """(value, magnitude) of the published kernels at every site at least two samples from the border: arrays (m-4, n-4, 3)."""
    m, n = x.shape
    x = x.astype(float)
    out = np.zeros((m - 4, n - 4, 3))
    mag = np.zeros((m - 4, n - 4, 3))
    for (pi, pj, k), wts in _malvar_stencils(cfa).items():
        acc = 0.0
        amag = 0.0
        for (di, dj), v in wts.items():
            blk = x[2 + pi + di:m - 2 + di:2, 2 + pj + dj:n - 2 + dj:2]
            acc = acc + v * blk
            amag = amag + abs(v) * np.abs(blk)
        out[pi::2, pj::2, k] = acc
        mag[pi::2, pj::2, k] = amag
    return out, mag


def _first_bad(bad):
    return tuple(int(v) for v in np.argwhere(bad)[0])


def run_large_bayer(case, seed, R):
    m, n, cfa, dt = case['shape'][0], case['shape'][1], case['cfa'], case['dtype']
    big = m * n > 2 ** 18          # the call-hygiene repetitions are left to the smaller frames
    x = np.abs(dense((m, n), seed, 41, complex_=False)) * 900.0 + 100.0
    if dt != 'float64':
        x = np.floor(x * 4).astype(dt)          # raw counts
    x0 = x.copy()
    sites = ((0, 0), (0, 1), (1, 0), (1, 1))
    chan = {'r': 0, 'g1': 1, 'g2': 1, 'b': 2}
    cell = f'{cfa}:large'
    rgb = R.call(bayer.demosaic_malvar, x, cfa, hygiene=not big, sig=f'malvar:{cell}:exception')
    R.expect_equal(x, x0, f'malvar:{cfa}:mutates-input', f'demosaic_malvar modified its {(m, n)} input')
    if rgb is not FAILED and R.expect(isinstance(rgb, np.ndarray) and rgb.shape == (m, n, 3), f'malvar:{cell}:shape', f'shape {getattr(rgb, "shape", None)} != {(m, n, 3)}'):
        for pi, pj in sites:
            ch = chan[colour(pi, pj, cfa)]
            bad = rgb[pi::2, pj::2, ch] != x0[pi::2, pj::2]
            R.checks += 1
            if bad.any():
                i, j = _first_bad(bad)
                R.violation(f'malvar:native-site:{cell}', f'{(m, n)} {dt} mosaic: raw sample at {(2 * i + pi, 2 * j + pj)} ({colour(pi, pj, cfa)} site) reads {rgb[2 * i + pi, 2 * j + pj, ch]!r}, '
                                                        f'raw {x0[2 * i + pi, 2 * j + pj]!r}; {int(bad.sum())} native samples changed, first wrong row {2 * i + pi}')
        if dt == 'float64':
            ref, mag = ref_malvar_interior(x0, cfa)
            bad = np.abs(rgb[2:-2, 2:-2] - ref) > 32 * EPS * mag
            R.checks += 1
            if bad.any():
                i, j, k = _first_bad(bad)
                R.violation(f'malvar:interior-kernel:{cell}', f'{(m, n)} mosaic: channel {"rgb"[k]} at {(i + 2, j + 2)} = {rgb[i + 2, j + 2, k]!r}, published kernel gives {ref[i, j, k]!r}; '
                                                             f'{int(bad.sum())} interior values wrong, first wrong row {i + 2}')
            back = R.call(bayer.composite_bayer, rgb[..., 0], rgb[..., 1], rgb[..., 1], rgb[..., 2], cfa, hygiene=not big)
            R.expect_equal(back, x0, f'composite(malvar):{cell}', f'compositing the demosaiced planes of a {(m, n)} mosaic does not return the raw mosaic')
        if not big or case.get('flat'):
            flat = R.call(bayer.demosaic_malvar, np.full((m, n), 7.0), cfa, hygiene=False)
            R.expect_close(flat, np.full((m, n, 3), 7.0), 7 * 64 * EPS, f'malvar:flat-field:{cell}', f'a flat {(m, n)} mosaic does not demosaic to the same flat level')
    planes = R.call(bayer.decomposite_bayer, x, cfa, hygiene=not big)
    if planes is not FAILED and R.expect(len(planes) == 4, f'decomposite:{cell}', 'four planes'):
        own = {colour(pi, pj, cfa): x0[pi::2, pj::2] for pi, pj in sites}
        for nm, p in zip(PLANES, planes):
            R.expect_equal(p, own[nm], f'decomposite:{cell}', f'plane {nm} of a {(m, n)} {dt} mosaic')
        back = R.call(bayer.recomposite_bayer, *[own[nm].copy() for nm in PLANES], cfa, hygiene=not big)
        R.expect_equal(back, x0, f'recomposite:{cell}', f'recomposite_bayer of the four planes of a {(m, n)} {dt} mosaic')
        di = R.call(bayer.demosaic_deinterlace, x, cfa, hygiene=not big)
        if dt == 'float64':
            R.expect_close(di, np.stack([own['r'], (own['g1'] + own['g2']) / 2, own['b']], axis=2), 4 * EPS * float(x0.max()), f'deinterlace:{cell}', f'{(m, n)} mosaic')
    if dt == 'float64':
        gains = {'r': 0.5, 'g1': 1.0, 'g2': 2.0, 'b': 1.5}
        for safe in (False, True):
            rho = max(1.0, float(x0.max()) / 800.0) if safe else 1.0
            want = x0.copy()
            for pi, pj in sites:
                want[pi::2, pj::2] = x0[pi::2, pj::2] * (gains[colour(pi, pj, cfa)] / rho)
            data = x0.copy()
            kw = dict(cfa=cfa, safe=True, saturation=800.0) if safe else dict(cfa=cfa)
            if R.call(bayer.wb_prescale, data, gains['r'], gains['g1'], gains['g2'], gains['b'], hygiene=not big, **kw) is not FAILED:
                R.expect_close(data, want, 8 * EPS * np.abs(want), f'wb_prescale:{"safe" if safe else "site-gain"}:{cell}', f'{(m, n)} mosaic scaled in place')
    R.nontrivial(True)
    R.outcome('bayer')


def ref_bindown_sum(x, factor):
    acc = 0.0
    for off in itertools.product(*[range(f) for f in factor]):
        acc = acc + x[tuple(slice(o, None, f) for o, f in zip(off, factor))]
    return acc


def ref_tile_rep(y, factor):
    out = y
    for ax, f in enumerate(factor):
        out = np.repeat(out, f, axis=ax)
    return out


def run_large_bin(case, seed, R):
    small, factor = tuple(case['small']), tuple(case['factor'])
    shape = tuple(a * f for a, f in zip(small, factor))
    pf = float(np.prod(factor))
    nd = len(shape)
    big = int(np.prod(shape)) > 2 ** 18
    x = dense(shape, seed, 42, complex_=False)
    y = dense(small, seed, 43, complex_=False)
    want = ref_bindown_sum(x, factor)
    tol = 8 * EPS * ref_bindown_sum(np.abs(x), factor) * max(1.0, np.log2(pf))
    cell = f'{nd}d:large'
    bs = R.call(detector.bindown, x, factor, 'sum', hygiene=not big, sig=f'bindown:sum:{cell}:exception')
    if R.expect_close(bs, want, tol, f'bindown:sum:{cell}', f'bindown({shape}, {factor}, sum) vs the sum of the {int(pf)} strided sub-arrays, every bin'):
        R.expect_close(float(np.asarray(bs).sum()), float(x.sum()), 64 * EPS * float(np.abs(x).sum()), f'bindown:sum:{cell}:conserve', f'total of a {shape} array')
    ba = R.call(detector.bindown, x, factor, 'avg', hygiene=not big, sig=f'bindown:avg:{cell}:exception')
    R.expect_close(ba, want / pf, tol / pf, f'bindown:avg:{cell}', f'bindown({shape}, {factor}, avg), every bin')
    rep = ref_tile_rep(y, factor)
    ta = R.call(detector.tile, y, factor, 'avg', hygiene=not big, sig=f'tile:avg:{cell}:exception')
    R.expect_equal(ta, rep, f'tile:avg:{cell}', f'tile({small}, {factor}, avg) must replicate every value')
    ts = R.call(detector.tile, y, factor, 'sum', hygiene=not big, sig=f'tile:sum:{cell}:exception')
    if R.expect_close(ts, rep / pf, 4 * EPS * np.abs(rep / pf), f'tile:sum:{cell}', f'tile({small}, {factor}, sum) vs value/prod(factor), every element'):
        R.expect_close(float(np.asarray(ts).sum()), float(y.sum()), 64 * EPS * float(np.abs(y).sum()), f'tile:sum:{cell}:conserve', f'total of the tiled {small} array')
        if ba is not FAILED and np.asarray(ba).shape == small:
            R.expect_close(float((x * np.asarray(ts)).sum()), float((np.asarray(ba) * y).sum()), 64 * EPS * float((np.abs(x) * np.abs(rep / pf)).sum()),
                           f'adjoint:bindown(avg)-tile(sum):{cell}', f'<x, tile(y)> != <bindown(x), y> for shape {shape} factor {factor}')
    R.nontrivial(pf > 1)
    R.outcome('bin')


def run_large_expose(case, seed, R):
    shape, bits, gain, frames, maps = tuple(case['shape']), case['bits'], case['gain'], case['frames'], case['maps']
    bias, fwc = 10, 1e12
    n = shape[0] * shape[1]
    big = n * frames > 2 ** 18
    dcnu = nu_map(maps, shape)
    prnu = nu_map(maps, shape)
    dc = 0.0 if dcnu is None else 2.0
    P = dict(bits=bits, gain=gain, bias=bias, fwc=fwc, dcnu=dcnu, prnu=prnu, dc=dc)
    cap = 2 ** bits - 1
    want_shape = shape if frames == 1 else (frames, *shape)
    want_dtype = np.uint8 if bits <= 8 else np.uint16 if bits <= 16 else np.uint32
    det = detector.Detector(dark_current=dc, read_noise=3.0, bias=bias, fwc=fwc, conversion_gain=gain, bits=bits, exposure_time=T_EXP,
                            prnu=None if prnu is None else prnu.copy(), dcnu=None if dcnu is None else dcnu.copy())
    k = np.arange(n, dtype=float)
    ramp = ((k * 7919) % n + 1).reshape(shape) * (1.2 * cap * gain / n)       # every pixel different (7919 prime, coprime to every n used), a sixth saturated
    sig = 'expose:large'
    with noise_free():
        out = R.call(det.expose, ramp / T_EXP, frames, hygiene=not big, sig=sig + ':exception')
    if out is not FAILED:
        try:
            out = np.asarray(out)
            ok = out.shape == want_shape and out.dtype == want_dtype
        except Exception:   # noqa
            ok = False
        if R.expect(ok, sig + ':shape-dtype', f'{getattr(out, "shape", None)} {getattr(out, "dtype", None)} != documented {want_shape} {np.dtype(want_dtype)}'):
            dn = out.astype(np.int64).reshape((frames, *shape))
            lo, hi, regime = ref_expose(ramp / T_EXP, P)
            bad = (dn < lo) | (dn > hi)
            R.checks += 1
            if bad.any():
                i = _first_bad(bad)
                R.violation(sig + f':value:{regime[i[1:]]}', f'{shape} frame x {frames}: DN {dn[i]} at frame/pixel {i}, reference {lo[i[1:]]}..{hi[i[1:]]} (bits={bits} gain={gain} maps={maps}; {int(bad.sum())} pixels wrong)')
    R.nontrivial(True)
    R.outcome('expose')


def run_large(case, seed, R):
    return {'bayer': run_large_bayer, 'bin': run_large_bin, 'expose': run_large_expose}[case['what']](case, seed, R)


# ---------------------------------------------------------------------------------------------
# white balance helpers

GAINS = (0.5, 1.0, 2.0)
SAT = 100.0
SAT_LIST = {'pre': [100.0, 120.0, 80.0, 90.0], 'post': [100.0, 120.0, 80.0]}
EXCESS_ALL = {'pre': {'r': 1.2, 'g1': 2.0, 'g2': 1.7, 'b': 1.5}, 'post': {'r': 1.2, 'g': 2.0, 'b': 1.5}}


def run_wb(case, seed, R):
    helper, cfa, (m, n), safe, hot, gi, satform = case['helper'], case['cfa'], case['shape'], case['safe'], case['hot'], case['gains'], case['sat']
    names = PLANES if helper == 'pre' else ('r', 'g', 'b')
    gains = dict(zip(names, (GAINS[k] for k in gi)))
    sat = None
    sats = {}
    if safe:
        if satform == 'cross':
            # distinct per-plane levels; plane 'amax' holds the largest absolute peak, plane 'rmax' the largest peak/saturation
            a_pl, r_pl = names[case['amax']], names[case['rmax']]
            spare = iter((400.0, 450.0, 350.0))
            sats, peaks = {}, {}
            for nm in names:
                if nm == r_pl:
                    sats[nm] = 1000.0 if a_pl == r_pl else 100.0
                    peaks[nm] = 3.0 * sats[nm]
                elif nm == a_pl:
                    sats[nm], peaks[nm] = 1000.0, 1500.0
                else:
                    sats[nm] = next(spare)
                    peaks[nm] = sats[nm] * (1.2 if case['over'] else 0.5)
            sat = [sats[nm] for nm in names]
        else:
            sat = SAT if satform == 'scalar' else list(SAT_LIST[helper])
            sats = dict(zip(names, [SAT] * len(names) if satform == 'scalar' else SAT_LIST[helper]))
    # planes: non-negative, below 0.9 * saturation unless 'hot'
    base = {}
    for k, nm in enumerate(names):
        shp = (m // 2, n // 2) if helper == 'pre' else (m, n)
        a = np.abs(dense(shp, seed, 30 + k, complex_=False)) + 0.05
        s_nm = sats.get(nm, SAT)
        a = a / a.max() * 0.9 * s_nm
        if satform == 'cross':
            a = a / 0.9 / s_nm * peaks[nm]
        elif hot == nm:
            a = a / 0.9 * 1.5
        elif hot == 'all':
            a = a / 0.9 * EXCESS_ALL[helper][nm]
        base[nm] = a
    rho = 1.0
    if safe:
        rho = max([1.0] + [float(base[nm].max()) / sats[nm] for nm in names])
    if helper == 'pre':
        mosaic = np.zeros((m, n))
        for i in range(m):
            for j in range(n):
                mosaic[i, j] = base[colour(i, j, cfa)][i // 2, j // 2]
        want = np.zeros((m, n))
        for i in range(m):
            for j in range(n):
                want[i, j] = mosaic[i, j] * (gains[colour(i, j, cfa)] / rho)
        data = mosaic.copy()
        kw = dict(cfa=cfa, safe=True, saturation=sat) if safe else dict(cfa=cfa)
        ret = R.call(bayer.wb_prescale, data, gains['r'], gains['g1'], gains['g2'], gains['b'], **kw)
        sig = f'wb_prescale:safe:hot={hot}' if safe else f'wb_prescale:site-gain:{cfa}'
    else:
        rgb = np.stack([base[nm] for nm in names], axis=2)
        want = np.stack([base[nm] * (gains[nm] / rho) for nm in names], axis=2)
        data = rgb.copy()
        kw = dict(safe=True, saturation=sat) if safe else {}
        ret = R.call(bayer.wb_postscale, data, gains['r'], gains['g'], gains['b'], **kw)
        sig = f'wb_postscale:safe:hot={hot}' if safe else 'wb_postscale:gain'
    if ret is not FAILED:
        R.expect_close(data, want, 8 * EPS * np.abs(want), sig,
                       f'{helper}scale in place, gains {gains}, saturation {sat}, hot plane {hot}: expected gains / {rho:.4g}')
        if safe:
            # the limiting itself: no plane ends above gain * saturation
            for k, nm in enumerate(names):
                if helper == 'pre':
                    sel = np.array([[colour(i, j, cfa) == nm for j in range(n)] for i in range(m)])
                    got = data[sel]
                else:
                    got = data[..., k]
                R.expect(got.max() <= gains[nm] * sats[nm] * (1 + 8 * EPS), sig + ':limit',
                         f'plane {nm} reaches {got.max()!r} > gain*saturation = {gains[nm] * sats[nm]} after safe scaling')
    if safe and hot == 'none' and gi == [1] * len(names):
        # documented: safe scaling needs a saturation
        fn, args = (bayer.wb_prescale, (1, 1, 1, 1, cfa)) if helper == 'pre' else (bayer.wb_postscale, (1, 1, 1))
        try:
            fn(data.copy(), *args, safe=True)
            R.violation(f'wb_{helper}scale:safe:no-saturation', 'safe=True without saturation did not raise ValueError')
        except ValueError:
            pass
        except Exception as e:   # noqa
            R.violation(f'wb_{helper}scale:safe:no-saturation', f'raised {type(e).__name__}, expected ValueError')
        R.tick()
    R.nontrivial(True)
    R.outcome(f'{helper}:{"safe" if safe else "plain"}')


# ---------------------------------------------------------------------------------------------

def divisors(n):
    return [d for d in range(1, n + 1) if n % d == 0]


def plan(tier, seed):
    expose_cases = [{'bits': b, 'gain': g, 'bias': bi, 'fwc': fw, 'frames': fr, 'dcnu': dn, 'prnu': pn, 'shape': list(sh)}
                    for dn in (None, 'ones', 'ramp') for pn in (None, 'ones', 'ramp')
                    for b in range(1, 33) for g in (1.0, 0.5, 2.0, 3.7) for bi in (0, 10, -5) for fw in (1e3, 1e12)
                    for fr in (1, 3) for sh in ((2, 4), (3, 3))]
    # line sensors and single pixels: unit-length IMAGE axes must survive (only the frame axis is squeezed for frames=1)
    expose_cases += [{'bits': b, 'gain': g, 'bias': bi, 'fwc': fw, 'frames': fr, 'dcnu': dn, 'prnu': pn, 'shape': list(sh)}
                     for dn in (None, 'ramp') for pn in (None, 'ramp') for b in (1, 8, 12, 16, 32) for g in (1.0, 3.7) for bi in (0, 10, -5)
                     for fw in (1e3, 1e12) for fr in (1, 3) for sh in DEGENERATE]
    forms_cases = [{'bits': b, 'prec': pr, 'bias': bi, 'read_noise': rn, 'maps': mp, 'fwc': fw, 'gain': g, 'frames': fr}
                   for pr in (64, 32) for b in (8, 12, 16, 24, 25, 31, 32) for bi in (0, 10, 10.0, -5) for rn in (0, 0.0, 3.0) for mp in (None, 'ramp')
                   for fw in (1000, 1000.75, 10 ** 12, 1e12 + 0.5) for g in (0.25, 1.0, 3.7) for fr in (1, 3)]
    layout_cases = [{'bits': b, 'gain': g, 'frames': fr, 'maps': mp, 'maps_too': mt, 'shape': list(sh), 'layout': lay}
                    for lay in LAYOUTS for sh in ((2, 4), (3, 3), (4, 6), (5, 2)) + DEGENERATE for b in (8, 12, 16, 32) for g in (1.0, 3.7) for fr in (1, 3)
                    for mp, mt in ((None, False), ('ramp', False), ('ramp', True))]
    B1, B2, B3 = (6, 6, 6) if tier == 'quick' else (12, 8, 6)
    shapes = [(a,) for a in range(1, B1 + 1)] + list(itertools.product(range(1, B2 + 1), repeat=2)) + list(itertools.product(range(1, B3 + 1), repeat=3))
    shapes.sort(key=lambda s: (len(s), int(np.prod(s)), s))
    bin_cases = [{'shape': list(s), 'factor': list(f)} for s in shapes for f in itertools.product(*[divisors(a) for a in s])]
    Bd = 4 if tier == 'quick' else 6
    dshapes = [sh for sh in shapes if len(sh) < 3 or max(sh) <= Bd]
    bin_dtype_cases = [{'shape': list(sh), 'factor': list(f), 'dtype': dt} for dt in BIN_DTYPES for sh in dshapes
                       for f in itertools.product(*[divisors(a) for a in sh])]
    BB = 8 if tier == 'quick' else 12
    bayer_cases = [{'m': m, 'n': n, 'cfa': cfa} for m in range(2, BB + 1, 2) for n in range(2, BB + 1, 2) for cfa in ('rggb', 'bggr')]
    bayer_int_cases = [{'m': m, 'n': n, 'cfa': cfa, 'dtype': dt, 'top': top} for m in range(2, BB + 1, 2) for n in range(2, BB + 1, 2)
                       for cfa in ('rggb', 'bggr') for dt, top in INT_MOSAICS]
    wb_cases = []
    for helper, names in (('pre', PLANES), ('post', ('r', 'g', 'b'))):
        for cfa in (('rggb', 'bggr') if helper == 'pre' else ('rggb',)):
            for shape in ([2, 2], [4, 6]):
                for gi in itertools.product(range(3), repeat=len(names)):
                    wb_cases.append({'helper': helper, 'cfa': cfa, 'shape': shape, 'safe': False, 'hot': 'none', 'gains': list(gi), 'sat': 'none'})
                    for hot in ('none',) + tuple(names) + ('all',):
                        for satform in ('scalar', 'list'):
                            wb_cases.append({'helper': helper, 'cfa': cfa, 'shape': shape, 'safe': True, 'hot': hot, 'gains': list(gi), 'sat': satform})
    for helper, names in (('pre', PLANES), ('post', ('r', 'g', 'b'))):
        for cfa in (('rggb', 'bggr') if helper == 'pre' else ('rggb',)):
            for shape in ([2, 2], [4, 6]):
                for gi in itertools.product(range(3), repeat=len(names)):
                    for am in range(len(names)):
                        for rm in range(len(names)):
                            for over in (False, True):
                                wb_cases.append({'helper': helper, 'cfa': cfa, 'shape': shape, 'safe': True, 'hot': f'cross:{names[am]}>{names[rm]}', 'gains': list(gi),
                                                 'sat': 'cross', 'amax': am, 'rmax': rm, 'over': over})
    # ONE Detector object: exposures and re-configurations
    hd_inits = [{'start': {}, 'frames': 1},
                {'start': {'conversion_gain': 1, 'bits': 1, 'bias': 1, 'dark_current': 1, 'prnu': 1, 'dcnu': 1}, 'frames': 3}]
    hd_depth = 3 if tier == 'quick' else 4
    # plane argument forms
    forms_shapes = [(2, 2), (2, 4), (4, 6)] if tier == 'quick' else [(2, 2), (2, 4), (4, 2), (4, 6), (6, 4), (8, 8)]
    bayer_forms_cases = [{'h': h, 'w': w, 'form': f, 'dtype': dt, 'cfa': cfa} for (h, w) in forms_shapes for dt in ('float64', 'uint16') for f in PLANE_FORMS for cfa in ('rggb', 'bggr')]
    # frame-size thresholds
    T1 = [2 ** k + 1 for k in range(7, 17)] + [2 ** k + 2 ** (k - 1) + 3 for k in range(7, 17)]
    mos_shapes = [(130, 4), (4, 130), (150, 150), (182, 184), (258, 6), (6, 258), (300, 300), (258, 1030), (1030, 258), (2050, 34), (34, 2050), (514, 130)]
    # > 2^20 samples; 2^20 // ncols: 953 (odd), 1022 (even);   thorough: 349 (odd), 2995 (odd), 1024, 953, 2912 (even)
    mos_huge = [(954, 1100), (1026, 1026)] + ([] if tier == 'quick' else [(360, 3000), (2998, 350), (1030, 1024), (1400, 1100), (3000, 360), (2050, 1026)])
    large_cases = [{'what': 'bayer', 'shape': list(sh), 'cfa': cfa, 'dtype': 'float64'} for sh in mos_shapes for cfa in ('rggb', 'bggr')]
    large_cases += [{'what': 'bayer', 'shape': list(sh), 'cfa': cfa, 'dtype': 'uint16'} for sh in ((130, 4), (150, 150), (258, 1030)) for cfa in ('rggb', 'bggr')]
    large_cases += [{'what': 'bayer', 'shape': list(sh), 'cfa': cfa, 'dtype': 'float64', 'flat': tier != 'quick'} for sh in mos_huge for cfa in ('rggb', 'bggr')]
    large_cases += [{'what': 'bin', 'small': [t], 'factor': [f]} for t in T1 for f in (2, 3)]
    large_cases += [{'what': 'bin', 'small': list(sm), 'factor': list(f)} for sm, f in (
        ((129, 3), (2, 2)), ((129, 3), (1, 5)), ((75, 50), (2, 3)), ((30, 30), (5, 5)), ((181, 182), (2, 3)), ((150, 150), (2, 2)), ((100, 75), (3, 4)),
        ((257, 1030), (2, 1)), ((257, 1030), (2, 3)), ((513, 1027), (2, 2)), ((17, 33, 5), (2, 2, 2)), ((129, 3, 3), (1, 2, 3)))]
    exp_shapes = [(129, 3), (150, 150), (181, 182), (300, 300), (257, 1030), (1025, 1025)]
    large_cases += [{'what': 'expose', 'shape': list(sh), 'bits': b, 'gain': g, 'frames': fr, 'maps': mp}
                    for sh in exp_shapes for (b, g, mp) in ((12, 3.7, None), (16, 1.0, 'ramp')) for fr in ((1, 3) if sh[0] * sh[1] <= 2 ** 17 else (1,))]
    return [
        HistoryUnit('detector_object_history', hd_inits, hd_fresh, hd_events, hd_apply, hd_check, hd_canon, hd_depth,
                    f'ONE Detector object (two initial configurations, frames 1 / 3, image (4,6)): every history up to depth {hd_depth} over the events expose (fixed log-spaced ramp 0..3e6 e-/s and the ceiling alphabet of the current settings, '
                    'noise-free seam, through the call-hygiene layer), reassignment of EVERY public attribute expose reads -- ' + ', '.join(f'{a} {v}' for a, v in HIST_ATTRS.items()) +
                    ' (lut = monotone 16-bit table) -- and in-place scaling of the prnu / dcnu map the detector holds; states are never merged; in EVERY state a probe exposure of the live object must have the documented shape / dtype / range, '
                    'lie in the reference band of the noise-free law for the CURRENT attribute values, and equal bit for bit the exposure of a fresh Detector constructed with the current values'),
        ScopeUnit('bayer_plane_forms', bayer_forms_cases, run_bayer_forms,
                  f'plane shapes {forms_shapes} x dtype {{float64, uint16}} x CFA x where the four planes live {PLANE_FORMS} (independent arrays; the live views decomposite_bayer returns for either layout; '
                  'harness-cut site slices of an owning mosaic / of a window of a larger frame, handed over in another site order; rows of a (4,h,w) stack; channels of an (h,w,4) image; one array object four times) '
                  'x ALL 24 orders in which the four arrays are handed to (r, g1, g2, b): recomposite_bayer (fresh result and output= buffer) and composite_bayer must put every sample of every plane at the native site of that colour in the REQUESTED layout, '
                  'decomposite_bayer of the result returns the planes, the planes are untouched'),
        ScopeUnit('frame_size_thresholds', large_cases, run_large,
                  f'size threshold alphabet, NOT closed over the data dimension (one seeded dense frame per size, judged on EVERY element): mosaics {mos_shapes} and > 2^20 samples {mos_huge} (2^20 // columns odd and even) x CFA '
                  '(float64; uint16 counts on three sizes): demosaic_malvar native sites exact, every value two or more samples from the border equals the published kernels, composite of the result returns the raw frame, flat field stays flat '
                  f'({"frames up to 2^18 samples" if tier == "quick" else "every size"}), decomposite / recomposite / demosaic_deinterlace / wb_prescale (plain, safe) against own strided slices; '
                  f'bindown (sum, avg) / tile (avg, sum) with 1-D outputs of 2^k+1 and 2^k+2^(k-1)+3 bins, k = 7..16, factors 2 and 3, and 2-D / 3-D outputs (129,3) (75,50) (181,182) (150,150) (257,1030) (513,1027) (17,33,5) ... against sums of strided sub-arrays / np.repeat, totals, adjointness; '
                  f'noise-free expose of frames {exp_shapes} (every pixel different, a sixth saturated) x (12 bit gain 3.7 | 16 bit gain 1 with ramp prnu/dcnu maps) x frames {{1, 3 up to 2^17 pixels}} against the reference model', chunk=1),
        ScopeUnit('expose', expose_cases, run_expose,
                  'bits EVERY value 1..32 x gain {0.5,1,2,3.7} x bias {0,10,-5} x fwc {1e3,1e12} x frames {1,3} x dcnu,prnu {None, ones, ramp 0.5..1.5} (2-D maps of the image shape) '
                  'x image shape {(2,4),(3,3)}, plus the unit-axis shapes {(1,1),(1,2),(2,1),(1,5),(5,1)} on bits {1,8,12,16,32} x gain {1,3.7} x maps {None, ramp}; per configuration one uniform exposure for every signal in {0,0.4,1,c-1,c,c+1,10c (c = (2^bits-1)*gain and fwc, also shifted by the bias), 2^bits*gain, 1e13} '
                  'plus one image mixing them; noise-free via the mathops backend shim; oracle: shape, dtype, range, reference model (band of one DN only where x/gain is within 8 eps of an integer), '
                  'monotone over ALL ordered signal pairs per pixel and frame'),
        ScopeUnit('expose_forms', forms_cases, run_expose_forms,
                  'config.precision {64, 32} x bits {8,12,16,24,25,31,32} x bias {int 0, int 10, float 10.0, int -5} x read_noise {int 0, 0.0, 3.0} x prnu/dcnu {None, ramp maps} x fwc {int 1000, 1000.75, int 10^12, 1e12+0.5} '
                  'x gain {0.25, 1 (exact), 3.7 (inexact)} x frames {1,3}, image (2,4); the noise-free seam returns the dtypes of the real generators (poisson -> int64 = round(mean), normal -> float64); '
                  'the full ceiling signal alphabet (unsaturated, at full well, ADC-saturated) against the reference model: shape, dtype, range, value band, monotone over all ordered pairs', reset=lambda: reset_executors(64)),
        ScopeUnit('expose_layout', layout_cases, run_expose_layout,
                  'aerial-image memory layout {C, Fortran, transposed view, strided slice of a larger frame, negative strides} x shapes {(2,4),(3,3),(4,6),(5,2)} and unit-axis shapes {(1,1),(1,2),(2,1),(1,5),(5,1)} x bits {8,12,16,32} '
                  'x gain {1,3.7} x frames {1,3} x non-uniformity maps {None, ramp in C order, ramp in the same layout}: images whose pixels all differ (ramp into saturation, mixed ceiling alphabet) '
                  'must come back pixel for pixel as the reference model says, whatever the layout'),
        ScopeUnit('bin_tile', bin_cases, run_bin,
                  f'every shape with axes <= {B1} (1-D), {B2} (2-D), {B3} (3-D) x EVERY per-axis factor tuple dividing it: operator matrices over every unit impulse of bindown(sum), bindown(avg), tile(avg), tile(sum) '
                  'against the block-membership matrix; total / level conservation; both documented adjoint pairs; dense array, defaults, aliases, scalar factor, invalid mode'),
        ScopeUnit('bin_tile_dtype', bin_dtype_cases, run_bin_dtype,
                  f'dtype {{bool, uint8, uint16, int32, float32}} x every shape (1-D, 2-D as above, 3-D axes <= {Bd}) x EVERY dividing factor tuple x data {{at the top of the dtype range, mid-range (12-bit frames, dense masks)}}: '
                  'bindown(sum) equals the exact per-bin sums and conserves the total computed in Python integers; bindown(avg) equals the exact means; tile(avg) replicates exactly, tile(sum) spreads value/prod(factor)'),
        ScopeUnit('bayer', bayer_cases, run_bayer,
                  f'every even shape in [2..{BB}]^2 x CFA {{rggb, bggr}}: operator matrices of decomposite_bayer, recomposite_bayer, composite_bayer, demosaic_deinterlace, demosaic_malvar against the '
                  'colour-of-site function; round trips both ways; Malvar native sites are exact identity rows, all rows sum to 1, interior rows equal the published kernels; dense mosaic, output= buffers'),
        ScopeUnit('bayer_int', bayer_int_cases, run_bayer_int,
                  f'integer raw frames: every even shape in [2..{BB}]^2 x CFA x (dtype, top value) in {{uint8:2^8-1; uint16:2^8-1,2^16-1; uint32 and int64: 2^8-1, 2^16-1, 2^28, 2^32-1}}: decomposite / recomposite / composite exact, '
                  'r and b planes of demosaic_deinterlace and the native colour sites of demosaic_malvar equal the raw integers exactly (compared as Python ints)'),
        ScopeUnit('white_balance', wb_cases, run_wb,
                  'wb_prescale (both CFAs) and wb_postscale x shapes {(2,2),(4,6)} x ALL gain tuples from {0.5,1,2} x {plain, safe x hot plane in {none, each plane, all} x saturation {scalar, per-plane list}; plus DISTINCT per-plane saturation levels with every assignment (amax, rmax) of the plane holding the largest absolute peak and the plane with the largest peak/saturation ratio (3x3 post, 4x4 pre), other planes below / 20% above their level}: '
                  'in-place result equals site gains divided by the common ratio max(1, max(plane)/saturation) over every documented plane; no plane ends above gain*saturation'),
    ]
