"""C17 -- thin-film stacks and Fresnel coefficients conserve energy and agree with each other.

Conventions of the code under test (read off ``multilayer_stack_rt`` and tests/test_thinfilm.py)
-----------------------------------------------------------------------------------------------
* ``stack = [(n_1, d_1), ..., (n_N, d_N)]``: the LAST entry is the exit medium (substrate); it also
  gets a characteristic matrix of its own thickness, which only multiplies ``t`` by exp(+i beta_N)
  (``r`` is unaffected).  ``ambient_index`` is the medium of incidence, ``aoi`` is in DEGREES and is the
  angle in the ambient.  A stack of length one is a single interface.
* time dependence exp(-i w t): an absorbing medium is ``n + i kappa`` (kappa > 0); ``n - i kappa`` is gain.
* r, t are ratios of full electric-field amplitudes (BYU / Peatross-Ware):
  r_s = (n0 c0 - n1 c1)/(n0 c0 + n1 c1), r_p = (n0 c1 - n1 c0)/(n0 c1 + n1 c0), t_p = 2 n0 c0/(n0 c1 + n1 c0).

Reference model (independent of the library's BYU (4.55)-(4.62) formulation)
-----------------------------------------------------------------------------
Macleod / Born & Wolf admittance form: tilted admittance eta_s = n cos(theta), eta_p = n / cos(theta),
phase thickness delta = 2 pi n d cos(theta) / lambda, [B, C]^T = prod_j [[cos d, -i sin d / eta], [-i eta sin d, cos d]] [1, eta_sub]^T,
r = (eta0 B - C)/(eta0 B + C), t_tan = 2 eta0/(eta0 B + C).  For s light t = t_tan.  For p light t_tan is the
ratio of TANGENTIAL field components; the library's t is the ratio of full field amplitudes, t = t_tan cos(theta0)/cos(theta_sub).
Energy: T = Re(eta_sub)/Re(eta0) |t_tan|^2.  In terms of the library's full-amplitude t this is, for BOTH polarisations,
T = (n_s cos(theta_s))/(n_0 cos(theta_0)) |t|^2   [p: (n_s/c_s)/(n_0/c_0) * (c_s/c_0)^2 = n_s c_s/(n_0 c_0)].
(If t_p were the tangential ratio, the factor would be (n_s cos(theta_0))/(n_0 cos(theta_s)) instead.)
The reference is cross-checked at plan() time against a second formulation (Rouard / Airy recursion over
the interface Fresnel coefficients).
"""
import itertools
import math

import numpy as np

from mc import ScopeUnit, FAILED

from prysm import thinfilm as tf

ID = 'C17'
ASSUMPTIONS = [
    'the exit medium of a stack is its last entry and aoi is the angle (degrees) in the ambient, as in tests/test_thinfilm.py',
    'absorbing media are n + i*kappa (exp(-iwt) convention used by the characteristic matrices and by tests/test_thinfilm.py); '
    'n - i*kappa is a gain medium and is only compared with the reference, not with R+T<=1',
    'r and t are full-field amplitude ratios in the BYU/Peatross-Ware sign convention cited by the module, so '
    'T = (n_s cos th_s)/(n_0 cos th_0)|t|^2 for both polarisations',
    'layers may be evanescent (frustrated TIR) as long as the exit medium carries a propagating wave; '
    'incidence beyond the critical angle of the exit medium is outside the statement and is not enumerated',
]

EPS = np.finfo(float).eps
N_IDX = [1.0, 1.38, 1.5, 2.3]
T_KIND = ['0', 'qw', 'hw', 'f']            # 0, lambda/4n, lambda/2n, 0.137 um
LAMS = [0.55, 1.0]
AOIS = [0, 10, 45, 60, 80, 89, 'B']        # 'B' = Brewster angle of the first interface (ambient -> first entry)
AMBS = [1.0, 1.33]
SUBS = [1.5, 1.0, 2.3]
ABS_IDX = {'a': 1.5 + 0.02j, 'b': 2.3 + 0.5j, 'm': 0.2 + 3.4j}
KTOL = 200.0    # measured: silent at 6.0 over the whole quick scope (margin > 30x)


# ---------------------------------------------------------------------------------------------
# reference model

def _cos_in(n, s):
    """cos(theta) in a medium of index n for transverse wavevector s = n0 sin(theta0); decaying branch."""
    n = complex(n)
    c = np.sqrt((1 - (s / n) ** 2).astype(complex))
    flip = ((n * c).imag < 0) | (((n * c).imag == 0) & ((n * c).real < 0))
    return np.where(flip, -c, c)


def ref_rt(n0, entries, lam, aoi_deg, pol):
    """Reference r, t (library convention) for stack entries [(n, d), ...], last = exit medium.

    aoi_deg may be an array; returns dict of arrays r, t, T_factor, cond, evan (exit medium evanescent).
    """
    th0 = np.radians(np.asarray(aoi_deg, dtype=float))
    c0 = np.cos(th0)
    s = n0 * np.sin(th0)
    ns = entries[-1][0]
    cs = _cos_in(ns, s)

    def eta(n, c):
        return n * c if pol == 's' else n / c

    e0 = eta(n0, c0)
    es = eta(ns, cs)
    B = np.ones_like(cs)
    C = es.copy()
    Ba = np.ones(cs.shape)
    Ca = np.abs(es)
    cmin = np.minimum(np.abs(c0), np.abs(cs))
    for (n, d) in reversed(entries):
        c = _cos_in(n, s)
        cmin = np.minimum(cmin, np.abs(c))
        e = eta(n, c)
        delta = 2 * np.pi * n * d * c / lam
        cd, sd = np.cos(delta), np.sin(delta)
        B, C = cd * B - 1j * sd / e * C, -1j * e * sd * B + cd * C
        acd, asd = np.abs(cd), np.abs(sd)
        Ba, Ca = acd * Ba + asd / np.abs(e) * Ca, np.abs(e) * asd * Ba + acd * Ca
    den = e0 * B + C
    r = (e0 * B - C) / den
    t = 2 * e0 / den
    if pol == 'p':
        t = t * c0 / cs
    Tfac = (ns * cs).real / (n0 * c0) if pol == 's' else (ns * np.conj(cs)).real / (n0 * c0)
    cond = (np.abs(e0) * Ba + Ca) / np.abs(den) / cmin ** 2
    return {'r': r, 't': t, 'Tfac': Tfac, 'cond': cond, 'cs': cs, 'c0': c0}


def ref_rt_rouard(n0, entries, lam, aoi_deg, pol):
    """Second formulation: recursion over interface Fresnel coefficients (Airy summation)."""
    th0 = np.radians(np.asarray(aoi_deg, dtype=float))
    s = n0 * np.sin(th0)
    ns_ = [complex(n0)] + [complex(n) for n, _ in entries]
    cs_ = [np.cos(th0).astype(complex)] + [_cos_in(n, s) for n, _ in entries]
    ds_ = [0.0] + [d for _, d in entries]

    def iface(j):
        a, b, ca, cb = ns_[j], ns_[j + 1], cs_[j], cs_[j + 1]
        if pol == 's':
            return (a * ca - b * cb) / (a * ca + b * cb), 2 * a * ca / (a * ca + b * cb)
        return (a * cb - b * ca) / (a * cb + b * ca), 2 * a * ca / (a * cb + b * ca)

    N = len(entries)
    # beyond the last entry nothing reflects; its own thickness only adds phase to t
    G = np.zeros_like(cs_[0])
    tau = np.exp(1j * 2 * np.pi * ns_[N] * ds_[N] * cs_[N] / lam)
    for j in range(N - 1, -1, -1):
        rj, tj = iface(j)
        if j + 1 < N:
            ph = np.exp(1j * 2 * np.pi * ns_[j + 1] * ds_[j + 1] * cs_[j + 1] / lam)
        else:
            ph = 1.0
        if j + 1 == N:
            G, tau = rj, tj * tau
        else:
            den = 1 + rj * G * ph ** 2
            G, tau = (rj + G * ph ** 2) / den, tj * tau * ph / den
    return G, tau


def _selftest():
    worst = 0.0
    for L in (0, 1, 2, 3):
        for combo in itertools.islice(itertools.product(range(16), repeat=L), 0, None, 7 if L == 3 else 1):
            for n0 in AMBS:
                for sub in (1.5, 1.0):
                    ent = [(N_IDX[c // 4], thick(N_IDX[c // 4], T_KIND[c % 4], 0.55)) for c in combo] + [(sub, 0.137)]
                    aois = np.array([a for a in (0., 10., 45., 60., 80.) if n0 * math.sin(math.radians(a)) < sub])
                    for pol in 'sp':
                        a = ref_rt(n0, ent, 0.55, aois, pol)
                        g, tau = ref_rt_rouard(n0, ent, 0.55, aois, pol)
                        worst = max(worst, float(np.max(np.abs(a['r'] - g) / a['cond'])), float(np.max(np.abs(a['t'] - tau) / a['cond'])))
    if not worst < 50 * np.finfo(float).eps:    # measured 4.6 eps
        raise RuntimeError(f'C17 reference self-test failed: matrix form vs Rouard recursion differ by {worst:.3e} (cond units)')


def thick(n, kind, lam):
    nr = complex(n).real
    return {'0': 0.0, 'qw': lam / (4 * nr), 'hw': lam / (2 * nr), 'f': 0.137}[kind]


def index_of(code):
    """JSON-native index code -> python number: float, or a key of ABS_IDX, optionally with '*' (conjugate = gain)."""
    if isinstance(code, str):
        return np.conj(ABS_IDX[code[0]]).item() if code.endswith('*') else ABS_IDX[code]
    return float(code)


def entries_of(case):
    lam = case['lam']
    ent = []
    for n_code, tk in case['layers']:
        n = index_of(n_code)
        ent.append((n, thick(n, tk, lam)))
    ns = index_of(case['sub'])
    ent.append((ns, thick(ns, case.get('sub_t', '0'), lam)))
    return ent


def brewster_deg(n0, n1):
    return math.degrees(math.atan2(complex(n1).real, n0))


def resolve_aois(n0, ent):
    """Numeric aoi list for the case; 'B' is the Brewster angle of the ambient -> first-entry interface."""
    out = []
    for a in AOIS:
        out.append((str(a), brewster_deg(n0, ent[0][0]) if a == 'B' else float(a)))
    return out


def below_tir(n0, aoi, ns):
    ns = complex(ns)
    return ns.imag != 0 or n0 * math.sin(math.radians(aoi)) < ns.real * (1 - 1e-9)


def lib_rt(R, ent, lam, pol, aoi, n0, sig):
    out = R.call(tf.multilayer_stack_rt, [tuple(e) for e in ent], lam, pol, aoi=aoi, ambient_index=n0, sig=sig + ':exception')
    if out is FAILED:
        return None
    try:
        r, t = out
        r = np.asarray(r)
        t = np.asarray(t)
        if r.shape != () or t.shape != () or r.dtype.kind not in 'fc' or t.dtype.kind not in 'fc':
            raise ValueError(f'r, t of a scalar stack have shapes {r.shape}, {t.shape}, dtypes {r.dtype}, {t.dtype}')
        return complex(r), complex(t)
    except Exception as e:   # noqa
        R.violation(sig + ':output', f'unusable output of multilayer_stack_rt: {type(e).__name__}: {e}')
        return None


def amb_tag(n0):
    return 'amb=1' if n0 == 1 else 'amb>1'


# ---------------------------------------------------------------------------------------------
# unit: single interface / the four Fresnel functions

def run_fresnel(case, seed, R):
    n0, n1, lam = case['n0'], case['n1'], case['lam']
    aois = [(str(a), brewster_deg(n0, n1) if a == 'B' else float(a)) for a in AOIS]
    # library's own Brewster angle against atan(n1/n0)
    b = R.call(tf.brewsters_angle, n0, n1)
    R.expect_close(b, brewster_deg(n0, n1), 8 * EPS * 90, 'brewsters_angle', f'brewsters_angle({n0},{n1}) [deg]')
    b = R.call(tf.brewsters_angle, n0, n1, deg=False)
    R.expect_close(b, math.atan2(n1, n0), 8 * EPS, 'brewsters_angle', f'brewsters_angle({n0},{n1}) [rad]')
    for name, aoi in aois:
        if not below_tir(n0, aoi, n1):
            R.outcome('tir-excluded')
            continue
        th0 = math.radians(aoi)
        s = n0 * math.sin(th0)
        c0, c1 = math.cos(th0), math.sqrt(1 - (s / n1) ** 2)
        th1_ref = math.asin(s / n1)
        ang_cond = 1 / c1 ** 2
        th1 = R.call(tf.snell_aor, n0, n1, aoi)
        ok = R.expect_close(th1, th1_ref, KTOL * EPS * ang_cond, 'snell_aor', f'snell_aor({n0},{n1},{aoi} deg)')
        th1b = R.call(tf.snell_aor, n0, n1, th0, degrees=False)
        R.expect_close(th1b, th1_ref, KTOL * EPS * ang_cond, 'snell_aor', f'snell_aor({n0},{n1},{th0} rad)')
        th1_use = th1 if ok else th1_ref      # the documented way of calling the fresnel functions: with the Snell angle
        want = {
            'rs': (n0 * c0 - n1 * c1) / (n0 * c0 + n1 * c1),
            'ts': 2 * n0 * c0 / (n0 * c0 + n1 * c1),
            'rp': (n0 * c1 - n1 * c0) / (n0 * c1 + n1 * c0),
            'tp': 2 * n0 * c0 / (n0 * c1 + n1 * c0),
        }
        got = {}
        tol = KTOL * EPS * ang_cond
        for k, f in (('rs', tf.fresnel_rs), ('ts', tf.fresnel_ts), ('rp', tf.fresnel_rp), ('tp', tf.fresnel_tp)):
            g = R.call(f, n0, n1, th0, th1_use)
            if R.expect_close(g, want[k], tol, f'fresnel_{k}:value', f'fresnel_{k}({n0},{n1}) at {aoi} deg'):
                pass
            got[k] = g
        # energy with the library's own numbers
        fac = n1 * c1 / (n0 * c0)
        for pol in 'sp':
            r, t = got['r' + pol], got['t' + pol]
            if r is FAILED or t is FAILED:
                continue
            try:
                tot = abs(complex(r)) ** 2 + fac * abs(complex(t)) ** 2
            except Exception as e:   # noqa
                R.violation(f'fresnel_{pol}:output', f'unusable fresnel output: {e}')
                continue
            R.expect(abs(tot - 1) <= tol, f'fresnel_r{pol}:energy', f'R+T = {tot!r} != 1 for n0={n0} n1={n1} aoi={aoi} deg pol={pol}')
        if name == 'B':
            R.expect_close(got['rp'], 0.0, tol, 'fresnel_rp:brewster', f'r_p at Brewster angle {aoi} deg of {n0}->{n1}')
        # the same interface as a stack whose only entry is the exit medium (thickness 0 and > 0)
        for tk in T_KIND:
            d = thick(n1, tk, lam)
            for pol in 'sp':
                sig = f'stack:interface:{pol}:{amb_tag(n0)}'
                rt = lib_rt(R, [(n1, d)], lam, pol, aoi, n0, sig)
                if rt is None:
                    continue
                phase = np.exp(1j * 2 * np.pi * n1 * d * c1 / lam)
                R.expect_close(rt[0], want['r' + pol], tol, sig + ':r', f'one-entry stack r vs Fresnel r_{pol}, n0={n0} n1={n1} aoi={aoi} d={d}')
                R.expect_close(rt[1], want['t' + pol] * phase, tol, sig + ':t', f'one-entry stack t vs Fresnel t_{pol}*exp(i beta), n0={n0} n1={n1} aoi={aoi} d={d}')
                # ... and directly against the library's Fresnel functions (the relation the property states)
                if got['r' + pol] is not FAILED and got['t' + pol] is not FAILED:
                    R.expect_close(rt[0], got['r' + pol], tol, f'fresnel_r{pol}:vs-stack', f'one-entry stack r != fresnel_r{pol}: n0={n0} n1={n1} aoi={aoi}')
                    try:
                        R.expect_close(abs(rt[1]), abs(complex(got['t' + pol])), tol, f'fresnel_t{pol}:vs-stack', f'|t| one-entry stack != |fresnel_t{pol}|: n0={n0} n1={n1} aoi={aoi}')
                        if d == 0:
                            R.expect_close(rt[1], got['t' + pol], tol, f'fresnel_t{pol}:vs-stack', f'one-entry stack t != fresnel_t{pol}: n0={n0} n1={n1} aoi={aoi}')
                    except Exception as e:   # noqa
                        R.violation(f'fresnel_t{pol}:output', f'unusable fresnel output: {e}')
        R.nontrivial(n0 != n1)
        R.outcome('interface' if n0 != n1 else 'matched')
    # array-valued arguments (batched == element-wise, for the interface functions themselves): every admissible angle at once as a
    # 1-D array and as a 2-D array, and the indices as arrays against scalar angles
    ok_aois = [aoi for _, aoi in aois if below_tir(n0, aoi, n1)]
    if len(ok_aois) >= 2:
        th0s = np.radians(np.array(ok_aois, dtype=float))
        ss = n0 * np.sin(th0s)
        c0s, c1s = np.cos(th0s), np.sqrt(1 - (ss / n1) ** 2)
        th1s = np.arcsin(ss / n1)
        wantv = {'rs': (n0 * c0s - n1 * c1s) / (n0 * c0s + n1 * c1s), 'ts': 2 * n0 * c0s / (n0 * c0s + n1 * c1s),
                 'rp': (n0 * c1s - n1 * c0s) / (n0 * c1s + n1 * c0s), 'tp': 2 * n0 * c0s / (n0 * c1s + n1 * c0s)}
        tolv = KTOL * EPS / c1s ** 2
        g = R.call(tf.snell_aor, n0, n1, th0s.copy(), degrees=False)
        R.expect_close(g, th1s, tolv, 'snell_aor:array', f'snell_aor({n0},{n1}, array of {len(ok_aois)} angles)')
        forms = [('1d', lambda v: v.copy())]
        if len(ok_aois) % 2 == 0:
            forms.append(('2d', lambda v: v.reshape(2, -1).copy()))
        forms.append(('col', lambda v: v.reshape(-1, 1).copy()))
        for k, f in (('rs', tf.fresnel_rs), ('ts', tf.fresnel_ts), ('rp', tf.fresnel_rp), ('tp', tf.fresnel_tp)):
            for fname, mk in forms:
                g = R.call(f, n0, n1, mk(th0s), mk(th1s))
                R.expect_close(g, mk(wantv[k]), mk(tolv), f'fresnel_{k}:array:{fname}', f'fresnel_{k}({n0},{n1}) with {fname} arrays of angles vs the scalar formula element-wise')
            # indices as arrays (a dispersive interface evaluated at several wavelengths): constant arrays against one scalar angle
            j = len(ok_aois) // 2
            g = R.call(f, np.full(3, n0, dtype=float), np.full(3, n1, dtype=float), float(th0s[j]), float(th1s[j]))
            R.expect_close(g, np.full(3, wantv[k][j]), tolv[j], f'fresnel_{k}:array:index', f'fresnel_{k} with array-valued indices vs scalar')


# ---------------------------------------------------------------------------------------------
# unit: scalar stacks -- reference equality + energy

def judge_stack(R, case, ent, n0, lam, absorbing, gain, pols='sp'):
    aois = [(nm, a) for nm, a in resolve_aois(n0, ent) if below_tir(n0, a, ent[-1][0])]
    if len(aois) < len(AOIS):
        R.outcome('some-aoi-beyond-tir-excluded')
    if not aois:
        return
    av = np.array([a for _, a in aois])
    sub_abs = complex(ent[-1][0]).imag != 0
    for pol in pols:                      # the argument form given to the library ('p', 'P', 's', 'S'); the reference takes its meaning
        ref = ref_rt(n0, ent, lam, av, pol.lower())
        for k, (nm, aoi) in enumerate(aois):
            sig = f'stack:{pol}:{amb_tag(n0)}' + (':absorbing' if absorbing or gain else '')
            rt = lib_rt(R, ent, lam, pol, aoi, n0, sig)
            if rt is None:
                continue
            r, t = rt
            tol = KTOL * EPS * ref['cond'][k] * (1 + abs(ref['r'][k]) + abs(ref['t'][k]))
            R.expect_close(r, ref['r'][k], tol, sig + ':r-vs-reference', f'r vs characteristic-matrix reference, aoi={aoi}')
            R.expect_close(t, ref['t'][k], tol, sig + ':t-vs-reference', f't vs characteristic-matrix reference, aoi={aoi}')
            Rr = abs(r) ** 2
            Tt = ref['Tfac'][k] * abs(t) ** 2
            etol = 4 * tol * (1 + abs(ref['t'][k]) * abs(ref['Tfac'][k]))
            if gain:
                R.outcome('gain')
            elif absorbing or sub_abs:
                R.expect(Rr <= 1 + etol, sig + ':R<=1', f'R = {Rr!r} > 1, aoi={aoi}')
                if not sub_abs:
                    R.expect(Rr + Tt <= 1 + etol, sig + ':energy', f'R+T = {Rr + Tt!r} > 1 with absorbing layers, aoi={aoi}')
                    lossy = any(complex(n).imag > 0 and d > 0 for n, d in ent[:-1])
                    if not lossy:
                        R.expect(abs(Rr + Tt - 1) <= etol, sig + ':energy', f'R+T = {Rr + Tt!r} != 1 (all absorbing layers have zero thickness), aoi={aoi}')
                R.outcome('absorbing')
            else:
                R.expect(abs(Rr + Tt - 1) <= etol, sig + ':energy', f'R+T = {Rr + Tt!r} != 1 (lossless), aoi={aoi} R={Rr!r} T={Tt!r}')
                R.outcome('lossless')
            if nm == 'B' and pol.lower() == 'p' and len(ent) == 1 and not sub_abs:
                R.expect_close(r, 0.0, tol, 'stack:p:brewster', f'r_p of a bare interface at its Brewster angle {aoi}')
    R.nontrivial(any(complex(n) != n0 for n, _ in ent))


def run_stack(case, seed, R):
    n0, lam = case['amb'], case['lam']
    ent = entries_of(case)
    codes = [c if isinstance(c, str) else '' for c, _ in case['layers']] + [case['sub'] if isinstance(case['sub'], str) else '']
    gain = any(c.endswith('*') for c in codes if c)
    absorbing = any(c and not c.endswith('*') for c in codes)
    judge_stack(R, case, ent, n0, lam, absorbing, gain, pols=case.get('pols', 'sp'))


# ---------------------------------------------------------------------------------------------
# unit: zero-thickness and half-wave absentee insertion

INSERT_IDX = [1.38, 2.3]


def run_insert(case, seed, R):
    n0, lam = case['amb'], case['lam']
    ent = entries_of(case)
    L = len(ent) - 1
    for nm, aoi in resolve_aois(n0, ent):
        if not below_tir(n0, aoi, ent[-1][0]):
            R.outcome('tir-excluded')
            continue
        s = n0 * math.sin(math.radians(aoi))
        for pol in 'sp':
            sig = f'insert:{pol}:{amb_tag(n0)}'
            ref = ref_rt(n0, ent, lam, np.array([aoi]), pol)
            tol = KTOL * EPS * ref['cond'][0] * (1 + abs(ref['r'][0]) + abs(ref['t'][0]))
            base = lib_rt(R, ent, lam, pol, aoi, n0, sig)
            if base is None:
                continue
            for p in range(L + 1):
                for nx in INSERT_IDX:
                    got = lib_rt(R, ent[:p] + [(nx, 0.0)] + ent[p:], lam, pol, aoi, n0, sig + ':zero-thickness')
                    if got is not None:
                        R.expect_close(got[0], base[0], tol, sig + ':zero-thickness:r', f'r changed by a zero-thickness layer n={nx} at position {p}, aoi={aoi}')
                        R.expect_close(got[1], base[1], tol, sig + ':zero-thickness:t', f't changed by a zero-thickness layer n={nx} at position {p}, aoi={aoi}')
                    cx2 = 1 - (s / nx) ** 2
                    if cx2 <= 1e-6:
                        R.outcome('halfwave-evanescent-skipped')
                        continue
                    dx = lam / (2 * nx * math.sqrt(cx2))      # half-wave at this angle (== lambda/2n at normal incidence)
                    got = lib_rt(R, ent[:p] + [(nx, dx)] + ent[p:], lam, pol, aoi, n0, sig + ':half-wave')
                    if got is not None:
                        tolh = tol + KTOL * EPS * 4 * math.pi / cx2 * (1 + ref['cond'][0])   # sin(pi(1+eps)) ~ pi eps leaks through eta ratios
                        R.expect_close(abs(got[0]) ** 2, abs(base[0]) ** 2, 4 * tolh, sig + ':half-wave:R', f'R changed by a half-wave absentee n={nx} d={dx} at position {p}, aoi={aoi}')
                        R.expect_close(abs(got[1]) ** 2, abs(base[1]) ** 2, 4 * tolh * (1 + abs(base[1]) ** 2), sig + ':half-wave:T', f'|t|^2 changed by a half-wave absentee n={nx} d={dx} at position {p}, aoi={aoi}')
                        # stronger than stated but implied by M = -I: r equal, t -> -t
                        R.expect_close(got[0], base[0], 4 * tolh, sig + ':half-wave:R', f'r changed by a half-wave absentee n={nx} at position {p}, aoi={aoi}')
        R.outcome('insert')
    R.nontrivial(True)


# ---------------------------------------------------------------------------------------------
# unit: batched stacks == per-element loop

BATCH_SHAPES = [[2], [3], [2, 3], [2, 1, 2], [1], [1, 1], [4, 1]]      # batch size 1 in two ranks: the scalar/batched branch guards
POOL_N = N_IDX + ['a']


def batch_entries(case, seed):
    """Per batch element k: entries; layer j of element k takes alphabet cell (off + a*k + b*j) -- all different along the batch.

    case['vary']: 'both' (index and thickness change along the batch), 'thickness' (indices as in element 0: a thickness map
    of fixed materials) or 'index' (thicknesses as in element 0: an index / dispersion sweep at fixed geometry).
    """
    shape, L, off, lam = case['shape'], case['L'], case['off'], case['lam']
    vary = case.get('vary', 'both')
    nb = int(np.prod(shape))
    rng = np.random.default_rng([int(seed), 17, off, L, nb])
    per = []
    for k in range(nb):
        ent = []
        for j in range(L + 1):
            cell = (off + 5 * k + 3 * j + k * j) % (len(POOL_N) * 4)
            n = index_of(POOL_N[cell // 4]) if case['absorbing'] else N_IDX[(cell // 4) % 4]
            d = thick(n, T_KIND[cell % 4], lam)
            if case['generic']:
                n = 1.0 + 1.5 * rng.random() + (0.1j * rng.random() if case['absorbing'] else 0)
                d = 0.3 * rng.random()
            if j == L:   # exit medium: transparent, dense enough that every aoi below is under its critical angle
                n = [1.5, 2.3, 1.38][(off + k) % 3] if not case['generic'] else 1.4 + rng.random()
                d = [0.0, 0.137][(off + k) % 2]
            if k > 0 and vary == 'thickness':
                n = per[0][j][0]
            if k > 0 and vary == 'index':
                d = per[0][j][1]
            ent.append((n, d))
        per.append(ent)
    return per


def run_batch(case, seed, R):
    shape, L, lam, n0 = tuple(case['shape']), case['L'], case['lam'], case['amb']
    per = batch_entries(case, seed)
    nb = len(per)
    cplx = case['absorbing']
    n_arr = [np.array([per[k][j][0] for k in range(nb)], dtype=complex if cplx else float).reshape(shape) for j in range(L + 1)]
    d_arr = [np.array([per[k][j][1] for k in range(nb)], dtype=float).reshape(shape) for j in range(L + 1)]
    sq = 'square' if nb == L + 1 else ('nb=1' if nb == 1 else 'nonsquare')
    for aoi in case['aois']:
        for pol in 'sp':
            sig = f'batch:{len(shape)}d:{sq}:{pol}' + ('' if case.get('vary', 'both') == 'both' else f":vary-{case['vary']}")
            loop_r, loop_t, tols = [], [], []
            for k in range(nb):
                rt = lib_rt(R, per[k], lam, pol, aoi, n0, 'batch:loop-element')
                ref = ref_rt(n0, per[k], lam, np.array([float(aoi)]), pol)
                tols.append(KTOL * EPS * ref['cond'][0] * (1 + abs(ref['r'][0]) + abs(ref['t'][0])))
                if rt is None:
                    loop_r = None
                    break
                loop_r.append(rt[0])
                loop_t.append(rt[1])
                # the loop elements themselves against the reference (generic representatives are only seen here)
                R.expect_close(rt[0], ref['r'][0], tols[-1], f'stack:{pol}:{amb_tag(n0)}:r-vs-reference', f'batch element {k} r vs reference')
                R.expect_close(rt[1], ref['t'][0], tols[-1], f'stack:{pol}:{amb_tag(n0)}:t-vs-reference', f'batch element {k} t vs reference')
            if loop_r is None:
                continue
            want_r = np.array(loop_r).reshape(shape)
            want_t = np.array(loop_t).reshape(shape)
            tol = np.array(tols).reshape(shape)
            for form in ('list', 'ndarray'):
                if form == 'list':
                    stack = [[n_arr[j].copy(), d_arr[j].copy()] for j in range(L + 1)]
                else:
                    stack = np.array([[n_arr[j], d_arr[j]] for j in range(L + 1)])
                out = R.call(tf.multilayer_stack_rt, stack, lam, pol, aoi=aoi, ambient_index=n0, sig=sig + ':exception')
                if out is FAILED:
                    continue
                try:
                    r, t = out
                except Exception as e:   # noqa
                    R.violation(sig + ':output', f'unusable output: {e}')
                    continue
                R.expect_close(r, want_r, tol, sig + ':r', f'batched r {shape} vs per-element loop ({form} input), aoi={aoi}')
                R.expect_close(t, want_t, tol, sig + ':t', f'batched t {shape} vs per-element loop ({form} input), aoi={aoi}')
    R.nontrivial(nb > 1)
    R.outcome(sq)


def run_batch_large(case, seed, R):
    """size thresholds of the batched branch: a batch of nb elements made of PERIOD distinct stacks repeated along the flattened
    batch (an odd period never divides a block length), judged on EVERY element against the scalar call of its stack."""
    shape, L, lam, n0, period = tuple(case['shape']), case['L'], case['lam'], case['amb'], case['period']
    per = batch_entries(dict(case, shape=[period]), seed)
    nb = int(np.prod(shape))
    cplx = case['absorbing']
    idx = np.arange(nb) % period
    n_arr = [np.array([per[k][j][0] for k in range(period)], dtype=complex if cplx else float)[idx].reshape(shape) for j in range(L + 1)]
    d_arr = [np.array([per[k][j][1] for k in range(period)], dtype=float)[idx].reshape(shape) for j in range(L + 1)]
    for aoi in case['aois']:
        for pol in 'sp':
            sig = f'batch:large:{len(shape)}d:{pol}'
            loop_r, loop_t, tols = [], [], []
            for k in range(period):
                rt = lib_rt(R, per[k], lam, pol, aoi, n0, 'batch:loop-element')
                ref = ref_rt(n0, per[k], lam, np.array([float(aoi)]), pol)
                tols.append(KTOL * EPS * ref['cond'][0] * (1 + abs(ref['r'][0]) + abs(ref['t'][0])))
                if rt is None:
                    loop_r = None
                    break
                loop_r.append(rt[0])
                loop_t.append(rt[1])
                R.expect_close(rt[0], ref['r'][0], tols[-1], f'stack:{pol}:{amb_tag(n0)}:r-vs-reference', f'element {k} r vs reference')
                R.expect_close(rt[1], ref['t'][0], tols[-1], f'stack:{pol}:{amb_tag(n0)}:t-vs-reference', f'element {k} t vs reference')
            if loop_r is None:
                continue
            want_r, want_t, tol = (np.array(v)[idx].reshape(shape) for v in (loop_r, loop_t, tols))
            stack = [[n_arr[j].copy(), d_arr[j].copy()] for j in range(L + 1)]
            out = R.call(tf.multilayer_stack_rt, stack, lam, pol, aoi=aoi, ambient_index=n0, sig=sig + ':exception', hygiene=nb <= 20000)
            if out is FAILED:
                continue
            try:
                r, t = out
            except Exception as e:   # noqa
                R.violation(sig + ':output', f'unusable output: {e}')
                continue
            R.expect_close(r, want_r, tol, sig + ':r', f'batched r {shape} (period-{period} tiling of distinct stacks) vs per-element scalar calls, aoi={aoi}')
            R.expect_close(t, want_t, tol, sig + ':t', f'batched t {shape} (period-{period} tiling of distinct stacks) vs per-element scalar calls, aoi={aoi}')
    R.nontrivial()
    R.outcome(f'large:{len(shape)}d')


# ---------------------------------------------------------------------------------------------

def plan(tier, seed):
    _selftest()
    quick = tier == 'quick'
    Lmax = 3 if quick else 4
    fres = [{'n0': n0, 'n1': n1, 'lam': lam} for n0 in [1.0, 1.33, 1.5, 2.3] for n1 in N_IDX for lam in LAMS]
    layer_cells = [[n, tk] for n in N_IDX for tk in T_KIND]
    stacks = []
    for L in range(0, Lmax + 1):
        for combo in itertools.product(layer_cells, repeat=L):
            for sub in SUBS:
                for amb in AMBS:
                    for lam in (LAMS if L < Lmax else [0.55]):
                        stacks.append({'layers': [list(c) for c in combo], 'sub': sub, 'amb': amb, 'lam': lam})
                        if L <= 1:
                            stacks[-1]['pols'] = 'spSP'
    # exit-medium thickness variants (phase of t only) for short stacks
    for L in range(0, 2):
        for combo in itertools.product(layer_cells, repeat=L):
            for sub in SUBS:
                for amb in AMBS:
                    for st in ('qw', 'f'):
                        stacks.append({'layers': [list(c) for c in combo], 'sub': sub, 'sub_t': st, 'amb': amb, 'lam': 0.55})
    # absorbing: every stack of 1..La layers over {1.38, 2.3, a, b, m} x {0, qw, f} with at least one absorbing layer,
    # plus the conjugated (gain) variants against the reference only, plus absorbing exit media
    La = 2 if quick else 3
    acells = [[n, tk] for n in [1.38, 2.3, 'a', 'b', 'm'] for tk in ('0', 'qw', 'f')]
    absorb = []
    for L in range(1, La + 1):
        for combo in itertools.product(acells, repeat=L):
            if not any(isinstance(c[0], str) for c in combo):
                continue
            for sub in (1.5, 1.0):
                for amb in AMBS:
                    absorb.append({'layers': [list(c) for c in combo], 'sub': sub, 'amb': amb, 'lam': 0.55})
                    if L <= 2 and sub == 1.5:
                        absorb.append({'layers': [[c[0] + '*' if isinstance(c[0], str) else c[0], c[1]] for c in combo], 'sub': sub, 'amb': amb, 'lam': 0.55})
    for L in range(0, 2):
        for combo in itertools.product(acells, repeat=L):
            for sub in ('a', 'b', 'm'):
                for amb in AMBS:
                    absorb.append({'layers': [list(c) for c in combo], 'sub': sub, 'amb': amb, 'lam': 1.0})
    Li = 2 if quick else 3
    inserts = []
    for L in range(0, Li + 1):
        for combo in itertools.product(layer_cells, repeat=L):
            for sub in (SUBS if L < 2 else [1.5]):
                for amb in AMBS:
                    for lam in (LAMS if L < 2 else [0.55]):
                        inserts.append({'layers': [list(c) for c in combo], 'sub': sub, 'amb': amb, 'lam': lam})
    batch = []
    for shape in BATCH_SHAPES if not quick else BATCH_SHAPES[:6]:
        for L in range(0, (3 if quick else 4) + 1):
            for off in range(0, 20 if not quick else 8):
                for amb in AMBS:
                    for absorbing in (False, True):
                        for vary in ('both', 'thickness', 'index'):
                            if vary != 'both' and (int(np.prod(shape)) == 1 or off >= (4 if quick else 8)):
                                continue
                            batch.append({'shape': shape, 'L': L, 'off': off, 'amb': amb, 'lam': LAMS[off % 2], 'absorbing': absorbing, 'vary': vary,
                                          'generic': False, 'aois': ([0, 45, 60] if amb == 1.33 else [0, 10, 80, 89]) if vary == 'both' else [0, 45]})
            for amb in AMBS:
                for vary in ('both', 'thickness', 'index'):
                    if vary == 'both' or int(np.prod(shape)) > 1:
                        batch.append({'shape': shape, 'L': L, 'off': 0, 'amb': amb, 'lam': 0.55, 'absorbing': True, 'generic': True, 'vary': vary, 'aois': [0, 45]})
    aoitxt = '{0,10,45,60,80,89 deg, Brewster angle of the first interface}'
    # long stacks: periodic designs (quarter-wave mirrors, (HL)^N H, three-material periods), the same with one detuned layer in the
    # middle (a cavity), and aperiodic ones, at EVERY layer count 4..13 and around 16 / 32 / 41 (pairwise or blocked products, periodic
    # fast paths and rescaling of the running product all depend on the count and on the periodicity)
    H, Lo, M = 2.3, 1.38, 1.5
    counts = list(range(4, 14)) + [16, 17, 31, 32, 33, 41, 42] if quick else list(range(4, 44))
    longs = []
    for n in counts:
        pats = {'HL': [[H, 'qw'] if k % 2 == 0 else [Lo, 'qw'] for k in range(n)],
                'LH': [[Lo, 'qw'] if k % 2 == 0 else [H, 'qw'] for k in range(n)],
                'HLM': [[[H, 'qw'], [Lo, 'hw'], [M, 'f']][k % 3] for k in range(n)],
                'cavity': [([H, 'qw'] if k % 2 == 0 else [Lo, 'qw']) if k != n // 2 else [Lo, 'f'] for k in range(n)],
                'aperiodic': [[N_IDX[(5 * k + k * k // 3 + 1) % 4], T_KIND[(3 * k + k // 2 + 1) % 4]] for k in range(n)]}
        for pname, layers in pats.items():
            for amb in AMBS:
                longs.append({'layers': layers, 'sub': 1.5, 'amb': amb, 'lam': 0.55, 'pattern': pname})
    lshapes = [[129], [257], [4097], [6147], [70, 70], [100, 100], [3, 1400], [65537]] + ([] if quick else [[131073], [300, 301], [2, 3, 11000], [1030, 1031]])
    large = [{'shape': sh, 'L': L, 'off': off, 'amb': amb, 'lam': 0.55, 'absorbing': ab, 'generic': False, 'period': 7, 'aois': [0, 45]}
             for sh in lshapes for (L, off, amb, ab) in ((2, 1, 1.0, False), (1, 3, 1.33, True))]
    return [
        ScopeUnit('fresnel', fres, run_fresnel,
                  f'every interface n0 in {{1,1.33,1.5,2.3}} x n1 in {{1,1.38,1.5,2.3}} x aoi in {aoitxt} below the critical angle: snell_aor, brewsters_angle, '
                  'fresnel_rs/ts/rp/tp against the closed forms and R+T=1 with their own numbers, r_p(theta_B)=0, and the interface as a one-entry stack '
                  '(exit-medium thickness in {0, l/4n, l/2n, 0.137}) against both the closed forms and the library Fresnel functions; non-trivial when n0 != n1'),
        ScopeUnit('stacks', stacks, run_stack,
                  f'EVERY stack of 0..{Lmax} layers over indices {{1,1.38,1.5,2.3}} x thicknesses {{0, l/4n, l/2n, 0.137}} x exit medium {{1.5,1,2.3}} x ambient {{1,1.33}} x '
                  f'wavelength {{0.55,1.0}} ({Lmax}-layer stacks: 0.55 only), each at aoi in {aoitxt} (those below the critical angle of the exit medium; layers may be evanescent) x pol {{s,p}} (0- and 1-layer stacks: argument forms s, p, S, P): '
                  'r and t complex-equal to an independent admittance-form characteristic-matrix reference, and R + (n_s cos th_s / n_0 cos th_0)|t|^2 = 1; '
                  'because thickness 0 and l/2n are in the alphabet this also covers zero-thickness and normal-incidence absentee layers at every position'),
        ScopeUnit('absorbing', absorb, run_stack,
                  f'every stack of 1..{La} layers over {{1.38, 2.3, 1.5+0.02i, 2.3+0.5i, 0.2+3.4i}} x {{0, l/4n, 0.137}} with at least one absorbing layer, transparent exit medium {{1.5,1}}, '
                  'ambient {1,1.33}, all aoi x pol: reference equality, R<=1, R+T<=1 (=1 if all absorbing layers have zero thickness); conjugated (gain) variants '
                  'against the reference only; absorbing exit media with 0..1 layers: reference equality and R<=1'),
        ScopeUnit('insertion', inserts, run_insert,
                  f'every lossless stack of 0..{Li} layers (same alphabets; 2+ layers: exit medium 1.5, wavelength 0.55) x every insert position x insert index {{1.38, 2.3}}: a zero-thickness layer changes neither r nor t; '
                  'a half-wave-at-that-angle absentee (d = l / (2 n cos th), skipped when evanescent) leaves R, |t|^2 and r unchanged; all aoi x pol'),
        ScopeUnit('batch', batch, run_batch,
                  'array-valued index/thickness of shapes {(2,),(3,),(2,3),(2,1,2),(1,),(1,1)' + ('' if quick else ',(4,1)') + f'}} x 0..{3 if quick else 4} layers x 8+ alphabet offsets (every batch element a different stack, '
                  'different along the batch and across layers, so batch size == entry count ("square") and != are both present) x real/complex x what varies along the batch {index and thickness, thickness only (fixed materials), index only (fixed thicknesses)} x list-of-pairs and ndarray input forms x aoi x pol: '
                  'batched r, t entry-wise equal to the per-element loop; plus one seeded generic representative per shape/length'),
        ScopeUnit('long_stacks', longs, run_stack,
                  f'long stacks: layer counts {counts} x designs {{(HL)^N.., (LH)^N.., (H L M)^N.., quarter-wave mirror with one detuned layer in the middle, aperiodic}} over H=2.3, L=1.38, M=1.5 '
                  f'(odd counts end in the unpaired layer) x ambient {{1,1.33}} on a 1.5 substrate, each at aoi in {aoitxt} x pol: r and t against the independent reference (tolerance from its own conditioning) and R+T=1'),
        ScopeUnit('batch_large', large, run_batch_large,
                  f'size-threshold alphabet of batch shapes {lshapes} (element counts just above 2^7..2^16' + ('' if quick else ' / 2^17 / 2^20') + ' and not a multiple of a power of two) x {2 lossless layers in air, 1 absorbing layer in water} '
                  'x aoi {0,45} x pol: the batch is a period-7 tiling of 7 different stacks along the flattened batch, EVERY element of the batched r, t is compared with the scalar call '
                  'of its stack (and the 7 scalar calls with the reference); not closed over sizes'),
    ]
