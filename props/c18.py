"""C18 -- segmented apertures tile exactly; mask primitives respect their geometry.

Reference models (all written here, none of them calls prysm):

* hexagonal apertures: centres from the documented numbering (segment 0 at the origin, ring k starts at
  "up" and counts clockwise), pitch = flat-to-flat diameter + gap; each segment is the intersection of
  six half-planes; ids are 0..3r(r+1) minus the exclusion set.
* keystone apertures: centre disc + annular sectors ``inner < r <= outer, |theta - mid| < arc/2``; the
  azimuthal gap is a strip of the given width centred on every seam.
* primitives: inequalities on the same coordinates that are handed to the implementation.

Every boolean comparison uses the boundary DON'T-CARE band of relative width 1e-9 (DESIGN section 2:
``regular_polygon`` goes through Qhull with joggle); samples inside the band are excluded, counted,
and reported as an outcome class ``band:<n>``.
"""
import math

import numpy as np

from mc import ScopeUnit, FAILED
from mc.linalg import operator_matrix, dense
from mc.state import reset_executors

from prysm import segmented, geometry
from prysm.coordinates import cart_to_polar

ID = 'C18'
ASSUMPTIONS = [
    'directions of rotation that the docstrings leave open are taken from the pinned implementation: regular_polygon '
    'puts vertex k at angle k*360/sides + rotation measured from +y towards +x; rectangle / rotated_ellipse rotate the '
    'shape from +x towards -y; spider vanes lie at rotation - k*360/vanes measured from +x towards +y; rectangle and '
    'ellipse "widths" are half-widths (tests/test_geometry.py pins this for the rectangle)',
    'for segment_angle=0 (vertex-up hexagons) there is no segment straight "up"; numbering starts with the first '
    'segment clockwise from up (30 deg), which is what the documented rule gives when applied to the rotated lattice',
    'a sample is decided by its centre; samples whose analytic distance to a boundary is below 1e-9 x (largest '
    'coordinate or size) are don\'t-care',
    'truecircle is only defined on a grid spanning [-1, 1) (its pixel size is hard-wired to 2/samples); it is checked there',
]

BAND = 1e-9
EPS = np.finfo(float).eps
H2 = 1 / math.sqrt(2)


def par(n):
    return 'odd' if n % 2 else 'even'


def make_grid(n0, n1, dx):
    """Own grid: origin at index n//2 (C04 checks that prysm's agrees)."""
    x = (np.arange(n1) - n1 // 2) * dx
    y = (np.arange(n0) - n0 // 2) * dx
    return np.meshgrid(x, y)


def wrap(a):
    return (a + np.pi) % (2 * np.pi) - np.pi


def band_class(n):
    return 'band:0' if n == 0 else ('band:1-8' if n <= 8 else 'band:9+')


def as_mask(R, out, shape, sig, what, binary=True):
    """Validate an implementation raster; returns a bool array (or float when binary=False) or None."""
    if out is FAILED:
        return None
    try:
        a = np.asarray(out)
    except Exception as e:   # noqa
        R.violation(sig + ':type', f'{what}: output cannot be converted to an array ({type(e).__name__})')
        return None
    if not R.expect(a.shape == tuple(shape), sig + ':shape', f'{what}: shape {a.shape} != {tuple(shape)}'):
        return None
    if not R.expect(a.dtype.kind in 'biuf', sig + ':dtype', f'{what}: dtype {a.dtype}'):
        return None
    R.observe(a)
    if not binary:
        return a.astype(float)
    if a.dtype.kind != 'b':
        if not R.expect(bool(np.all((a == 0) | (a == 1))), sig + ':nonbinary', f'{what}: mask has values other than 0 and 1'):
            return None
    return a.astype(bool)


def compare(R, got, inside, band, sig, what):
    bad = (got != inside) & ~band
    nb = int(bad.sum())
    if nb:
        idx = np.argwhere(bad)[:4].tolist()
        miss = int((bad & inside).sum())
        return R.expect(False, sig, f'{what}: {nb} samples outside the don\'t-care band are on the wrong side of the analytic '
                                    f'boundary ({miss} missing, {nb - miss} extra), e.g. (row, col) {idx}')
    return R.expect(True, sig)


def embed(shape, win, local):
    full = np.zeros(shape, dtype=bool)
    full[win] = local
    return full


def valid_window(win, shape):
    try:
        if len(win) != 2:
            return False
        for s, n in zip(win, shape):
            if not isinstance(s, slice) or s.step not in (None, 1):
                return False
            if not (0 <= int(s.start) <= n and 0 <= int(s.stop) <= n):
                return False
        return True
    except Exception:   # noqa
        return False


def window_shape(win):
    return tuple(max(0, int(s.stop) - int(s.start)) for s in win)


def clip_sides(bad, win, shape):
    """Which sides of the window the wrong samples lie beyond -> list of (axis name, '+'|'-', parity of that axis)."""
    ij = np.argwhere(bad)
    out = []
    if (ij[:, 1] >= win[1].stop).any():
        out.append(('x', '+', par(shape[1])))
    if (ij[:, 1] < win[1].start).any():
        out.append(('x', '-', par(shape[1])))
    if (ij[:, 0] >= win[0].stop).any():
        out.append(('y', '+', par(shape[0])))
    if (ij[:, 0] < win[0].start).any():
        out.append(('y', '-', par(shape[0])))
    return out


def compare_segment(R, full, win, inside, band, prefix, what, insig='', clipsig=''):
    """Segment raster against analytic membership; distinguishes truncation by the local window from a wrong shape."""
    bad = (full != inside) & ~band
    if not bad.any():
        return R.expect(True, prefix)
    inwin = np.zeros(full.shape, dtype=bool)
    inwin[win] = True
    ok = True
    clipped = bad & ~inwin      # necessarily `inside` and missing
    if clipped.any():
        idx = np.argwhere(clipped)[:4].tolist()
        for ax, side, p in clip_sides(clipped, win, full.shape):
            ok = R.expect(False, f'{prefix}-clipped{clipsig}:{side}:{p}',
                          f'{what}: {int(clipped.sum())} samples inside the analytic shape lie beyond the {side}{ax} side of the '
                          f'local window {win} and are missing from the segment, e.g. (row, col) {idx}')
    wrong = bad & inwin
    if wrong.any():
        idx = np.argwhere(wrong)[:4].tolist()
        miss = int((wrong & inside).sum())
        ok = R.expect(False, f'{prefix}-membership{insig}',
                      f'{what}: {int(wrong.sum())} samples inside the local window are on the wrong side of the analytic boundary '
                      f'({miss} missing, {int(wrong.sum()) - miss} extra), e.g. (row, col) {idx}')
    return ok


# ---------------------------------------------------------------------------------------------
# analytic shapes

def poly_dist(x, y, sides, radius, center, rot_deg):
    """max over the edge half-planes of (outward normal . p - apothem): <= 0 inside, and |value| never exceeds
    the true distance to the boundary (so {|value| <= h} is a superset of the h-neighbourhood of the boundary)."""
    k = np.arange(sides)
    th = (k + 0.5) * (2 * np.pi / sides) + np.radians(rot_deg)   # normals, measured from +y towards +x
    nx, ny = np.sin(th), np.cos(th)
    apothem = radius * math.cos(math.pi / sides)
    d = (x[..., None] - center[0]) * nx + (y[..., None] - center[1]) * ny - apothem
    return d.max(axis=-1)


def ref_hex_centers(rings, pitch, angle):
    """Segment 0 at the origin; ring k has 6k segments, numbered from the corner at 'up' (flat-top lattice,
    angle=90) or 30 deg clockwise of it (vertex-up lattice, angle=0), clockwise, walking along the ring's sides."""
    out = [(0.0, 0.0)]
    base = 90.0 if angle == 90 else 60.0
    for k in range(1, rings + 1):
        corners = [(k * pitch * math.cos(math.radians(base - 60 * j)), k * pitch * math.sin(math.radians(base - 60 * j)))
                   for j in range(7)]
        for j in range(6):
            for m in range(k):
                f = m / k
                out.append((corners[j][0] * (1 - f) + corners[j + 1][0] * f,
                            corners[j][1] * (1 - f) + corners[j + 1][1] * f))
    return out


def basis_xy(orders, x, y):
    return [x ** a * y ** b for a, b in orders]


def basis_rt(orders, r, t):
    return [r ** a * (np.cos(b * t) if b >= 0 else np.sin(-b * t)) for a, b in orders]


ORDERS_XY = [[0, 0], [1, 0], [0, 1], [1, 1]]
ORDERS_RT = [[0, 0], [1, 1], [1, -1], [2, 0]]


# ---------------------------------------------------------------------------------------------
# hexagonal apertures

def hex_setup(case, R):
    n0, n1, dx = case['n0'], case['n1'], case['dx']
    rings, angle, excl = case['rings'], case['angle'], case['exclude']
    D, g = case['diam'] * dx, case['gap'] * dx
    x, y = make_grid(n0, n1, dx)
    ap = R.call(segmented.CompositeHexagonalAperture, x, y, rings, D, g, angle, exclude=list(excl),
                sig=f'hex:construct:exception:{par(n0)}x{par(n1)}')
    if ap is FAILED:
        return None
    ntot = 1 + 3 * rings * (rings + 1)
    ids = [i for i in range(ntot) if i not in excl]
    centers = ref_hex_centers(rings, D + g, angle)
    # structure
    try:
        got_ids = [int(v) for v in ap.segment_ids]
        wins = list(ap.windows)
        lms = list(ap.local_masks)
        lcs = list(ap.local_coords)
        cts = [(float(c[0]), float(c[1])) for c in ap.all_centers]
        amp = ap.amp
    except Exception as e:   # noqa
        R.violation('hex:structure', f'attributes of the aperture are not as documented: {type(e).__name__}: {e}')
        return None
    tag = excl_tag(excl, rings)
    ok = R.expect(got_ids == ids, f'hex:segment-ids:{tag}', f'segment_ids {got_ids} != documented {ids} (rings={rings}, exclude={excl})')
    ok &= R.expect(len(wins) == len(ids) and len(lms) == len(ids) and len(lcs) == len(ids) and len(cts) == len(ids),
                   f'hex:segment-count:{tag}',
                   f'{len(lms)} masks / {len(wins)} windows / {len(cts)} centres for {len(ids)} = 1+3r(r+1)-|excl| segments')
    if not ok:
        return None
    amp = as_mask(R, amp, (n0, n1), 'hex:amp', 'amp')
    if amp is None:
        return None
    return dict(x=x, y=y, ap=ap, ids=ids, centers=centers, wins=wins, lms=lms, lcs=lcs, cts=cts, amp=amp, D=D, g=g, tag=tag)


def hex_fulls(S, case, R):
    """Validated full-frame raster of every segment (None when the structure is broken)."""
    n0, n1 = case['n0'], case['n1']
    fulls = []
    for k, i in enumerate(S['ids']):
        win = S['wins'][k]
        if not R.expect(valid_window(win, (n0, n1)), 'hex:window', f'segment {i}: window {win} is not a pair of in-range slices'):
            return None
        lm = as_mask(R, S['lms'][k], window_shape(win), 'hex:local-mask', f'segment {i} local mask')
        if lm is None:
            return None
        fulls.append(embed((n0, n1), win, lm))
    return fulls


def run_hex(case, seed, R):
    n0, n1, dx = case['n0'], case['n1'], case['dx']
    angle = case['angle']
    S = hex_setup(case, R)
    if S is None:
        return
    x, y, D, g, ids, centers = S['x'], S['y'], S['D'], S['g'], S['ids'], S['centers']
    rv = D / math.sqrt(3)          # centre-to-vertex
    L = max(np.abs(x).max(), np.abs(y).max(), (case['rings'] + 1) * (D + g))
    tol = BAND * L
    # centres follow the documented numbering
    ctol = 64 * EPS * L
    for k, i in enumerate(ids):
        if not R.expect(math.hypot(S['cts'][k][0] - centers[i][0], S['cts'][k][1] - centers[i][1]) <= ctol,
                        f'hex:centre:angle={angle}:{S["tag"]}',
                        f'segment id {i}: centre {S["cts"][k]} != documented position {centers[i]} (pitch = diameter + gap = {D + g})'):
            break
    fulls = hex_fulls(S, case, R)
    if fulls is None:
        return
    nband = 0
    count = np.zeros((n0, n1), dtype=int)
    union = np.zeros((n0, n1), dtype=bool)
    allband = np.zeros((n0, n1), dtype=bool)
    h = dx * H2
    xlo, xhi, ylo, yhi = x[0, 0], x[0, -1], y[0, 0], y[-1, 0]
    area = math.sqrt(3) / 2 * D * D
    for k, i in enumerate(ids):
        c = centers[i]
        d = poly_dist(x, y, 6, rv, c, angle)
        band = np.abs(d) <= tol
        nband += int(band.sum())
        allband |= band
        inside = d <= 0
        compare_segment(R, fulls[k], S['wins'][k], inside, band, 'hex:segment', f'segment id {i} (centre {c})')
        count += fulls[k]
        union |= fulls[k]
        # area to within the rasterisation of the boundary: a pixel contributes a wrong amount only when its cell
        # (half diagonal dx/sqrt2) meets the boundary
        if c[0] - rv >= xlo + dx and c[0] + rv <= xhi - dx and c[1] - rv >= ylo + dx and c[1] + rv <= yhi - dx:
            nb = int((np.abs(d) <= h).sum())
            R.expect(abs(fulls[k].sum() * dx * dx - area) <= (nb + 1e-6) * dx * dx, 'hex:segment-area',
                     f'segment id {i}: raster area {fulls[k].sum() * dx * dx} vs analytic {area}, more than {nb} boundary pixels apart')
            R.nontrivial()
        # local coordinates are the global ones relative to the segment centre
        lc = S['lcs'][k]
        try:
            lx, ly = np.asarray(lc[0]), np.asarray(lc[1])
            okc = lx.shape == fulls[k][S['wins'][k]].shape and ly.shape == lx.shape and \
                (lx.size == 0 or (np.abs(lx - (x[S['wins'][k]] - c[0])).max() <= ctol and np.abs(ly - (y[S['wins'][k]] - c[1])).max() <= ctol))
        except Exception:   # noqa
            okc = False
        R.expect(okc, 'hex:local-coords', f'segment id {i}: local_coords are not (x, y)[window] - centre')
    # with zero gap two hexagons share an edge; samples exactly on it (inside the band) are don't-care
    over = (count > 1) & ~allband
    R.expect(not over.any(), 'hex:overlap',
             f'{int(over.sum())} samples outside the band belong to more than one segment, e.g. {np.argwhere(over)[:3].tolist()}')
    R.outcome('shared-edge-samples' if ((count > 1) & allband).any() else 'no-shared-edge-samples')
    R.expect(np.array_equal(S['amp'], union), 'hex:amp!=union',
             f'amp differs from the union of the segment masks at {int((S["amp"] != union).sum())} samples')
    R.nontrivial(union.any() and not union.all())
    R.outcome(band_class(nband))
    R.outcome('hex:gap' if g else 'hex:nogap')


def run_hex_opd(case, seed, R):
    n0, n1, dx = case['n0'], case['n1'], case['dx']
    S = hex_setup(case, R)
    if S is None:
        return
    fulls = hex_fulls(S, case, R)
    if fulls is None:
        return
    ap, x, y, ids, centers, D = S['ap'], S['x'], S['y'], S['ids'], S['centers'], S['D']
    kind, norm = case['basis'], case['norm']
    if any(0 in window_shape(w) for w in S['wins']):
        # a segment lies completely off the grid: it has no samples, per-segment OPD has no meaning for it
        # (prepare_opd_bases raises IndexError on the empty local grid -- reported as a note, outside the statement)
        R.outcome('opd:skipped:segment-off-grid')
        return
    orders = [tuple(o) for o in (ORDERS_XY if kind == 'xy' else ORDERS_RT)]
    bf = basis_xy if kind == 'xy' else basis_rt
    nm, ns = len(orders), len(ids)
    if norm == 'default':
        nrx = nry = D / math.sqrt(3)       # documented default: half the vertex-to-vertex distance
        out = R.call(ap.prepare_opd_bases, bf, orders, sig=f'hex:prepare_opd_bases:{kind}:exception')
    else:
        nrx, nry = (1.3 * D, 0.8 * D) if kind == 'xy' else (1.3 * D, 1.3 * D)
        out = R.call(ap.prepare_opd_bases, bf, orders, normalization_radius=((nrx, nry) if kind == 'xy' else nrx),
                     sig=f'hex:prepare_opd_bases:{kind}:exception')
    if out is FAILED:
        return
    if ns == 0:
        return

    def f(c):
        return ap.compose_opd(c)

    try:
        A, shp = operator_matrix(f, (ns, nm), R=R)
    except Exception as e:   # noqa
        R.violation('hex:compose_opd:exception', f'compose_opd raised {type(e).__name__}: {e}')
        return
    if not R.expect(tuple(shp) == (n0, n1) and A.dtype.kind == 'f' and bool(np.isfinite(A).all()), 'hex:compose_opd:shape',
                    f'compose_opd output shape {shp} dtype {A.dtype} (want {(n0, n1)} real, finite)'):
        return
    sig_par = f'{par(n0)}x{par(n1)}'
    worst = 0.0
    for k, i in enumerate(ids):
        fk = fulls[k].ravel()
        lx, ly = (x - centers[i][0]) / nrx, (y - centers[i][1]) / nry
        want = basis_xy(orders, lx, ly) if kind == 'xy' else basis_rt(orders, np.hypot(lx, ly), np.arctan2(ly, lx))
        for m in range(nm):
            col = A[:, k * nm + m]
            if not R.expect(not col[~fk].any(), 'hex:opd-leak',
                            f'unit coefficient (segment id {i}, mode {orders[m]}) changes {int((col[~fk] != 0).sum())} samples outside that segment'):
                continue
            w = (want[m] * fulls[k]).ravel()
            if m == 0:
                R.expect(np.array_equal(col, fk.astype(float)), 'hex:opd-piston',
                         f'unit piston on segment id {i} is not the indicator of that segment')
            else:
                err = float(np.abs(col - w).max())
                scale = float(np.abs(w).max()) + 1.0
                worst = max(worst, err / scale)
                R.expect(err <= 1e3 * EPS * scale, f'hex:opd-basis-value:{kind}',
                         f'unit coefficient (segment id {i}, mode {orders[m]}): OPD differs from mode(local coordinates of that '
                         f'segment) x mask by {err:.3e} (scale {scale:.3e}); a basis evaluated on another segment\'s grid was used')
    # linearity over the (segment, mode) basis, one generic coefficient array
    coefs = dense((ns, nm), seed, salt=18, complex_=False)
    got = R.call(ap.compose_opd, coefs, sig='hex:compose_opd:exception')
    want = (A @ coefs.ravel()).reshape(n0, n1)
    cond = (np.abs(A) @ np.abs(coefs.ravel())).reshape(n0, n1)
    R.expect_close(got, want, 1e3 * EPS * (cond + 1e-300), 'hex:opd-nonlinear', 'compose_opd(c) vs sum_k c_k compose_opd(e_k)')
    check_scaling(R, lambda c: R.call(ap.compose_opd, c, sig='hex:compose_opd:exception'), A, ns, nm, coefs, (n0, n1), 'hex')
    again = R.call(ap.compose_opd, coefs, sig='hex:compose_opd:exception')
    R.expect_equal(again, got if got is not FAILED else want, 'hex:opd-stateful', 'second identical compose_opd call')
    base = dense((n0, n1), seed, salt=19, complex_=False)
    buf = base.copy()
    acc = R.call(ap.compose_opd, coefs, out=buf, sig='hex:compose_opd:exception')
    if acc is not FAILED and got is not FAILED:
        R.expect_close(acc, base + np.asarray(got), 8 * EPS * (np.abs(base) + cond + 1e-300), 'hex:opd-out', 'compose_opd(c, out=b) vs b + compose_opd(c)')
    R.nontrivial(bool(A.any()))
    R.outcome(f'opd:{kind}:{sig_par}')


SCALES = [1e-3, 1e-9, 1e-12, -1e-9]


def check_scaling(R, compose, A, ns, nm, coefs, shape, prefix):
    """Homogeneity at small scale: compose(s e_k) == s compose(e_k) for one mode of every segment (the mode rotates with
    the segment index) and for the dense array, s in SCALES; plus one array mixing O(1) and tiny segments."""
    for s in SCALES:
        for k in range(ns):
            m = k % nm
            c = np.zeros((ns, nm))
            c[k, m] = s
            got = compose(c)
            col = A[:, k * nm + m].reshape(shape)
            if not R.expect_close(got, s * col, 8 * EPS * abs(s) * np.abs(col), f'{prefix}:opd-scaling',
                                  f'compose_opd({s:g} e[segment {k}, mode {m}]) vs {s:g} x compose_opd(e)'):
                break
        want = (A @ (s * coefs).ravel()).reshape(shape)
        cond = (np.abs(A) @ np.abs(s * coefs).ravel()).reshape(shape)
        R.expect_close(compose(s * coefs), want, 1e3 * EPS * cond, f'{prefix}:opd-scaling', f'compose_opd({s:g} c) vs {s:g} x sum_k c_k compose_opd(e_k)')
    # history on ONE coefficient array object (a poke loop): the array is rewritten in place between calls, first walking the
    # (segment, mode) pairs forwards, then backwards; every answer must be the column of the operator matrix for the CURRENT content
    # (an implementation that remembers the previous coefficients by reference, or per-segment tiles keyed on them, answers for the old)
    c = np.zeros((ns, nm))
    seq = [(k, k % nm) for k in range(ns)]
    for k, m in seq + seq[::-1]:
        c[...] = 0.0
        c[k, m] = 1.0
        got = compose(c)
        if not R.expect_equal(got, A[:, k * nm + m].reshape(shape), f'{prefix}:opd-reused-coefficient-array',
                              f'compose_opd(c) with the same array object c rewritten in place to e[segment {k}, mode {m}] vs compose_opd of a fresh e'):
            break
    # segments alternately O(1), 1e-9, 1e-12, exactly 0
    per = np.array([1.0, 1e-9, 1e-12, 0.0])[np.arange(ns) % 4][:, None]
    mixed = coefs * per
    want = (A @ mixed.ravel()).reshape(shape)
    cond = (np.abs(A) @ np.abs(mixed).ravel()).reshape(shape)
    R.expect_close(compose(mixed), want, 1e3 * EPS * cond, f'{prefix}:opd-scaling',
                   'compose_opd of an array whose segments are alternately O(1), 1e-9, 1e-12 and 0 vs the operator matrix')


# ---------------------------------------------------------------------------------------------
# keystone apertures

KEY_LAYOUTS = {
    # name: (centre circle diameter, segments per ring, ring radial widths) in units of min(n) samples; scalar => passed as scalar
    'A': (0.30, [6, 12], 0.13),
    'B': (0.25, [5, 7], [0.10, 0.16]),
    'C': (0.20, 4, 0.27),
    'D': (0.30, [3, 8], [0.12, 0.12]),
    # segment counts that do not divide 360 / are prime (the angular pitch 360/n is not an integer number of degrees)
    'G': (0.25, [7, 11], [0.12, 0.14]),
    'H': (0.22, 13, 0.25),
    'I': (0.20, [14, 17, 16], [0.09, 0.09, 0.09]),
    # absolute layouts, in samples: every shared radius is an exact integer multiple of dx, so with radial_gap == 0 samples sit
    # exactly ON a shared radius (on-axis samples and Pythagorean points (3,4), (6,8), (5,12), (9,12), (7,24), (15,20))
    'E': (10.0, [6, 6, 12], [5.0, 5.0, 10.0], 'abs'),      # radii 5, 10, 15, 25
    'F': (6.0, [4, 8], [2.0, 8.0], 'abs'),                 # radii 3, 5, 13
}


def key_setup(case, R):
    n0, n1, dx = case['n0'], case['n1'], case['dx']
    ccd_f, segs, rr = KEY_LAYOUTS[case['layout']][:3]
    scale = min(n0, n1) * dx * case['fill']
    if len(KEY_LAYOUTS[case['layout']]) == 4:
        scale = dx * case['fill']
    ccd = ccd_f * scale
    rings = len(segs) if isinstance(segs, list) else 1
    rr_arg = [v * scale for v in rr] if isinstance(rr, list) else rr * scale
    g = case['gap'] * dx
    ag = None if case['agap'] is None else case['agap'] * dx
    rot = case['rot']
    x, y = make_grid(n0, n1, dx)
    ap = R.call(segmented.CompositeKeystoneAperture, x, y, ccd, rings, rr_arg, segs, g, ag, rot,
                sig=f'keystone:construct:exception:{par(n0)}x{par(n1)}')
    if ap is FAILED:
        return None
    segl = segs if isinstance(segs, list) else [segs]
    rrl = rr_arg if isinstance(rr_arg, list) else [rr_arg] * rings
    rotl = rot if isinstance(rot, list) else [rot] * rings
    ntot = sum(segl)
    try:
        wins = list(ap.segment_windows)
        lms = list(ap.segment_masks)
        ids = [int(v) for v in ap.segment_ids]
        cwin, cmask, amp = ap.center_window, ap.center_mask, ap.amp
    except Exception as e:   # noqa
        R.violation('keystone:structure', f'attributes of the aperture are not as documented: {type(e).__name__}: {e}')
        return None
    if not R.expect(len(lms) == ntot and len(wins) == ntot and ids == list(range(ntot)), 'keystone:segment-count',
                    f'{len(lms)} masks / {len(wins)} windows / ids {ids[:4]}.. for {ntot} = sum(segments_per_ring) keystones (+ centre disc)'):
        return None
    amp = as_mask(R, amp, (n0, n1), 'keystone:amp', 'amp')
    if amp is None:
        return None
    if not R.expect(valid_window(cwin, (n0, n1)), 'keystone:window', f'centre window {cwin}'):
        return None
    cm = as_mask(R, cmask, window_shape(cwin), 'keystone:local-mask', 'centre mask')
    if cm is None:
        return None
    fulls = [embed((n0, n1), cwin, cm)]
    for k in range(ntot):
        if not R.expect(valid_window(wins[k], (n0, n1)), 'keystone:window', f'segment {k}: window {wins[k]}'):
            return None
        lm = as_mask(R, lms[k], window_shape(wins[k]), 'keystone:local-mask', f'segment {k} local mask')
        if lm is None:
            return None
        fulls.append(embed((n0, n1), wins[k], lm))
    return dict(x=x, y=y, ap=ap, ccd=ccd, segl=segl, rrl=rrl, rotl=rotl, g=g, ag=g if ag is None else ag,
                wins=[cwin] + wins, fulls=fulls, amp=amp)


def run_keystone(case, seed, R):
    n0, n1, dx = case['n0'], case['n1'], case['dx']
    S = key_setup(case, R)
    if S is None:
        return
    x, y, fulls, wins, g, ag = S['x'], S['y'], S['fulls'], S['wins'], S['g'], S['ag']
    r = np.hypot(x, y)
    th = np.arctan2(y, x)
    rout = S['ccd'] / 2 + sum(S['rrl']) + g * len(S['rrl'])
    L = max(np.abs(x).max(), np.abs(y).max(), rout)
    tol = BAND * L
    h = dx * H2
    fits = rout + dx <= min(-x[0, 0], x[0, -1], -y[0, 0], y[-1, 0])
    nband = 0
    allband = np.zeros((n0, n1), dtype=bool)
    # centre disc
    rc = S['ccd'] / 2
    band = np.abs(r - rc) <= tol
    allband |= band
    nband += int(band.sum())
    compare_segment(R, fulls[0], wins[0], r <= rc, band, 'keystone:centre', 'centre disc')
    if fits:
        nb = int((np.abs(r - rc) <= h).sum())
        R.expect(abs(fulls[0].sum() * dx * dx - math.pi * rc * rc) <= (nb + 1e-6) * dx * dx, 'keystone:centre-area',
                 f'centre disc raster area {fulls[0].sum() * dx * dx} vs {math.pi * rc * rc}, more than {nb} boundary pixels apart')
    strips = np.zeros((n0, n1), dtype=bool)
    outer = rc
    k = 0
    negrot = False
    onshared = bool(g == 0 and (r == rc).any())
    for ns, lr, ro in zip(S['segl'], S['rrl'], S['rotl']):
        inner = outer + g
        outer = inner + lr
        onshared = onshared or bool(g == 0 and (r == outer).any())
        arc = 2 * np.pi / ns
        if ro is None:
            ro = 360.0 / ns      # documented default: one segment pitch
        negrot = negrot or ro < 0
        area = (outer ** 2 - inner ** 2) * arc / 2
        for i in range(ns):
            k += 1
            lo = np.radians(i * 360.0 / ns + ro) - np.pi
            mid, hi = lo + arc / 2, lo + arc
            dl = np.abs(wrap(th - mid))
            e_ang = r * np.abs(np.sin(dl - arc / 2))          # distance to the lines carrying the straight edges
            inside = (r > inner) & (r <= outer) & (dl < arc / 2)
            band = ((np.abs(r - inner) <= tol) | (np.abs(r - outer) <= tol) | (r * np.abs(dl - arc / 2) <= tol))
            allband |= band
            nband += int((band & (r >= inner - tol) & (r <= outer + tol)).sum())
            compare_segment(R, fulls[k], wins[k], inside, band, 'keystone:segment',
                            f'keystone {k - 1} (ring radii {inner:.4g}..{outer:.4g}, angles {np.degrees(lo):.4g}..{np.degrees(hi):.4g} deg)',
                            insig=':negative-rotation' if ro < 0 else '',
                            clipsig=':arc-crosses-axis' if any(lo < q * np.pi / 2 < hi and abs(q * np.pi / 2 - mid) > 1e-9
                                                               for q in range(-6, 12)) else '')
            if fits:
                near = (r >= inner - h) & (r <= outer + h) & ((dl <= arc / 2) | (r * np.sin(np.minimum(dl - arc / 2, np.pi / 2)) <= h))
                nb = int((near & ((np.abs(r - inner) <= h) | (np.abs(r - outer) <= h) | (e_ang <= h))).sum())
                R.expect(abs(fulls[k].sum() * dx * dx - area) <= (nb + 1e-6) * dx * dx,
                         'keystone:segment-area' + (':negative-rotation' if ro < 0 else ''),
                         f'keystone {k - 1}: raster area {fulls[k].sum() * dx * dx} vs analytic {area}, more than {nb} boundary pixels apart')
                R.nontrivial()
            # the azimuthal gap: a strip of width ag centred on the seam at the upper angle of this segment
            u = x * np.cos(hi) + y * np.sin(hi)
            v = -x * np.sin(hi) + y * np.cos(hi)
            inring = (r > inner) & (r <= outer)
            strips |= (u > 0) & (np.abs(v) < ag / 2) & inring
            allband |= (np.abs(np.abs(v) - ag / 2) <= tol) & (u > -tol)
    count = np.sum(fulls, axis=0)
    union = count > 0
    over = (count > 1) & ~allband
    R.expect(not over.any(), 'keystone:overlap',
             f'{int(over.sum())} samples outside the band belong to more than one segment, e.g. {np.argwhere(over)[:3].tolist()}')
    # the band decides WHICH segment owns a sample on a shared radius / seam, never HOW MANY: the radial intervals are half open
    # and the angular ones open, so no sample at all may be counted twice
    R.expect(int(count.max(initial=0)) <= 1, 'keystone:double-owned-boundary-sample',
             f'{int((count > 1).sum())} samples (on a shared boundary) belong to more than one segment, e.g. (row, col) '
             f'{np.argwhere(count > 1)[:4].tolist()} at radii {r[count > 1][:4].tolist()}')
    amp = S['amp']
    R.expect(not (amp & (count != 1)).any(), 'keystone:double-owned-boundary-sample',
             'a transmitting sample on a shared boundary is not in exactly one segment')
    R.outcome('on-shared-radius' if onshared else 'no-sample-on-shared-radius')
    R.expect(not (amp & ~union).any(), 'keystone:amp-outside-segments',
             f'{int((amp & ~union).sum())} transmitting samples belong to no segment, e.g. {np.argwhere(amp & ~union)[:3].tolist()}')
    R.expect(not (amp & (count != 1) & ~allband).any(), 'keystone:amp-not-exactly-one', 'a transmitting sample is not in exactly one segment')
    # transmitting = in a segment and not in a gap strip
    want = union & ~strips
    bad = (amp != want) & ~allband
    R.expect(not bad.any(), 'keystone:amp-gap' + (':nogap' if ag == 0 else ''),
             f'amp differs from (union of segments) minus (azimuthal gap strips of width {ag}) at {int(bad.sum())} samples, '
             f'e.g. {np.argwhere(bad)[:3].tolist()}')
    R.nontrivial(union.any() and not union.all())
    R.outcome(band_class(nband))
    R.outcome('keystone:' + ('negrot' if negrot else 'rot'))


def run_keystone_opd(case, seed, R):
    n0, n1 = case['n0'], case['n1']
    S = key_setup(case, R)
    if S is None:
        return
    ap, fulls = S['ap'], S['fulls']
    kind = case['basis']
    if any(min(window_shape(w)) < 2 for w in S['wins']):
        # a window clamped to fewer than 2 samples: the implementation-defined normalisation radius (window extent) is 0
        R.outcome('opd:skipped:degenerate-window')
        return
    if kind == 'xy':
        orders = [tuple(o) for o in ORDERS_XY]
        out = R.call(ap.prepare_opd_bases, basis_xy, orders, basis_xy, orders, rotate_xyaxes=True,
                     sig='keystone:prepare_opd_bases:xy:exception')
    else:
        orders = [tuple(o) for o in ORDERS_RT]
        out = R.call(ap.prepare_opd_bases, basis_rt, orders, basis_rt, orders, sig='keystone:prepare_opd_bases:rt:exception')
    if out is FAILED:
        return
    nm, ns = len(orders), len(fulls)

    def f(c):
        return ap.compose_opd(c[0], c[1:])

    try:
        A, shp = operator_matrix(f, (ns, nm), R=R)
    except Exception as e:   # noqa
        R.violation('keystone:compose_opd:exception', f'compose_opd raised {type(e).__name__}: {e}')
        return
    if not R.expect(tuple(shp) == (n0, n1) and A.dtype.kind == 'f' and bool(np.isfinite(A).all()), 'keystone:compose_opd:shape',
                    f'compose_opd output shape {shp} dtype {A.dtype} (want {(n0, n1)} real, finite)'):
        return
    for k in range(ns):
        fk = fulls[k].ravel()
        name = 'centre disc' if k == 0 else f'keystone {k - 1}'
        for m in range(nm):
            col = A[:, k * nm + m]
            R.expect(not col[~fk].any(), 'keystone:opd-leak',
                     f'unit coefficient ({name}, mode {orders[m]}) changes {int((col[~fk] != 0).sum())} samples outside that segment')
        R.expect(np.array_equal(A[:, k * nm], fk.astype(float)), 'keystone:opd-piston', f'unit piston on {name} is not the indicator of that segment')
    coefs = dense((ns, nm), seed, salt=18, complex_=False)
    got = R.call(ap.compose_opd, coefs[0], coefs[1:], sig='keystone:compose_opd:exception')
    want = (A @ coefs.ravel()).reshape(n0, n1)
    cond = (np.abs(A) @ np.abs(coefs.ravel())).reshape(n0, n1)
    R.expect_close(got, want, 1e3 * EPS * (cond + 1e-300), 'keystone:opd-nonlinear', 'compose_opd(c) vs sum_k c_k compose_opd(e_k)')
    check_scaling(R, lambda c: R.call(ap.compose_opd, c[0], c[1:], sig='keystone:compose_opd:exception'), A, ns, nm, coefs, (n0, n1), 'keystone')
    # a unit piston on EVERY segment is an OPD of exactly 1 on every transmitting sample -- never 2 on a shared radius
    ones = np.zeros((ns, nm))
    ones[:, 0] = 1.0
    allp = R.call(ap.compose_opd, ones[0], ones[1:], sig='keystone:compose_opd:exception')
    if allp is not FAILED:
        try:
            allp = np.asarray(allp, dtype=float)
            okp = allp.shape == (n0, n1) and bool((allp[S['amp']] == 1).all()) and bool(((allp == 0) | (allp == 1)).all())
            where = np.argwhere((allp != 0) & (allp != 1))[:4].tolist() if allp.shape == (n0, n1) else []
        except Exception:   # noqa
            okp, where = False, []
        R.expect(okp, 'keystone:opd-piston-sum', f'unit piston on every segment does not compose to exactly 1 on the aperture; values other than 0/1 at {where}')
    again = R.call(ap.compose_opd, coefs[0], coefs[1:], sig='keystone:compose_opd:exception')
    R.expect_equal(again, got if got is not FAILED else want, 'keystone:opd-stateful', 'second identical compose_opd call')
    R.nontrivial(bool(A.any()))
    R.outcome(f'opd:{kind}')


# ---------------------------------------------------------------------------------------------
# primitives

def d4_views(a):
    """The 7 non-identity elements of the square's point group acting on a square, origin-centred array [row=y, col=x]."""
    return {
        'mirror-x': a[:, ::-1],            # x -> -x : mirror line at 90 deg
        'mirror-y': a[::-1, :],            # y -> -y : mirror line at 0 deg
        'mirror-diag': a.T,                # mirror line at 45 deg
        'mirror-anti': a[::-1, ::-1].T,    # mirror line at 135 deg
        'rot180': a[::-1, ::-1],
        'rot90': np.rot90(a),
        'rot270': np.rot90(a, 3),
    }


MIRROR_LINE = {'mirror-y': 0.0, 'mirror-diag': 45.0, 'mirror-x': 90.0, 'mirror-anti': 135.0}


def is_multiple(a, period):
    q = a / period
    return abs(q - round(q)) < 1e-9


def symmetric_part(a, n0, n1):
    o0, o1 = n0 // 2, n1 // 2
    hh = min(o0, n0 - 1 - o0, o1, n1 - 1 - o1)
    return a[o0 - hh:o0 + hh + 1, o1 - hh:o1 + hh + 1]


def group_of(kind, **p):
    """Elements of D4 that map the (origin-centred) analytic shape onto itself."""
    if kind == 'circle':
        return list(d4_views(np.zeros((1, 1))))
    if kind == 'axes':            # rectangle / ellipse: axes at -angle; square/circular when equal
        period = 45.0 if p['equal'] == 'square' else 90.0
        if p['equal'] == 'round':
            return list(d4_views(np.zeros((1, 1))))
        els = [m for m, b in MIRROR_LINE.items() if is_multiple(b + p['angle'], period)]
        els.append('rot180')
        if p['equal'] == 'square':
            els += ['rot90', 'rot270']
        return els
    if kind == 'polygon':         # mirror lines through vertices / edge midpoints: math angle 90 - rot - k*180/n
        n = p['sides']
        els = [m for m, b in MIRROR_LINE.items() if is_multiple(90.0 - p['rot'] - b, 180.0 / n)]
        if n % 2 == 0:
            els.append('rot180')
        if n % 4 == 0:
            els += ['rot90', 'rot270']
        return els
    if kind == 'spider':          # mirror lines along vanes and bisectors: rot + k*180/v
        v = p['vanes']
        els = [m for m, b in MIRROR_LINE.items() if is_multiple(b - p['rot'], 180.0 / v)]
        if v % 2 == 0:
            els.append('rot180')
        if v % 4 == 0:
            els += ['rot90', 'rot270']
        return els
    raise ValueError(kind)


def check_symmetry(R, got, inside, band, n0, n1, elements, sig, what):
    """got: bool raster on the full grid; compares it with its images on the index-symmetric part of the grid."""
    g, i, b = (symmetric_part(a, n0, n1) for a in (got, inside, band))
    gv, iv, bv = d4_views(g), d4_views(i), d4_views(b)
    for e in elements:
        if not np.array_equal(iv[e] | b | bv[e], i | b | bv[e]):
            raise RuntimeError(f'reference shape is not symmetric under {e}: {what}')     # harness error, never a finding
        dc = b | bv[e]
        bad = (gv[e] != g) & ~dc
        R.expect(not bad.any(), f'{sig}:symmetry:{e}', f'{what}: raster is not invariant under {e} of its own shape at '
                                                       f'{int(bad.sum())} samples of the index-symmetric part of the grid')


def check_monotone(R, masks, bands, sig, what, shrink=False):
    """masks ordered by increasing size parameter: each must contain the previous one (outside the bands)."""
    for j in range(1, len(masks)):
        small, big = (masks[j], masks[j - 1]) if shrink else (masks[j - 1], masks[j])
        if small is None or big is None:
            continue
        bad = small & ~big & ~(bands[j] | bands[j - 1])
        R.expect(not bad.any(), f'{sig}:monotone', f'{what}: step {j - 1}->{j} of the size alphabet loses {int(bad.sum())} samples')


CIRC_R = [0.0, 0.5, 1.0, 2.5, 5.0, 9.3, 16.0, 24.0, 33.0, 50.0]


def prim_common(case):
    n0, n1, dx = case['n0'], case['n1'], case['dx']
    x, y = make_grid(n0, n1, dx)
    x0, y0 = case['cx'] * dx, case['cy'] * dx
    return n0, n1, dx, x, y, x0, y0


def run_circle(case, seed, R):
    n0, n1, dx, x, y, x0, y0 = prim_common(case)
    prim = case['prim']
    centred = x0 == 0 and y0 == 0
    sig = f'{prim}'
    xs, ys = x - x0, y - y0
    rr = np.hypot(xs, ys)
    L = max(np.abs(xs).max(), np.abs(ys).max())
    nband = 0
    if prim in ('circle', 'annulus'):
        out = R.call(cart_to_polar, xs, ys)
        if out is FAILED:
            return
        try:
            rho, phi = out
        except Exception:   # noqa
            R.violation('cart_to_polar:type', 'does not return (rho, phi)')
            return
        if not R.expect_close(rho, rr, 4 * EPS * rr, 'cart_to_polar:rho', 'rho vs hypot(x, y)'):
            return
        R.expect_close(phi, np.arctan2(ys, xs), 8 * EPS * np.pi, 'cart_to_polar:phi', 'phi vs atan2(y, x)')
        # 1-D vectors -> grid
        out = R.call(cart_to_polar, xs[0, :], ys[:, 0])
        if out is not FAILED:
            try:
                R.expect_close(out[0], rr, 4 * EPS * rr, 'cart_to_polar:vec', 'rho from 1-D vectors')
            except Exception:   # noqa
                R.violation('cart_to_polar:vec', 'does not return (rho, phi) for vectors')
        rho = np.asarray(rho)
    if prim == 'circle' or prim == 'offset_circle':
        masks, bands = [], []
        for rs in CIRC_R:
            rad = rs * dx
            tol = BAND * max(L, rad)
            if prim == 'circle':
                m = as_mask(R, R.call(geometry.circle, rad, rho), (n0, n1), sig, f'circle({rad})')
            else:
                m = as_mask(R, R.call(geometry.offset_circle, rad, x, y, (x0, y0)), (n0, n1), sig, f'offset_circle({rad}, centre {(x0, y0)})')
            band = np.abs(rr - rad) <= tol
            inside = rr <= rad
            masks.append(m)
            bands.append(band)
            nband += int(band.sum())
            if m is None:
                continue
            compare(R, m, inside, band, f'{sig}:membership', f'{prim} radius {rad} centre {(x0, y0)}')
            if prim == 'offset_circle':
                c = as_mask(R, R.call(geometry.circle, rad, rr), (n0, n1), 'circle', f'circle({rad})')
                if c is not None:
                    R.expect(np.array_equal(m, c), 'offset_circle!=circle',
                             f'offset_circle({rad}, centre {(x0, y0)}) differs from circle({rad}) on hypot(x - x0, y - y0) at {int((m != c).sum())} samples')
            if centred:
                check_symmetry(R, m, inside, band, n0, n1, group_of('circle'), sig, f'{prim} radius {rad}')
            R.nontrivial(inside.any() and not inside.all())
        check_monotone(R, masks, bands, sig, f'{prim} centre {(x0, y0)}')
    elif prim == 'annulus':
        for fixed, var, which in (('rin', [0.0, 0.5, 2.0, 6.3, 13.0, 40.0], 'rout'), ('rout', [0.0, 1.0, 4.4, 9.0, 17.5, 20.0], 'rin')):
            for base in ([0.0, 3.0, 7.5] if fixed == 'rin' else [20.0, 31.0]):
                masks, bands = [], []
                for v in var:
                    rin, rout = (base * dx, (base + v) * dx) if fixed == 'rin' else (v * dx, base * dx)
                    tol = BAND * max(L, rout)
                    m = as_mask(R, R.call(geometry.annulus, rin, rout, rho), (n0, n1), sig, f'annulus({rin}, {rout})')
                    band = (np.abs(rr - rin) <= tol) | (np.abs(rr - rout) <= tol)
                    inside = (rr >= rin) & (rr <= rout)
                    masks.append(m)
                    bands.append(band)
                    nband += int(band.sum())
                    if m is None:
                        continue
                    compare(R, m, inside, band, f'{sig}:membership', f'annulus {rin}..{rout} centre {(x0, y0)}')
                    # relations between primitives that hold sample for sample, whatever the band: an annulus without a hole is
                    # the disc; with no sample exactly on the inner radius it is the outer disc minus the inner disc
                    c_out = as_mask(R, R.call(geometry.circle, rout, rho), (n0, n1), 'circle', f'circle({rout})')
                    c_in = as_mask(R, R.call(geometry.circle, rin, rho), (n0, n1), 'circle', f'circle({rin})')
                    if c_out is not None and c_in is not None:
                        if rin == 0:
                            dif = m != c_out
                            R.expect(not dif.any(), 'annulus:rin=0!=circle',
                                     f'annulus(0, {rout}) differs from circle({rout}) at {int(dif.sum())} samples, e.g. (row, col) '
                                     f'{np.argwhere(dif)[:3].tolist()} (radii {rr[dif][:3].tolist()}): a hole was punched into a disc')
                        if not (rr == rin).any():
                            dif = m != (c_out & ~c_in)
                            R.expect(not dif.any(), 'annulus!=circle-minus-circle',
                                     f'annulus({rin}, {rout}) differs from circle({rout}) & ~circle({rin}) at {int(dif.sum())} samples although no sample lies on the inner radius')
                    if centred:
                        check_symmetry(R, m, inside, band, n0, n1, group_of('circle'), sig, f'annulus {rin}..{rout}')
                    R.nontrivial(inside.any() and not inside.all())
                check_monotone(R, masks, bands, f'{sig}:{which}', f'annulus with fixed {fixed}={base * dx}', shrink=(which == 'rin'))
    elif prim == 'truecircle':
        # normalised grid spanning [-1, 1): dx = 2/n, square arrays only
        n = n0
        xs = (np.arange(n) - n // 2) * (2.0 / n)
        xx, yy = np.meshgrid(xs, xs)
        rr = np.hypot(xx, yy)
        hp = 1.0 / n     # half a pixel
        prev = None
        for rad in [0.0, 0.1, 0.25, 0.5, 0.77, 1.0, 1.3]:
            m = as_mask(R, R.call(geometry.truecircle, rad, rr), (n, n), sig, f'truecircle({rad})', binary=False)
            if m is None:
                prev = None
                continue
            if rad == 0:
                R.expect(not m.any(), f'{sig}:zero-radius', 'truecircle(0) is not empty')
            else:
                R.expect(bool((m >= 0).all() and (m <= 1).all()), f'{sig}:range', 'anti-aliased mask leaves [0, 1]')
                t = 1e-9
                R.expect(bool((m[rr <= rad - hp - t] == 1).all()), f'{sig}:interior', 'samples more than half a pixel inside the radius are not 1')
                R.expect(bool((m[rr >= rad + hp + t] == 0).all()), f'{sig}:exterior', 'samples more than half a pixel outside the radius are not 0')
                ramp = np.clip((rad + hp - rr) / (2 * hp), 0, 1)
                R.expect_close(m, ramp, 1e-9, f'{sig}:ramp', f'truecircle({rad}): linear one-pixel ramp centred on the radius')
                c = as_mask(R, R.call(geometry.circle, rad, rr), (n, n), 'circle', f'circle({rad})')
                if c is not None:
                    dif = ((m >= 0.5) != c) & (np.abs(rr - rad) > 1e-9)
                    R.expect(not dif.any(), 'truecircle:half-level!=circle', f'truecircle({rad}) >= 0.5 differs from circle({rad}) at {int(dif.sum())} samples')
                for e, v in d4_views(symmetric_part(m, n, n)).items():
                    R.expect(bool(np.abs(v - symmetric_part(m, n, n)).max() <= 1e-12), f'{sig}:symmetry:{e}', f'truecircle({rad}) not invariant under {e}')
                R.nontrivial()
            if prev is not None:
                R.expect(bool((m >= prev - 1e-12).all()), f'{sig}:monotone', f'truecircle shrinks somewhere when the radius grows to {rad}')
            prev = m
    R.outcome(band_class(nband))
    R.outcome(prim)


RECT_S = [0.5, 1.0, 2.5, 6.0, 11.3, 19.0, 40.0]


def run_rect(case, seed, R):
    n0, n1, dx, x, y, x0, y0 = prim_common(case)
    prim, ang, asp = case['prim'], case['angle'], case['aspect']
    centred = x0 == 0 and y0 == 0
    xs, ys = x - x0, y - y0
    a = math.radians(ang)
    u = xs * math.cos(a) - ys * math.sin(a)        # coordinate along the "width" / major axis
    v = xs * math.sin(a) + ys * math.cos(a)
    L = max(np.abs(xs).max(), np.abs(ys).max())
    masks, bands = [], []
    nband = 0
    sig = prim + (':angle=0' if ang == 0 else (':angle=90' if ang == 90 else ':rotated'))
    for s in RECT_S:
        w = s * dx
        hgt = w if asp is None else asp * w
        if prim == 'rectangle':
            out = R.call(geometry.rectangle, w, xs, ys, height=(None if asp is None else hgt), angle=ang)
            d = np.maximum(np.abs(u) - w, np.abs(v) - hgt)
            band = np.abs(d) <= BAND * max(L, w, hgt)
            inside = d <= 0
            equal = 'square' if hgt == w else 'no'
        else:
            out = R.call(geometry.rotated_ellipse, w, hgt, xs, ys, major_axis_angle=ang)
            f = (u / w) ** 2 + (v / hgt) ** 2 - 1
            band = np.abs(f) <= BAND * max(1.0, L / hgt)
            inside = f <= 0
            equal = 'round' if hgt == w else 'no'
        m = as_mask(R, out, (n0, n1), sig, f'{prim}({w}, {hgt}, angle={ang})')
        masks.append(m)
        bands.append(band)
        nband += int(band.sum())
        if m is None:
            continue
        compare(R, m, inside, band, f'{sig}:membership', f'{prim} half-widths ({w}, {hgt}) angle {ang} centre {(x0, y0)}')
        if prim == 'rectangle' and ang in (0, 90):
            # axis-aligned: pure comparisons on the given coordinates, inclusive edges (tests/test_geometry.py pins that a sample at
            # x == -width belongs to the rectangle) -- exact, boundary samples included
            ex = ((np.abs(xs) <= w) & (np.abs(ys) <= hgt)) if ang == 0 else ((np.abs(ys) <= w) & (np.abs(xs) <= hgt))
            R.expect(np.array_equal(m, ex), f'{sig}:exact-inclusive',
                     f'rectangle({w}, height {hgt}, angle {ang}) differs from |x| <= w & |y| <= h at {int((m != ex).sum())} samples (edges included)')
        if centred:
            check_symmetry(R, m, inside, band, n0, n1, group_of('axes', angle=ang, equal=equal), sig, f'{prim} ({w}, {hgt}) angle {ang}')
        R.nontrivial(inside.any() and not inside.all())
    check_monotone(R, masks, bands, sig, f'{prim} aspect {asp} angle {ang}')
    if prim == 'ellipse' and asp is not None and asp < 1:
        # documented contract: minor > major is refused
        try:
            geometry.rotated_ellipse(asp * dx, dx, xs, ys)
            R.expect(False, 'ellipse:minor>major', 'rotated_ellipse accepted width_minor > width_major')
        except ValueError:
            R.expect(True, 'ellipse:minor>major')
        except Exception as e:   # noqa
            R.expect(False, 'ellipse:minor>major', f'rotated_ellipse raised {type(e).__name__} instead of ValueError')
        R.tick()
    R.outcome(band_class(nband))
    R.outcome(sig)


POLY_R = [0.7, 2.0, 5.5, 11.0, 17.3, 30.0, 70.0]


def run_polygon(case, seed, R):
    n0, n1, dx, x, y, x0, y0 = prim_common(case)
    sides, rot = case['sides'], case['rot']
    centred = x0 == 0 and y0 == 0
    L = max(np.abs(x).max(), np.abs(y).max(), abs(x0), abs(y0))
    sig = f'regular_polygon:sides={sides}'
    masks, bands = [], []
    nband = 0
    for rs in case.get('radii', POLY_R):
        rad = rs * dx
        kw = {} if centred and case.get('defaults') else {'center': (x0, y0), 'rotation': rot}
        m = as_mask(R, R.call(geometry.regular_polygon, sides, rad, x, y, sig=sig + ':exception', hygiene=n0 * n1 <= 200000, **kw), (n0, n1), sig,
                    f'regular_polygon({sides}, {rad})')
        d = poly_dist(x, y, sides, rad, (x0, y0), rot)
        band = np.abs(d) <= BAND * (L + rad)
        inside = d <= 0
        masks.append(m)
        bands.append(band)
        nband += int(band.sum())
        if m is None:
            continue
        compare(R, m, inside, band, f'{sig}:membership', f'{sides}-gon radius {rad} rotation {rot} centre {(x0, y0)}')
        if centred:
            check_symmetry(R, m, inside, band, n0, n1, group_of('polygon', sides=sides, rot=rot), sig, f'{sides}-gon radius {rad} rotation {rot}')
        R.nontrivial(inside.any() and not inside.all())
    check_monotone(R, masks, bands, sig, f'{sides}-gon rotation {rot} centre {(x0, y0)}')
    R.outcome(band_class(nband))
    R.outcome(f'polygon:{sides}')


SPID_W = [0.0, 0.5, 1.0, 2.5, 6.2]


def run_spider(case, seed, R):
    n0, n1, dx, x, y, x0, y0 = prim_common(case)
    vanes, rot, rad = case['vanes'], case['rot'], case['rad']
    centred = x0 == 0 and y0 == 0
    xs, ys = x - x0, y - y0
    L = max(np.abs(xs).max(), np.abs(ys).max())
    tol = BAND * L
    sig = f'spider:vanes={vanes}'
    masks, bands = [], []
    nband = 0
    for ws in SPID_W:
        w = ws * dx
        kw = {}
        if rot != 0 or rad:
            kw['rotation'] = math.radians(rot) if rad else rot
        if rad:
            kw['rotation_is_rad'] = True
        if not centred:
            kw['center'] = (x0, y0)
        m = as_mask(R, R.call(geometry.spider, vanes, w, x, y, **kw), (n0, n1), sig, f'spider({vanes}, {w})')
        vane = np.zeros((n0, n1), dtype=bool)
        band = np.zeros((n0, n1), dtype=bool)
        for k in range(vanes):
            phi = math.radians(rot - k * 360.0 / vanes)
            u = xs * math.cos(phi) + ys * math.sin(phi)
            v = -xs * math.sin(phi) + ys * math.cos(phi)
            vane |= (u > 0) & (np.abs(v) < w / 2)
            band |= ((np.abs(np.abs(v) - w / 2) <= tol) & (u > -tol)) | ((np.abs(u) <= tol) & (np.abs(v) <= w / 2 + tol))
        inside = ~vane        # the function returns the transmitting part
        masks.append(m)
        bands.append(band)
        nband += int(band.sum())
        if m is None:
            continue
        compare(R, m, inside, band, f'{sig}:membership', f'spider {vanes} vanes width {w} rotation {rot} centre {(x0, y0)}')
        if w == 0:
            R.expect(bool(m.all()), 'spider:zero-width', f'a spider with vanes of zero width obscures {int((~m).sum())} samples')
        if centred:
            check_symmetry(R, m, inside, band, n0, n1, group_of('spider', vanes=vanes, rot=rot), sig, f'spider {vanes} vanes width {w} rotation {rot}')
        R.nontrivial(inside.any() and not inside.all())
    check_monotone(R, masks, bands, sig, f'spider {vanes} vanes rotation {rot}: transmitting part', shrink=True)
    R.outcome(band_class(nband))
    R.outcome(f'spider:{vanes}')


def run_fillet(case, seed, R):
    n0, n1, dx, x, y, x0, y0 = prim_common(case)
    rot = case['rot']
    a = math.radians(rot)
    # documented: rotation about the coordinate grid centre (the coordinates are rotated, like rectangle)
    xr = x * math.cos(a) - y * math.sin(a)
    yr = x * math.sin(a) + y * math.cos(a)
    X, Y = np.abs(xr - x0), np.abs(yr - y0)
    L = max(np.abs(x).max(), np.abs(y).max()) * 1.5
    masks, bands = [], []
    nband = 0
    sig = 'rectangle_with_corner_fillets'
    for s in [2.0, 4.5, 9.0, 14.2]:
        w, hgt = s * dx, case['aspect'] * s * dx
        cr = case['fillet'] * min(w, hgt)
        m = as_mask(R, R.call(geometry.rectangle_with_corner_fillets, w, hgt, cr, x, y, center=(x0, y0), rotation=rot), (n0, n1), sig,
                    f'rectangle_with_corner_fillets({w}, {hgt}, {cr})')
        tol = BAND * (L + w + hgt)
        corner = (X > w - cr) & (Y > hgt - cr)
        rho = np.hypot(X - (w - cr), Y - (hgt - cr))
        d = np.where(corner, rho - cr, np.maximum(X - w, Y - hgt))
        # the arcs are polygonised with ceil(pi cr / (2 dx)) chords per quarter: sagitta <= cr (1 - cos(pi / (4 N)))
        nch = max(1, math.ceil(2 * math.pi * cr / 4 / dx))
        sag = cr * (1 - math.cos(math.pi / (4 * nch)))
        band = (np.abs(d) <= tol) | (corner & (d <= tol) & (d >= -sag - tol))
        inside = d <= 0
        masks.append(m)
        bands.append(band)
        nband += int(band.sum())
        if m is None:
            continue
        compare(R, m, inside, band, f'{sig}:membership', f'filleted rectangle ({w}, {hgt}) fillet {cr} rotation {rot} centre {(x0, y0)}')
        R.nontrivial(inside.any() and not inside.all())
    check_monotone(R, masks, bands, sig, f'filleted rectangle rotation {rot}')
    R.outcome(band_class(nband))
    R.outcome('fillet')


# ---------------------------------------------------------------------------------------------
# scopes

HEX_DIAM = {1: [11.0, 15.7], 2: [7.0, 10.3], 3: [5.0, 7.6]}     # flat-to-flat, in samples
HEX_DIAM_T = {1: [11.0, 15.7, 21.4], 2: [7.0, 10.3, 13.0], 3: [5.0, 7.6, 9.1]}
GAPS = [0.0, 1.0, 3.3]                                            # in samples


def ring_first(k):
    return 1 + 3 * k * (k - 1)


def ring_last(k):
    return 3 * k * (k + 1)


def excl_sets(rings):
    """The base alphabet: none, the centre, centre + one inner id, the very last id."""
    return [[], [0], [0, 3], [ring_last(rings)]]


def excl_sets_ring_edges(rings):
    """Exclusions that touch the id bookkeeping between rings: first id, last id and a trailing run of EVERY ring,
    the last ids of all non-final rings together, a whole inner ring, centre + an inner ring's last id."""
    out = []
    for k in range(1, rings + 1):
        out += [[ring_first(k)], [ring_last(k)], [ring_last(k) - 1, ring_last(k)]]
    if rings >= 2:
        out.append([ring_last(k) for k in range(1, rings)])
        out.append(list(range(ring_first(1), ring_last(1) + 1)))
        out.append([0, ring_last(1)])
        out.append([ring_last(1), ring_first(2)])
    base = excl_sets(rings)
    uniq = []
    for e in out:
        if e not in base and e not in uniq:
            uniq.append(e)
    return uniq


def excl_tag(excl, rings):
    if not excl:
        return 'excl=none'
    if excl == [0]:
        return 'excl=0'
    if any(e == ring_last(k) for e in excl for k in range(1, rings)):
        return 'excl=inner-ring-last'
    if ring_last(rings) in excl:
        return 'excl=last'
    if any(e == ring_first(k) for e in excl for k in range(1, rings + 1)):
        return 'excl=ring-first'
    return 'excl=multi'


def plan(tier, seed):
    quick = tier == 'quick'
    rs = lambda: reset_executors(64)   # noqa  (regular_polygon reads config.precision)
    grids_full = [[48, 48], [49, 49], [64, 64], [65, 65], [48, 65], [65, 48], [96, 96], [97, 97]]
    grids_q = [[48, 48], [49, 49], [64, 64], [65, 65], [48, 65]]
    grids = grids_q if quick else grids_full
    dxs = [1.0, 0.1]
    diams = HEX_DIAM if quick else HEX_DIAM_T

    hex_cases = [{'n0': n[0], 'n1': n[1], 'dx': dx, 'rings': r, 'diam': d, 'gap': g, 'angle': a, 'exclude': e}
                 for r in (1, 2, 3) for n in grids for dx in dxs for d in diams[r] for g in GAPS for a in (90, 0)
                 for e in excl_sets(r)]
    # exclusions at ring boundaries: the id bookkeeping does not depend on the raster, so a reduced geometric product
    hex_cases += [{'n0': n[0], 'n1': n[1], 'dx': 1.0, 'rings': r, 'diam': HEX_DIAM[r][0], 'gap': g, 'angle': a, 'exclude': e}
                  for r in (1, 2, 3) for n in ([[48, 48], [49, 49]] if quick else [[48, 48], [49, 49], [64, 65]]) for g in (0.0, 3.3)
                  for a in (90, 0) for e in excl_sets_ring_edges(r)]
    # large segments: window half-widths that scale with the segment (threshold alphabet; a few geometries only)
    large = [[43, 0, 30.0], [43, 0, 36.5], [83, 1, 21.0], [83, 0, 45.0], [103, 2, 16.0], [103, 1, 30.0], [128, 2, 21.0], [129, 2, 21.0],
             [128, 1, 30.0], [129, 1, 45.0], [128, 0, 45.0], [129, 0, 45.0]]
    large_cases = [{'n0': n, 'n1': n, 'dx': dx, 'rings': r, 'diam': d, 'gap': g, 'angle': a, 'exclude': []}
                   for n, r, d in large for dx in (1.0, 0.1) for g in (0.0, 1.0) for a in (90, 0)]
    opd_grids = [[48, 48], [49, 49], [40, 57]] if quick else [[48, 48], [49, 49], [64, 64], [65, 65], [40, 57], [57, 40]]
    opd_cases = [{'n0': n[0], 'n1': n[1], 'dx': dx, 'rings': r, 'diam': HEX_DIAM[r][1], 'gap': g, 'angle': a, 'exclude': e,
                  'basis': b, 'norm': nr}
                 for r in ((1, 2) if quick else (1, 2, 3)) for n in opd_grids for dx in dxs for g in (0.0, 3.3) for a in (90, 0)
                 for e in excl_sets(r) for b in ('xy', 'rt') for nr in ('default', 'explicit')]
    opd_cases += [{'n0': n, 'n1': n, 'dx': 1.0, 'rings': r, 'diam': HEX_DIAM[r][0], 'gap': 1.0, 'angle': a, 'exclude': e,
                   'basis': b, 'norm': 'default'}
                  for r in ((2,) if quick else (2, 3)) for n in (48, 49) for a in (90, 0) for e in excl_sets_ring_edges(r) for b in ('xy', 'rt')]

    rots = [None, 0, 10, [0, 17.5], 100, -10]
    key_cases = [{'n0': n[0], 'n1': n[1], 'dx': dx, 'layout': lay, 'fill': fill, 'gap': g, 'agap': agp, 'rot': rot}
                 for lay in ('A', 'B', 'C', 'D') for n in grids for dx in dxs for fill in (1.0, 1.45)
                 for g in GAPS for agp in ((None, 2.0) if quick else (None, 0.0, 2.0)) for rot in rots
                 if not (isinstance(rot, list) and lay == 'C')]
    key_cases += [{'n0': n[0], 'n1': n[1], 'dx': dx, 'layout': lay, 'fill': 1.0, 'gap': 0.0, 'agap': agp, 'rot': rot}
                  for lay in ('E', 'F') for n in [[64, 64], [65, 65], [49, 49], [48, 65]] for dx in (1.0, 0.5)
                  for agp in (None, 2.0) for rot in (None, 0, 10, -10)]
    kopd_cases = [{'n0': n[0], 'n1': n[1], 'dx': 1.0, 'layout': lay, 'fill': fill, 'gap': g, 'agap': None, 'rot': rot, 'basis': b}
                  for lay in ('A', 'B') for n in ([[48, 48], [49, 49]] if quick else [[48, 48], [49, 49], [48, 65], [65, 64]])
                  for fill in (1.0, 1.45) for g in (0.0, 3.3) for rot in (None, 10) for b in ('rt', 'xy')]
    kopd_cases += [{'n0': n, 'n1': n, 'dx': dx, 'layout': lay, 'fill': 1.0, 'gap': 0.0, 'agap': None, 'rot': rot, 'basis': 'rt'}
                   for lay in ('E', 'F') for n in (64, 65) for dx in (1.0, 0.5) for rot in (None, 10)]

    offs = [[0.0, 0.0], [3.3, -2.1], [-7.0, 5.0]]
    circ_cases = [{'prim': p, 'n0': n[0], 'n1': n[1], 'dx': dx, 'cx': c[0], 'cy': c[1]}
                  for p in ('circle', 'annulus', 'offset_circle') for n in grids for dx in dxs for c in offs]
    circ_cases += [{'prim': 'truecircle', 'n0': n, 'n1': n, 'dx': 2.0 / n, 'cx': 0.0, 'cy': 0.0} for n in (48, 49, 64, 65)]
    rect_cases = [{'prim': 'rectangle', 'n0': n[0], 'n1': n[1], 'dx': dx, 'angle': a, 'aspect': asp, 'cx': c[0], 'cy': c[1]}
                  for n in grids for dx in dxs for a in (0, 90, 45, 30, -17.5, 180) for asp in (None, 0.5, 1.7) for c in offs]
    rect_cases += [{'prim': 'ellipse', 'n0': n[0], 'n1': n[1], 'dx': dx, 'angle': a, 'aspect': asp, 'cx': c[0], 'cy': c[1]}
                   for n in grids for dx in dxs for a in (0, 90, 45, 30, -17.5, 180) for asp in (None, 0.6, 0.25) for c in offs]
    poly_cases = [{'n0': n[0], 'n1': n[1], 'dx': dx, 'sides': s, 'rot': rot, 'cx': c[0], 'cy': c[1]}
                  for s in range(3, 9) for n in grids for dx in dxs for rot in (0, 90, 15, 37.3, -20, 180) for c in offs]
    poly_cases += [{'n0': n[0], 'n1': n[1], 'dx': 1.0, 'sides': s, 'rot': 0, 'cx': 0.0, 'cy': 0.0, 'defaults': True}
                   for s in range(3, 9) for n in grids]
    # size thresholds of the rasteriser (grids above 2^16 / 2^20 samples, polygon reaching the last rows and columns): not closed over sizes
    poly_cases += [{'n0': n[0], 'n1': n[1], 'dx': 0.5, 'sides': sd, 'rot': rot, 'cx': c[0], 'cy': c[1], 'radii': [0.3 * min(n), 0.62 * min(n)]}
                   for (n, sd, rot, c) in (([300, 301], 6, 15, (0.0, 0.0)), ([1100, 1000], 6, 15, (3.3, -7.1)), ([1030, 1031], 5, -20, (0.0, 0.0)))]
    spid_cases = [{'n0': n[0], 'n1': n[1], 'dx': dx, 'vanes': v, 'rot': rot, 'rad': rad, 'cx': c[0], 'cy': c[1]}
                  for v in range(1, 7) for n in grids for dx in dxs for rot in (0, 30, 90, 45.5, -20, -100, 200, 400) for rad in (False, True) for c in offs]
    # integer-count parameters beyond the small alphabets: every count up to 17, in particular those that do not divide 360
    # (7, 11, 13, 14, 16, 17) and the primes; reduced geometric product
    cnt_grids = [[48, 48], [49, 49], [48, 65]]
    spid_cases += [{'n0': n[0], 'n1': n[1], 'dx': dx, 'vanes': v, 'rot': rot, 'rad': rad, 'cx': c[0], 'cy': c[1]}
                   for v in range(7, 18) for n in cnt_grids for dx in dxs for rot in (0, 45.5, -20) for rad in (False, True) for c in offs[:2]]
    poly_cases += [{'n0': n[0], 'n1': n[1], 'dx': dx, 'sides': sd, 'rot': rot, 'cx': c[0], 'cy': c[1]}
                   for sd in range(9, 18) for n in cnt_grids for dx in dxs for rot in (0, 15, -20) for c in offs[:2]]
    key_cases += [{'n0': n[0], 'n1': n[1], 'dx': dx, 'layout': lay, 'fill': 1.0, 'gap': g, 'agap': None, 'rot': rot}
                  for lay in ('G', 'H', 'I') for n in cnt_grids + [[64, 64]] for dx in dxs for g in (0.0, 1.0) for rot in (None, 10, -10)]
    kopd_cases += [{'n0': n, 'n1': n, 'dx': 1.0, 'layout': lay, 'fill': 1.0, 'gap': 1.0, 'agap': None, 'rot': None, 'basis': 'rt'}
                   for lay in ('G', 'I') for n in (64, 65)]
    large_cases += [{'n0': n, 'n1': n, 'dx': 1.0, 'rings': r, 'diam': d, 'gap': g, 'angle': a, 'exclude': e}
                    for n, r, d in ([128, 4, 11.0], [129, 5, 9.0]) for g in (0.0, 1.0) for a in (90, 0) for e in ([], [ring_last(r - 1)])]
    fil_cases = [{'n0': n[0], 'n1': n[1], 'dx': dx, 'rot': rot, 'aspect': asp, 'fillet': f, 'cx': c[0], 'cy': c[1]}
                 for n in grids for dx in dxs for rot in (0, 30, 90) for asp in (1.0, 0.6) for f in (0.3, 1.0) for c in offs[:2]]

    G = ', '.join(f'{a}x{b}' for a, b in grids)
    units = [
        ScopeUnit('hex_tiling', hex_cases, run_hex,
                  f'every grid in {{{G}}} x dx in {{1, 0.1}} x rings {{1,2,3}} x flat-to-flat diameters per ring count {diams} samples (the larger ones '
                  f'overflow the small grids, so windows get clamped / emptied) x gap {GAPS} samples x segment_angle {{90, 0}} x exclusion {{none, {{0}}, {{0,3}}, {{last}}}}, plus on a reduced '
                  'geometric product the ring-boundary exclusions (first id, last id, trailing pair of every ring, all inner-ring last ids, whole ring 1, {{0,6}}, {{6,7}}): '
                  'ids and count 1+3r(r+1)-|excl|, centres at the documented positions, every segment raster == analytic hexagon outside the 1e-9 band, '
                  'pairwise disjoint, amp == union, area within the boundary-pixel bound, local_coords; non-trivial when the aperture is neither empty nor full',
                  reset=rs),
        ScopeUnit('hex_large', large_cases, run_hex,
                  f'large-segment threshold alphabet (grid, rings, flat-to-flat samples) in {large} x dx {{1, 0.1}} x gap {{0, 1}} x both angles, rings 0 = centre segment alone: '
                  'same oracles as hex_tiling; exercises window sizes that scale with the segment (a window derived from the flat-to-flat half-width instead of the vertex radius '
                  'only clips beyond ~16..30 samples); plus rings 4 and 5 (61 / 91 segments) on 128 / 129 grids; a few geometries only, not a closed product', reset=rs),
        ScopeUnit('hex_opd', opd_cases, run_hex_opd,
                  'grids x dx x rings x gap {0, 3.3} x both angles x 4 exclusion sets x basis {Cartesian monomials, polar r^n cos/sin} x normalisation {default, explicit}: '
                  'the full operator matrix of compose_opd over the (segment, mode) basis: support of every column inside its own segment, piston column == segment indicator, '
                  'column == mode(local coordinates) x mask, one seeded dense coefficient array == matrix x coefficients, homogeneity compose(s c) == s compose(c) for s in {1e-3, 1e-9, 1e-12, -1e-9} '
                  '(one mode of every segment + the dense array) and an array mixing O(1), 1e-9, 1e-12 and 0 segments, repeatability, out= accumulation; ring-boundary exclusions on a reduced product', reset=rs),
        ScopeUnit('keystone_tiling', key_cases, run_keystone,
                  f'grids x dx x layouts {sorted(set(c["layout"] for c in key_cases))} (segments per ring / ring widths, scalar and per-ring forms) x fill {{fits, overflows the grid}} x radial gap {GAPS} x azimuthal gap '
                  'x rotation_per_ring {None, 0, 10, [0,17.5], 100, -10}: count, every segment raster == analytic annular sector outside the band, pairwise disjoint, amp inside the union and each amp '
                  'sample in exactly one segment, amp == union minus seam strips, areas within the boundary-pixel bound; plus absolute layouts E (radii 5,10,15,25 samples) and F (3,5,13) '
                  'with radial_gap exactly 0 and dx in {1, 0.5}, and layouts G/H/I with segment counts 7, 11, 13, 14, 16, 17 (pitch not a whole number of degrees), where on-axis and Pythagorean samples lie exactly ON a shared radius: no sample may be owned twice (the band never applies to the count)', reset=rs),
        ScopeUnit('keystone_opd', kopd_cases, run_keystone_opd,
                  'layouts A,B x grids x fill x gap x rotation x basis {polar, Cartesian}: operator matrix of compose_opd over (centre + segments, mode): confinement, piston, linearity, homogeneity over the scale alphabet {1e-3, 1e-9, 1e-12, -1e-9} and a mixed-scale array, repeatability', reset=rs),
        ScopeUnit('prim_circle', circ_cases, run_circle,
                  f'circle / annulus / offset_circle on every grid x dx x centre offset {offs} samples x the sorted radius alphabet {CIRC_R} samples (annulus: 3 inner x 6 outer and 2 outer x 6 inner); '
                  'truecircle on the normalised grid for n in {48,49,64,65}; cart_to_polar against hypot/atan2: membership, monotone growth, full D4 symmetry on the index-symmetric part; '
                  'sample-for-sample relations that ignore the band: annulus(0, R) == circle(R), annulus(rin, rout) == circle(rout) & ~circle(rin) when no sample lies on rin, '
                  'offset_circle == circle on the shifted radius, truecircle >= 0.5 == circle', reset=rs),
        ScopeUnit('prim_rect_ellipse', rect_cases, run_rect,
                  f'rectangle (height None / 0.5 / 1.7 x width) and rotated_ellipse (minor = 1 / 0.6 / 0.25 x major) x angle {{0, 90, 45, 30, -17.5, 180}} x offsets x sorted sizes {RECT_S}: '
                  'membership, monotone growth, the symmetries of the rotated shape that map the grid to itself', reset=rs),
        ScopeUnit('prim_polygon', poly_cases, run_polygon,
                  f'regular_polygon sides 3..8 (and, on a reduced product, every count 9..17) x rotation {{0, 90, 15, 37.3, -20, 180}} x offsets x sorted radii {POLY_R} (plus the all-defaults call): half-plane membership outside the band, monotone growth, symmetry', reset=rs),
        ScopeUnit('prim_spider', spid_cases, run_spider,
                  f'spider vanes 1..6 (and, on a reduced product with rotation and off-centre cases, every count 7..17 -- includes all counts that do not divide 360) x rotation {{0, 30, 90, 45.5, -20, -100, 200, 400}} (each in the degrees and in the radians form, so negative and > 2 pi radian rotations are called directly) x offsets x sorted widths {SPID_W}: membership of the transmitting part, monotone shrinking, symmetry', reset=rs),
        ScopeUnit('prim_fillet', fil_cases, run_fillet,
                  'rectangle_with_corner_fillets x rotation {0, 30, 90} x aspect x fillet fraction x offsets x sorted sizes: rounded-rectangle membership with the chord sagitta added to the band at the corners, monotone growth', reset=rs),
    ]
    return units
