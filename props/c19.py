"""C19 -- ray tracing obeys Snell's law and keeps rays on surfaces.

Reference model (all written here, independent of the library's gradient / vector code):

* rigid motion: local = Rm (X - Pv), global = Rm^T x + Pv, with Rm built here from the pose angles;
* sag of plane / sphere / conic / off-axis conic from the closed form z = c rho^2 / (1 + sqrt(1 - (1+k) c^2 rho^2)),
  rho^2 = (x+dx)^2 + (y+dy)^2;  ray/surface intersection from the quadric c rho^2 + c(1+k) z^2 - 2 z = 0
  (stable quadratic roots, restricted to the sheet through the vertex); a negative discriminant is a
  geometric miss -- decided here, never by the implementation's NaNs;
* unit normal: analytic (c X / phi, c Y / phi) for the conic family (cross-checked in unit ``refmodel``
  against Richardson-extrapolated central differences of the sag), Richardson differences of the sag for
  Q-type surfaces;
* reflection S' = S - 2 (S.n) n;  refraction S' = mu S + (sgn(S.n) sqrt(1 - mu^2 (1 - (S.n)^2)) - mu S.n) n.

Every hop of every trace is judged locally: the incoming ray is the implementation's previous (validated)
output, the outgoing point / direction are judged clause by clause (on the surface, on the incoming line,
unit length, law of reflection, Snell's law, coplanarity, transmitted side, full vector).
"""
import itertools
import math

import numpy as np

from mc import ScopeUnit, FAILED
from mc.linalg import dense
from mc.state import reset_all

from prysm.coordinates import make_rotation_matrix, cart_to_polar
from prysm.x.raytracing import surfaces as rs
from prysm.x.raytracing import spencer_and_murty as sm

ID = 'C19'
ASSUMPTIONS = [
    'a Q-type surface is built the way a user has to build it (prysm has no Q-type Surface constructor): '
    'Surface(FFp) with FFp = Q2d_and_der + surface_normal_from_cylindrical_derivatives; its *sag* as returned by '
    'Q2d_and_der defines the surface (the polynomial content is C10\'s business), its normal is judged against '
    'Richardson differences of that sag; the documented r=0 singularity of the polar->Cartesian helper is excluded '
    'for Q-type surfaces only (counted as outcome q2d-origin-excluded)',
    'the tilt of a surface is the matrix Rx(x)Ry(y)Rz(z) of its (z, y, x) angles and local = R (X - P); '
    'make_rotation_matrix and Surface.R are compared with that transcription',
    'rays whose crossing of the local z=0 plane lies outside the domain of the sag (the square root is imaginary '
    'there), or that travel parallel to that plane (|local direction cosine m| < 1e-6: the crossing does not exist), are outside the scope of '
    'Spencer & Murty\'s iteration and excluded by the reference (counted as start-outside); '
    'total internal reflection is excluded by the reference radicand (counted)',
    'rays that meet the surface at grazing incidence (|cos i| < 0.02 at the candidate intersection nearest the local z=0 plane, a near-double root whose '
    'position is ill-conditioned) are excluded by the reference (counted as outcome grazing)',
]

EPS = float(np.finfo(float).eps)
WVL = 0.55

# measured honest error of the pinned tree over the whole thorough scope (seeds 0..3) is noted next to each
TOL_P = 5e-11     # positions [length units; coordinates are O(10..100), scaled up beyond 100]; honest max 5e-13
TOL_D = 2e-12     # direction cosines / sines, analytic normal (divided by cos i' for refraction); honest max 1.4e-14
TOL_DQ = 2e-9     # direction cosines when the normal comes from Richardson differences of a Q-type sag; honest max 8e-13
TOL_ROOT = 1e-9   # |s_impl - s_ref|: consistency of the two formulations of the intersection;       honest max 1.2e-12
TOL_UNIT = 1e3 * EPS   # | |S'| - 1 |;                                                                 honest max 10 eps


# ---------------------------------------------------------------------------------------------
# reference geometry

def ref_rotmat(zyx, radians=False, cond=False):
    """Rx(x) Ry(y) Rz(z) for angles given (in degrees unless radians) in the order (z, y, x), missing trailing angles = 0; identity for None."""
    if zyx is None:
        return np.eye(3)
    if isinstance(zyx, np.ndarray) and zyx.shape == (3, 3):
        return np.abs(zyx) if cond else zyx
    a = [0.0, 0.0, 0.0]
    a[:len(zyx)] = [float(v) if radians else math.radians(v) for v in zyx]
    g, b, al = a
    Rx = np.array([[1, 0, 0], [0, math.cos(al), -math.sin(al)], [0, math.sin(al), math.cos(al)]])
    Ry = np.array([[math.cos(b), 0, math.sin(b)], [0, 1, 0], [-math.sin(b), 0, math.cos(b)]])
    Rz = np.array([[math.cos(g), -math.sin(g), 0], [math.sin(g), math.cos(g), 0], [0, 0, 1]])
    if cond:
        return np.abs(Rx) @ np.abs(Ry) @ np.abs(Rz)      # elementwise sum of |terms|: rounding bound of every entry
    return Rx @ Ry @ Rz


def ref_Pvec(P):
    if isinstance(P, (int, float)):
        return np.array([0.0, 0.0, float(P)])
    return np.array([float(v) for v in P])


def conic_params(desc):
    if desc['kind'] == 'plane':
        return 0.0, 0.0, 0.0, 0.0
    return float(desc['c']), float(desc.get('k', 0.0)), float(desc.get('dx', 0.0)), float(desc.get('dy', 0.0))


def conic_sag(c, k, dx, dy, x, y):
    X = x + dx
    Y = y + dy
    rho2 = X * X + Y * Y
    with np.errstate(invalid='ignore'):
        phi = np.sqrt(1 - (1 + k) * c * c * rho2)
    return c * rho2 / (1 + phi)


def conic_grad(c, k, dx, dy, x, y):
    X = x + dx
    Y = y + dy
    with np.errstate(invalid='ignore', divide='ignore'):
        phi = np.sqrt(1 - (1 + k) * c * c * (X * X + Y * Y))
        return c * X / phi, c * Y / phi


def richardson_grad(f, x, y, h=2e-2):
    """Fourth-order central differences of f(x, y) -> (fx, fy)."""
    def d(fp, fm, step):
        return (fp - fm) / (2 * step)
    h2 = h / 2
    fx = (4 * d(f(x + h2, y), f(x - h2, y), h2) - d(f(x + h, y), f(x - h, y), h)) / 3
    fy = (4 * d(f(x, y + h2), f(x, y - h2), h2) - d(f(x, y + h), f(x, y - h), h)) / 3
    return fx, fy


def unit_normal(fx, fy):
    nrm = np.sqrt(1 + fx * fx + fy * fy)
    return np.stack([-fx / nrm, -fy / nrm, 1 / nrm], axis=1)


def q_coefs(desc, seed):
    """Coefficients of a Q-type surface: the generic representative of the cell is seeded."""
    amp = 0.15
    if desc['q'] == 'bfs':
        cm0 = (amp * dense((3,), seed, 19, complex_=False)).tolist()
        return cm0, [], []
    cm0 = (amp * dense((2,), seed, 20, complex_=False)).tolist()
    ab = amp * dense((2, 2, 2), seed, 21, complex_=False)
    return cm0, ab[0].tolist(), ab[1].tolist()


class Geo:
    """Reference geometry of one posed surface (+ the real prysm Surface)."""

    def __init__(self, sd, seed):
        self.sd = sd
        self.desc = desc = sd['shape']
        self.kind = desc['kind']
        self.st = desc['kind'] + ('-conicbase' if desc['kind'] == 'q2d' and desc.get('k', 0.0) != 0 else '')
        self.typ = sd['typ']
        self.nprime = float(sd['n']) if sd.get('n') is not None else 1.0     # only meaningful for typ == 'refr'
        self.Pv = ref_Pvec(sd['P'])
        self.Rm = ref_rotmat(sd.get('R'))
        self.tilt = sd.get('R') is not None
        self.c, self.k, self.dx, self.dy = conic_params(desc)
        self.isq = self.kind == 'q2d'
        self.ticks = 0
        if self.isq:
            self.coefs = q_coefs(desc, seed)
            self.nr = float(desc['nr'])

    # -- the real object ----------------------------------------------------------------------
    def build(self, R, P_arg=None, R_arg=None):
        """Construct the real Surface; P_arg / R_arg override the form in which position / tilt are handed over."""
        d = self.desc
        typ, P, Rz = self.typ, (self.sd['P'] if P_arg is None else P_arg), (self.sd.get('R') if R_arg is None else R_arg)
        npr = self.sd.get('n', 1.0)
        n = None if npr is None else (lambda wvl, npr=float(npr): npr)     # None: surface carries no index function
        k = self.kind
        if k == 'plane':
            return R.call(rs.Surface.plane, typ, P, n=n, R=Rz)
        if k == 'sphere':
            return R.call(rs.Surface.sphere, d['c'], typ, P, n, R=Rz)
        if k == 'conic':
            return R.call(rs.Surface.conic, d['c'], d['k'], typ, P, n=n, R=Rz)
        if k == 'oac':
            return R.call(rs.Surface.off_axis_conic, d['c'], d['k'], typ, P, dy=d['dy'], dx=d['dx'], n=n, R=Rz)
        if k == 'q2d':
            return R.call(rs.Surface, typ, P, n, self._q_FFp(), R=Rz)
        raise ValueError(k)

    def _q_raw(self, x, y):
        cm0, ams, bms = self.coefs
        x2 = np.asarray(x, dtype=float)[np.newaxis, :]
        y2 = np.asarray(y, dtype=float)[np.newaxis, :]
        return x2, y2, rs.Q2d_and_der(cm0, ams, bms, x2, y2, self.nr, self.c, self.k, dx=self.dx, dy=self.dy)

    def _q_FFp(self):
        def FFp(x, y):
            x2, y2, (z, dr, dt) = self._q_raw(x, y)
            r, t = cart_to_polar(x2, y2, vec_to_grid=False)
            fx, fy = rs.surface_normal_from_cylindrical_derivatives(dr, dt, r, t)
            return z[0], fx[0], fy[0]
        return FFp

    # -- reference ------------------------------------------------------------------------------
    def sag(self, x, y):
        if self.isq:
            self.ticks += 1
            with np.errstate(all='ignore'):
                return np.asarray(self._q_raw(x, y)[2][0][0], dtype=float)
        return conic_sag(self.c, self.k, self.dx, self.dy, x, y)

    def normal(self, x, y):
        if self.isq:
            fx, fy = richardson_grad(self.sag, x, y)
        else:
            fx, fy = conic_grad(self.c, self.k, self.dx, self.dy, x, y)
        return unit_normal(fx, fy)

    def to_local(self, X, S):
        return (X - self.Pv) @ self.Rm.T, S @ self.Rm.T

    def base_roots(self, p, d):
        """Roots s of the ray p + s d with the base quadric, on the sheet through the vertex: (N,2), NaN = none."""
        c, k = self.c, self.k
        sh = np.array([self.dx, self.dy, 0.0])
        # shift the parameter origin to the point of the ray closest to the (parent) vertex: well conditioned
        pt = p + sh
        s_c = -np.einsum('ij,ij->i', pt, d) / np.einsum('ij,ij->i', d, d)
        q = pt + s_c[:, None] * d
        w = np.array([1.0, 1.0, 1.0 + k])
        A = c * np.einsum('ij,ij->i', d * w, d)
        B = 2 * c * np.einsum('ij,ij->i', q * w, d) - 2 * d[:, 2]
        C = c * np.einsum('ij,ij->i', q * w, q) - 2 * q[:, 2]
        D = B * B - 4 * A * C
        with np.errstate(all='ignore'):
            sq = np.sqrt(D)
            t = -(B + np.where(B >= 0, 1.0, -1.0) * sq) / 2
            r1 = np.where(A != 0, t / np.where(A != 0, A, 1), np.nan)
            r2 = C / t
            # degenerate: B = 0 and D = 0 -> t = 0
            r2 = np.where(t == 0, np.where(A != 0, 0.0 * t, np.nan), r2)
        roots = np.stack([r1, r2], axis=1) + s_c[:, None]
        roots = np.where((D >= 0)[:, None], roots, np.nan)
        # sheet through the vertex: 1 - c (1+k) z >= 0  (z in the parent frame == local z)
        with np.errstate(invalid='ignore'):
            z = p[:, 2:3] + roots * d[:, 2:3]
            ok = 1 - c * (1 + k) * z >= -1e-9
        roots = np.where(ok, roots, np.nan)
        # double root: keep one
        with np.errstate(invalid='ignore'):
            same = np.abs(roots[:, 0] - roots[:, 1]) <= 1e-12 * (1 + np.abs(roots[:, 0]))
        roots[same, 1] = np.nan
        return roots, D

    def roots(self, p, d):
        roots, D = self.base_roots(p, d)
        if not self.isq:
            return roots, D
        out = roots.copy()
        for j in range(2):
            s = roots[:, j].copy()
            live = np.isfinite(s)
            if not live.any():
                continue
            idx = np.nonzero(live)[0]
            sb = s[idx]
            dj = d[idx]
            pj = p[idx] + sb[:, None] * dj          # re-origin at the base-conic intersection: distant origins stay well conditioned
            sj = np.zeros_like(sb)
            F = np.full(sj.shape, np.nan)
            for _ in range(12):
                q = pj + sj[:, None] * dj
                with np.errstate(all='ignore'):
                    F = q[:, 2] - self.sag(q[:, 0], q[:, 1])
                    fx, fy = richardson_grad(self.sag, q[:, 0], q[:, 1])
                    Fp = dj[:, 2] - fx * dj[:, 0] - fy * dj[:, 1]
                    sj = sj - F / Fp
            q = pj + sj[:, None] * dj
            with np.errstate(all='ignore'):
                F = q[:, 2] - self.sag(q[:, 0], q[:, 1])
            sj = np.where(np.abs(F) <= 1e-12, sb + sj, np.nan)
            out[idx, j] = sj
        return out, D


# ---------------------------------------------------------------------------------------------
# validated access to implementation output

def as_array(R, x, shape, sig, what):
    if x is FAILED:
        return None
    try:
        a = np.asarray(x, dtype=float)
    except Exception as e:   # noqa
        R.violation(sig, f'{what}: not a numeric array ({type(e).__name__}: {e})')
        return None
    if a.shape != tuple(shape):
        R.violation(sig, f'{what}: shape {a.shape} != expected {tuple(shape)}')
        return None
    return a


def idx_class(n0, n1):
    return 'lt' if n0 < n1 else ('gt' if n0 > n1 else 'eq')


STATS = {}     # development aid: largest error / tolerance ratio seen per clause (read by nobody at run time)


def worst(err, ok_mask, tol):
    """(passes, index of the worst offender) of err <= tol over ok_mask; non-finite counts as failing."""
    e = np.where(np.isfinite(err), err, np.inf)
    e = np.where(ok_mask, e, 0.0)
    if e.size == 0:
        return True, -1
    i = int(np.argmax(e))
    return bool(e[i] <= tol), i


def stat(name, err, mask, tol=1.0):
    e = np.where(mask & np.isfinite(err), err, 0.0)
    if e.size:
        STATS[name] = max(STATS.get(name, 0.0), float(e.max()) / tol)


# ---------------------------------------------------------------------------------------------
# the hop oracle

def judge_hop(R, g, n0, Pin, Sin, Pout, Sout, live, hop, tally):
    """Judge one surface interaction for the rays in ``live``; returns the mask of rays that stay valid.

    Pin, Sin   : validated incoming rays (global), (N,3)
    Pout, Sout : the implementation's outputs after the surface (global), (N,3), validated shape only
    """
    st = g.st
    N = Pin.shape[0]
    n1 = g.nprime
    refr = g.typ == 'refr'
    p, d = g.to_local(Pin, Sin)
    with np.errstate(all='ignore'):
        roots, D = g.roots(p, d)
    hit = np.isfinite(roots).any(axis=1)
    # scope of the iteration: crossing of the local z = 0 plane must lie in the domain of the sag
    with np.errstate(all='ignore'):
        s0 = -p[:, 2] / d[:, 2]
        p1 = p + s0[:, None] * d
        dom = np.isfinite(g.sag(p1[:, 0], p1[:, 1])) & np.isfinite(s0) & (np.abs(d[:, 2]) >= 1e-6)
    tally['miss'] += int((live & ~hit).sum())
    tally['start-outside'] += int((live & hit & ~dom).sum())
    j = live & hit & dom
    # grazing incidence (|cos i| < 0.02, i > 88.85 deg) at the candidate intersection nearest the z=0 plane crossing (the one
    # the iteration is aimed at): a near-double root, its position is ill-conditioned (error ~ ulp(z) / cos i) -- outside
    # the scope, counted
    with np.errstate(all='ignore'):
        sn = np.where(np.isfinite(roots), roots, np.inf)
        sn = np.take_along_axis(sn, np.argmin(np.abs(sn - s0[:, None]), axis=1)[:, None], axis=1)[:, 0]
        qq = p + np.where(np.isfinite(sn), sn, 0.0)[:, None] * d
        cg = np.abs(np.einsum('ij,ij->i', d, g.normal(qq[:, 0], qq[:, 1])))
        graz = j & ~(cg >= 0.02)
    tally['grazing'] += int((j & graz).sum())
    j = j & ~graz
    if g.isq:
        # documented singularity of surface_normal_from_cylindrical_derivatives at r = 0 (user-side FFp)
        with np.errstate(invalid='ignore'):
            q0 = p[:, None, :] + np.where(np.isfinite(roots), roots, 0)[:, :, None] * d[:, None, :]
            at0 = ((np.hypot(q0[..., 0], q0[..., 1]) < 1e-9) & np.isfinite(roots)).any(axis=1) | (np.hypot(p1[:, 0], p1[:, 1]) < 1e-9)
        tally['q2d-origin-excluded'] += int((j & at0).sum())
        j = j & ~at0
    if not j.any():
        return j
    ctx = f'hop {hop} {st} typ={g.typ} tilt={g.tilt}'
    q = (Pout - g.Pv) @ g.Rm.T
    so = Sout @ g.Rm.T

    def ray(i):
        return (f'ray P={Pin[i].tolist()} S={Sin[i].tolist()} -> P\'={Pout[i].tolist()} S\'={Sout[i].tolist()} '
                f'(local hit ref s={roots[i].tolist()}) [{ctx}]')

    # --- point ----------------------------------------------------------------------------------
    pfin = np.isfinite(q).all(axis=1)
    bad = j & ~pfin
    if bad.any():
        with np.errstate(invalid='ignore'):
            rr = p[:, None, :] + np.where(np.isfinite(roots), roots, 0)[:, :, None] * d[:, None, :]
            axis = ((np.hypot(rr[..., 0], rr[..., 1]) < 1e-12) & np.isfinite(roots)).any(axis=1) | (np.hypot(p1[:, 0], p1[:, 1]) < 1e-12)
        # Newton stall: one ulp of z divided by a grazing S.r (r = un-normalised gradient) is not below the
        # iteration's absolute tolerance of 100 eps, so a ray converged to round-off can never pass the test
        with np.errstate(all='ignore'):
            fx, fy = richardson_grad(g.sag, rr[..., 0].ravel(), rr[..., 1].ravel()) if g.isq else \
                conic_grad(g.c, g.k, g.dx, g.dy, rr[..., 0].ravel(), rr[..., 1].ravel())
            Fp = d[:, None, 2] - fx.reshape(N, 2) * d[:, None, 0] - fy.reshape(N, 2) * d[:, None, 1]
            amp = np.spacing(np.abs(rr[..., 2])) / np.abs(Fp)
            stall = (np.where(np.isfinite(roots), amp, 0.0) >= 100 * EPS / 16).any(axis=1) & ~axis
        for lab, m in (('axis:nan', bad & axis), ('newton:stall', bad & stall), ('nan', bad & ~axis & ~stall)):
            if m.any():
                i = int(np.nonzero(m)[0][0])
                R.expect(False, f'{lab}:{st}', f'{int(m.sum())} ray(s) that geometrically hit the surface came back non-finite; ' + ray(i))
    j = j & pfin
    if not j.any():
        return j
    qs = np.where(j[:, None], q, 0.0)
    # the height above the surface is resolved at the scale of the local hit point, however far away the ray started;
    # the lateral position / ray parameter carry the rounding of the origin (ulp(|P0|))
    scale = 1.0 + np.abs(p).max(axis=1) + np.abs(qs).max(axis=1)
    tolp = TOL_P * np.maximum(1.0, scale / 100.0)
    tols = TOL_P * np.maximum(1.0, (1.0 + np.abs(qs).max(axis=1)) / 100.0)
    with np.errstate(all='ignore'):
        e_surf = np.abs(qs[:, 2] - g.sag(qs[:, 0], qs[:, 1])) / tols
        s_impl = np.einsum('ij,ij->i', qs - p, d)
        e_line = np.linalg.norm(qs - p - s_impl[:, None] * d, axis=1) / tolp
        dr = np.abs(roots - s_impl[:, None])
        dr = np.where(np.isfinite(dr), dr, np.inf)
        which = np.argmin(dr, axis=1)
        e_root = dr[np.arange(N), which] / np.maximum(1.0, scale / 100.0)
        s_ref = roots[np.arange(N), which]
    good = j.copy()
    for err, tol, sig, what in ((e_surf, 1.0, f'onsurf:{st}', 'traced point is not on the surface: |z - sag(x,y)|/tol'),
                                (e_line, 1.0, f'online:{st}', 'traced point is not on the incoming ray: distance/tol'),
                                (e_root, TOL_ROOT, f'root:{st}', 'ray parameter differs from every reference intersection: |s - s_ref|')):
        ok, i = worst(err, j, tol)
        stat(sig.split(':')[0] + (':' + g.st if g.isq else ''), err, j, tol)
        R.expect(ok, sig, f'{what} = {float(np.where(np.isfinite(err), err, np.inf)[i]):.3e}; ' + ray(i))
        good &= np.where(np.isfinite(err), err, np.inf) <= tol
    R.nontrivial(bool((j & (np.hypot(qs[:, 0], qs[:, 1]) > 1e-3)).any()))
    tally['hit'] += int(j.sum())
    with np.errstate(invalid='ignore'):
        path = np.where(j & np.isfinite(s_ref), s_ref - s0, 0.0)      # Newton's unknown: path from the local z=0 plane
    tally['path<-128'] += int((path < -128).sum())
    tally['path>+128'] += int((path > 128).sum())
    # --- direction ------------------------------------------------------------------------------
    # the reference normal is taken at the traced point (just validated to lie on the surface and on the ray); the reference
    # intersection itself carries ulp(|P0|) of lateral rounding for distant origins
    with np.errstate(all='ignore'):
        nh = g.normal(qs[:, 0], qs[:, 1])
    nh = np.where(np.isfinite(nh), nh, 0.0)
    cosI = np.einsum('ij,ij->i', d, nh)
    told = TOL_DQ if g.isq else TOL_D
    if refr:
        mu = n0 / n1
        rad = 1 - mu * mu * (1 - cosI * cosI)
        tir = rad < 1e-6          # at / beyond the critical angle (the boundary itself is ill-conditioned)
        tally['tir'] += int((j & tir).sum())
        j2 = j & ~tir
        sgn = np.where(cosI >= 0, 1.0, -1.0)
        want = mu * d + ((sgn * np.sqrt(np.where(tir, 0.0, rad)) - mu * cosI))[:, None] * nh
        back = cosI < 0
        tally['back-refraction'] += int((j2 & back).sum())
        told = told / np.sqrt(np.maximum(rad, 1e-6))       # conditioning of S' near the critical angle
    else:
        j2 = j
        want = d - 2 * cosI[:, None] * nh if g.typ == 'refl' else d      # 'eval' surfaces do not bend rays
        back = np.zeros(N, bool)
        told = told * np.ones(N)
    good &= j2
    if not j2.any():
        return good
    kind = 'refract' if refr else ('reflect' if g.typ == 'refl' else 'eval')
    sfin = np.isfinite(so).all(axis=1)
    m = j2 & ~sfin
    if m.any():
        i = int(np.nonzero(m)[0][0])
        R.expect(False, f'{kind}:nan:{st}', f'{int(m.sum())} outgoing direction(s) non-finite for a ray that hits below the critical angle; ' + ray(i))
    good &= sfin
    j2 = j2 & sfin
    if not j2.any():
        return good
    sos = np.where(j2[:, None], so, 0.0)
    e_unit = np.abs(np.linalg.norm(sos, axis=1) - 1)
    ok, i = worst(e_unit, j2, TOL_UNIT)
    stat('unit', e_unit, j2, TOL_UNIT)
    R.expect(ok, f'{kind}:unit:{st}', f'outgoing direction cosines are not of unit length: | |S\'| - 1 | = {e_unit[i]:.3e}; ' + ray(i))
    unit_ok = e_unit <= TOL_UNIT
    good &= unit_ok
    j3 = j2 & unit_ok          # the remaining clauses presuppose a direction
    if not j3.any():
        return good
    e_vec = np.abs(sos - want).max(axis=1) / told
    if not refr:
        ok, i = worst(e_vec, j3, 1.0)
        stat('reflect' + (':' + g.st if g.isq else ''), e_vec, j3)
        R.expect(ok, f'reflect:law:{st}' if g.typ == 'refl' else f'eval:direction:{st}',
                 ('S\' != S - 2 (S.n) n with the true unit normal' if g.typ == 'refl' else 'an eval surface changed the direction') + f': max|err|/tol = {e_vec[i]:.3e} '
                                          f'(want local {want[i].tolist()} got local {sos[i].tolist()}); ' + ray(i))
        good &= e_vec <= 1.0
        return good
    ic = idx_class(n0, n1)
    for lab, m in (('fwd', j3 & ~back), ('back', j3 & back)):
        if not m.any():
            continue
        sin_i = np.linalg.norm(np.cross(d, nh), axis=1)
        sin_o = np.linalg.norm(np.cross(sos, nh), axis=1)
        e_snell = np.abs(n0 * sin_i - n1 * sin_o) / (told * max(n0, n1))
        e_copl = np.abs(np.einsum('ij,ij->i', sos, np.cross(d, nh))) / told
        side = np.einsum('ij,ij->i', sos, nh) * cosI
        e_side = np.where(side > 0, 0.0, 2.0)
        for err, sig, what in ((e_snell, f'refract:snell:{st}:{ic}:{lab}', f'n sin i != n\' sin i\' (n={n0}, n\'={n1}): |err|/tol'),
                               (e_copl, f'refract:coplanar:{st}:{ic}:{lab}', 'S\' is not in the plane of incidence: |S\'.(S x n)|/tol'),
                               (e_side, f'refract:side:{lab}', 'the refracted ray does not continue through the surface: sign(S\'.n) != sign(S.n)'),
                               (e_vec, f'refract:vector:{st}:{ic}:{lab}', 'S\' != mu S + (sgn sqrt(1 - mu^2 (1 - cos^2 I)) - mu cos I) n: max|err|/tol')):
            ok, i = worst(err, m, 1.0)
            stat(':'.join(sig.split(':')[:2]) + (':' + g.st if g.isq else ''), err, m)
            extra = f' (want local {want[i].tolist()} got local {sos[i].tolist()})' if err is e_vec else ''
            R.expect(ok, sig, f'{what} = {err[i]:.3e}{extra}; ' + ray(i))
            good &= ~m | (err <= 1.0)
    return good


def finite_unit(S):
    with np.errstate(invalid='ignore'):
        return np.isfinite(S).all(axis=1) & (np.abs(np.linalg.norm(S, axis=1) - 1) <= TOL_UNIT)


def check_surface_object(R, g, surf):
    """The pose stored on the Surface is the pose that was asked for."""
    if surf is FAILED:
        return False
    P = as_array(R, getattr(surf, 'P', None), (3,), 'Surface:P', 'Surface.P')
    ok = P is not None and R.expect(np.array_equal(P, g.Pv), 'Surface:P', f'Surface.P = {P} for P={g.sd["P"]}')
    Rm = getattr(surf, 'R', None)
    if g.sd.get('R') is None:
        ok = R.expect(Rm is None, 'Surface:R', 'Surface.R is not None for R=None') and ok
    elif Rm is None and np.array_equal(g.Rm, np.eye(3)):
        pass                                   # an exactly untilted surface may be stored as R=None: same rigid motion
    else:
        Rm = as_array(R, Rm, (3, 3), 'Surface:R', 'Surface.R')
        # every entry to its own rounding bound (8 eps x sum of |terms|): a tilt of 1e-14 rad is an entry of 1e-14, not "0 within 1e-9"
        ok = Rm is not None and R.expect_close(Rm, g.Rm, 8 * EPS * ref_rotmat(g.sd['R'], cond=True), 'Surface:R', f'Surface.R for R={g.sd["R"]}') and ok
    return bool(ok)


def trace_and_judge(R, geos, P0, S0, n_ambient, tally, form='batch', prebuilt=None, hygiene=True):
    """raytrace the prescription and judge every hop.  P0, S0: (N,3).  prebuilt: Surfaces constructed by the caller."""
    surfs = []
    for i, g in enumerate(geos):
        s = g.build(R) if prebuilt is None else prebuilt[i]
        if not check_surface_object(R, g, s):
            return None
        surfs.append(s)
    N = P0.shape[0]
    J = len(geos)
    if form == 'batch':
        out = R.call(sm.raytrace, surfs, P0.copy(), S0.copy(), WVL, n_ambient=n_ambient, hygiene=hygiene,
                     sig='raytrace:exception:' + '+'.join(sorted({g.typ for g in geos})))
        if out is FAILED:
            return None
        if not (isinstance(out, tuple) and len(out) == 2):
            R.violation('raytrace:return', f'raytrace returned {type(out).__name__}, not (P_hist, S_hist)')
            return None
        Ph = as_array(R, out[0], (J + 1, N, 3), 'raytrace:shape', 'P_hist')
        Sh = as_array(R, out[1], (J + 1, N, 3), 'raytrace:shape', 'S_hist')
        if Ph is None or Sh is None:
            return None
    else:
        # one ray at a time, 1-D P and S ("When P and S are single dimensional, a single ray is traced")
        Ph = np.empty((J + 1, N, 3))
        Sh = np.empty((J + 1, N, 3))
        for i in range(N):
            out = R.call(sm.raytrace, surfs, P0[i].copy(), S0[i].copy(), WVL, n_ambient=n_ambient,
                         sig='raytrace:1d-ray:exception:' + '+'.join(sorted({g.typ for g in geos})))
            if out is FAILED:
                return None
            if not (isinstance(out, tuple) and len(out) == 2):
                R.violation('raytrace:return', f'raytrace returned {type(out).__name__}, not (P_hist, S_hist)')
                return None
            a = as_array(R, out[0], (J + 1, 3), 'raytrace:1d-ray:shape', 'P_hist (single ray)')
            b = as_array(R, out[1], (J + 1, 3), 'raytrace:1d-ray:shape', 'S_hist (single ray)')
            if a is None or b is None:
                return None
            Ph[:, i], Sh[:, i] = a, b
    R.expect_equal(Ph[0], P0, 'raytrace:hist0', 'P_hist[0] is not the input')
    R.expect_equal(Sh[0], S0, 'raytrace:hist0', 'S_hist[0] is not the input')
    live = np.ones(N, bool)
    n = float(n_ambient)
    Pin, Sin = P0, S0
    for jdx, g in enumerate(geos):
        live = judge_hop(R, g, n, np.where(live[:, None], Pin, 0.0), np.where(live[:, None], Sin, [0.0, 0.0, 1.0]),
                         Ph[jdx + 1], Sh[jdx + 1], live, jdx + 1, tally)
        if g.typ == 'refr':
            n = g.nprime
        Pin, Sin = Ph[jdx + 1], Sh[jdx + 1]
        live = live & np.isfinite(Pin).all(axis=1) & finite_unit(Sin)
        if not live.any():
            break
    R.tick(sum(g.ticks for g in geos))
    return Ph, Sh


def bucket(n):
    return '0' if n == 0 else ('1-9' if n < 10 else ('10-49' if n < 50 else '50+'))


def report_tally(R, tally):
    for k, v in sorted(tally.items()):
        if k == 'hit':
            R.outcome(f'hit:{bucket(v)}')
        elif v:
            R.outcome(f'{k}:{bucket(v)}')


def new_tally():
    return {'hit': 0, 'miss': 0, 'tir': 0, 'start-outside': 0, 'q2d-origin-excluded': 0, 'back-refraction': 0,
            'path<-128': 0, 'path>+128': 0, 'grazing': 0}


# ---------------------------------------------------------------------------------------------
# alphabets

def directions(tier):
    d = [[0.0, 0.0], [0.05, -0.03], [-0.1, 0.08], [0.5 * math.cos(0.7), 0.5 * math.sin(0.7)]]   # axial, 2 skew, steep 30 deg
    if tier == 'thorough':
        d += [[0.2, 0.0], [-0.3, -0.4]]
    return d


def bundle(tier, dirs=None, z0=0.0):
    lat = [-10.0, -5.0, 0.0, 5.0, 10.0] if tier == 'quick' else [-10.0, -7.5, -5.0, -2.5, 0.0, 2.5, 5.0, 7.5, 10.0]
    P, S = [], []
    for kl in (dirs if dirs is not None else directions(tier)):
        m = math.sqrt(1 - kl[0] ** 2 - kl[1] ** 2)
        for y in lat:
            for x in lat:
                P.append([x, y, z0])
                S.append([kl[0], kl[1], m])
    return np.array(P), np.array(S)


def shapes(tier):
    out = [{'kind': 'plane'}]
    cs = [1 / 50, -1 / 50]
    out += [{'kind': 'sphere', 'c': c} for c in cs]
    ks = [0.0, -1.0, -0.6, 0.5, -2.0]
    out += [{'kind': 'conic', 'c': c, 'k': k} for k in ks for c in cs]
    offs = [[20.0, 0.0], [0.0, 20.0], [-5.0, 0.0], [0.0, 5.0]]
    oks = [-1.0, -0.6, 0.5] if tier == 'quick' else ks
    out += [{'kind': 'oac', 'c': c, 'k': k, 'dx': o[0], 'dy': o[1]} for o in offs for k in oks for c in cs]
    out += q_shapes(tier, ks=(0.0,))
    return out


def q_shapes(tier, ks):
    out = []
    for k in ks:
        out += [{'kind': 'q2d', 'q': 'bfs', 'c': 1 / 50, 'k': k, 'dx': 0.0, 'dy': 0.0, 'nr': 45.0},
                {'kind': 'q2d', 'q': '2d', 'c': 1 / 50, 'k': k, 'dx': 0.0, 'dy': 0.0, 'nr': 45.0},
                {'kind': 'q2d', 'q': '2d', 'c': -1 / 50, 'k': k, 'dx': 20.0, 'dy': 0.0, 'nr': 60.0},
                {'kind': 'q2d', 'q': '2d', 'c': 1 / 50, 'k': k, 'dx': 0.0, 'dy': -5.0, 'nr': 45.0}]
    return out


def poses(tier):
    Ps = [[0.0, 0.0, 10.0], [1.5, -2.0, 12.0], 25.0]
    Rs = [None, [0, 5, 3], [10, 0, 0]]
    R3 = [25, 9, 12]                                        # all three angles non-zero and distinct
    if tier == 'thorough':
        Rs += [R3, [-20, -8, 6], [-7, 13, 4], [3, -20, 31]]
        return [{'P': P, 'R': Rz} for P in Ps for Rz in Rs]
    return [{'P': P, 'R': Rz} for P in Ps for Rz in Rs] + [{'P': Ps[1], 'R': R3}]


TYPES = [{'typ': 'refl', 'n': 1.0, 'n0': 1.0},
         {'typ': 'refr', 'n': 1.5, 'n0': 1.0},
         {'typ': 'refr', 'n': 1.0, 'n0': 1.5},
         {'typ': 'refr', 'n': 1.0, 'n0': 1.0}]


def sdesc(shape, pose, t):
    return {'shape': shape, 'P': pose['P'], 'R': pose['R'], 'typ': t['typ'], 'n': t['n']}


# ---------------------------------------------------------------------------------------------
# units

def run_refmodel(case, seed, R):
    """Second formulation of the reference normal + the library's sag against the closed form."""
    g = Geo({'shape': case['shape'], 'P': 0.0, 'R': None, 'typ': 'refl'}, seed)
    st = g.st
    lat = np.linspace(-12, 12, 9)
    x, y = [a.ravel() for a in np.meshgrid(lat + 0.0, lat + 0.0)]
    z = g.sag(x, y)
    fin = np.isfinite(z)
    x, y, z = x[fin], y[fin], z[fin]
    if not g.isq:
        # self-test of the reference: analytic normal vs Richardson differences of the closed-form sag
        n1 = g.normal(x, y)
        n2 = unit_normal(*richardson_grad(g.sag, x, y))
        ok = np.isfinite(n2).all(axis=1)
        R.expect_close(n1[ok], n2[ok], 1e-10, f'refmodel:normal:{st}', 'reference: analytic normal vs Richardson differences of the sag')
        # and the implicit quadric
        resid = g.c * ((x + g.dx) ** 2 + (y + g.dy) ** 2) + g.c * (1 + g.k) * z * z - 2 * z
        R.expect_close(resid, np.zeros_like(resid), 1e-12, f'refmodel:quadric:{st}', 'reference: sag satisfies the quadric')
    surf = g.build(R)
    if surf is FAILED:
        return
    out = R.call(surf.FFp, x.copy(), y.copy())
    if out is FAILED:
        return
    if not (isinstance(out, tuple) and len(out) == 3):
        R.violation(f'sag:{st}', f'FFp returned {type(out).__name__}')
        return
    zz = as_array(R, out[0], x.shape, f'sag:{st}', 'FFp sag')
    if zz is not None:
        R.expect_close(zz, z, 64 * EPS * (1 + np.abs(z)), f'sag:{st}', 'library sag vs closed form' if not g.isq else 'Surface sag vs Q2d_and_der sag')
    out = R.call(surf.sag_normal, x.copy(), y.copy())
    if out is not FAILED and isinstance(out, tuple) and len(out) == 2:
        der = as_array(R, out[1], (x.size, 3), f'sag_normal:{st}', 'sag_normal der')
        if der is not None:
            # direction of the library's normal (its length is the consumers' business), away from the r = 0 singularity
            off = np.hypot(x, y) > 1e-9
            nrm = np.linalg.norm(der, axis=1)
            with np.errstate(all='ignore'):
                nh = der / nrm[:, None]
            R.expect_close(nh[off], g.normal(x, y)[off], (TOL_DQ if g.isq else TOL_D), f'normal:{st}',
                           'direction of Surface.sag_normal vs reference unit normal')
    R.tick(g.ticks)
    R.nontrivial(st != 'plane')
    R.outcome('refmodel')


def run_frames(case, seed, R):
    Pv = ref_Pvec(case['P'])
    zyx = case['R']
    form = case['form']
    rad = bool(case.get('radians', False))
    sig = 'frames:' + ('R' if zyx is not None else 'noR')
    Rm = None
    if zyx is not None:
        nzc = 'angles' + str(sum(1 for v in zyx if v != 0)) + (':radians' if rad else '')
        kw = {'radians': True} if rad else {}
        Rm = as_array(R, R.call(make_rotation_matrix, zyx, **kw), (3, 3), 'make_rotation_matrix', 'rotation matrix')
        if Rm is None:
            return
        # orthonormality, handedness AND the values, against the independent composition Rx @ Ry @ Rz written here
        R.expect_close(Rm.T @ Rm, np.eye(3), 8 * EPS, f'make_rotation_matrix:orthonormal:{nzc}', f'R^T R != I for {zyx}')
        R.expect_close(np.linalg.det(Rm), 1.0, 8 * EPS, f'make_rotation_matrix:det:{nzc}', f'det R != 1 for {zyx}')
        R.expect_close(Rm, ref_rotmat(zyx, rad), 8 * EPS, f'make_rotation_matrix:values:{nzc}', f'R != Rx Ry Rz for {zyx} radians={rad}')
        for alt, lab in ((tuple(zyx), 'tuple'), (np.array(zyx, dtype=float), 'ndarray')):
            R.expect_equal(R.call(make_rotation_matrix, alt, **kw), Rm, 'make_rotation_matrix:argform', f'angles given as {lab} {zyx}')
        nz = [i for i, v in enumerate(zyx) if v != 0]
        if len(nz) == 1:
            ax = np.zeros(3)
            ax[2 - nz[0]] = 1          # (z, y, x) order
            ang = zyx[nz[0]] if rad else math.radians(zyx[nz[0]])
            R.expect_close(Rm @ ax, ax, 8 * EPS, 'make_rotation_matrix:axis', f'single-axis rotation {zyx} moves its axis')
            R.expect_close(np.trace(Rm), 1 + 2 * math.cos(ang), 8 * EPS, 'make_rotation_matrix:angle', f'rotation angle of {zyx}')
    Rref = ref_rotmat(zyx, rad)
    X, S = bundle('quick', dirs=directions('quick'))
    X = X[::11] + 3.0 * dense((X[::11].shape[0], 3), seed, 5, complex_=False)
    S = S[::11]                # directions 0,0,0,1,1,2,2,3,3,3
    N = X.shape[0]
    scale = 1 + np.abs(X).max() + np.abs(Pv).max()
    tolx = 16 * EPS * scale

    def call(f, XX, SS, RR):
        if form == 'batch':
            out = R.call(f, XX.copy(), Pv.copy(), SS.copy(), RR)
            if out is FAILED or not (isinstance(out, tuple) and len(out) == 2):
                if out is not FAILED:
                    R.violation(sig + ':return', f'{f.__name__} returned {type(out).__name__}')
                return None
            a = as_array(R, out[0], (N, 3), sig + ':shape', f'{f.__name__} XYZ')
            b = as_array(R, out[1], (N, 3), sig + ':shape', f'{f.__name__} S')
            return None if a is None or b is None else (a, b)
        A, B = np.empty((N, 3)), np.empty((N, 3))
        for i in range(N):
            out = R.call(f, XX[i].copy(), Pv.copy(), SS[i].copy(), RR)
            if out is FAILED or not (isinstance(out, tuple) and len(out) == 2):
                if out is not FAILED:
                    R.violation(sig + ':return', f'{f.__name__} returned {type(out).__name__}')
                return None
            try:
                a = np.asarray(out[0], dtype=float).reshape(-1)
                b = np.asarray(out[1], dtype=float).reshape(-1)
            except Exception as e:   # noqa
                R.violation(sig + ':shape', f'{f.__name__} single ray: {e}')
                return None
            if a.shape != (3,) or b.shape != (3,):
                R.violation(sig + ':shape', f'{f.__name__} single ray: sizes {a.shape}, {b.shape}')
                return None
            A[i], B[i] = a, b
        return A, B

    RT = None if Rm is None else Rm.T.copy()
    loc = call(sm.transform_to_local_coords, X, S, Rm)
    if loc is not None:
        XL, SL = loc
        # rigid motion: distances, dot products, mixed products, handedness
        def gram(A):
            return A @ A.T
        dX = X[:, None, :] - X[None, :, :]
        dL = XL[:, None, :] - XL[None, :, :]
        R.expect_close(np.linalg.norm(dL, axis=2), np.linalg.norm(dX, axis=2), 4 * tolx, sig + ':to_local:distance', 'pairwise distances')
        R.expect_close(gram(SL), gram(S), 16 * EPS, sig + ':to_local:dot', 'pairwise dot products of direction cosines')
        R.expect_close(np.einsum('ijk,lk->ijl', dL, SL), np.einsum('ijk,lk->ijl', dX, S), 8 * tolx, sig + ':to_local:mixed', '(Xi - Xj).Sk')
        R.expect_close(np.linalg.det(SL[[0, 3, 5]]), np.linalg.det(S[[0, 3, 5]]), 64 * EPS, sig + ':to_local:handedness', 'triple product of three directions')
        R.expect_close(XL, (X - Pv) @ Rref.T, tolx, sig + ':to_local:formula', 'local = R (X - P)')
        R.expect_close(SL, S @ Rref.T, 16 * EPS, sig + ':to_local:formula', 'S_local = R S')
        back = call(sm.transform_to_global_coords, XL, SL, RT)
        if back is not None:
            R.expect_close(back[0], X, 2 * tolx, sig + ':inverse', 'to_global(to_local(X)) != X')
            R.expect_close(back[1], S, 32 * EPS, sig + ':inverse', 'to_global(to_local(S)) != S')
    glo = call(sm.transform_to_global_coords, X, S, RT)
    if glo is not None:
        XG, SG = glo
        dX = X[:, None, :] - X[None, :, :]
        dG = XG[:, None, :] - XG[None, :, :]
        R.expect_close(np.linalg.norm(dG, axis=2), np.linalg.norm(dX, axis=2), 4 * tolx, sig + ':to_global:distance', 'pairwise distances')
        R.expect_close(SG @ SG.T, S @ S.T, 16 * EPS, sig + ':to_global:dot', 'pairwise dot products')
        R.expect_close(XG, X @ Rref + Pv, tolx, sig + ':to_global:formula', 'global = R^T x + P')
        fwd = call(sm.transform_to_local_coords, XG, SG, Rm)
        if fwd is not None:
            R.expect_close(fwd[0], X, 2 * tolx, sig + ':inverse', 'to_local(to_global(x)) != x')
            R.expect_close(fwd[1], S, 32 * EPS, sig + ':inverse', 'to_local(to_global(S)) != S')
    # the origin of the frame
    o = call(sm.transform_to_local_coords, np.tile(Pv, (N, 1)), S, Rm)
    if o is not None:
        R.expect_equal(o[0], np.zeros((N, 3)), sig + ':origin', 'P does not map to the local origin')
    R.nontrivial(zyx is not None or np.abs(Pv).max() > 0)
    R.outcome(form)


def run_single(case, seed, R):
    g = Geo(case['surf'], seed)
    P0, S0 = bundle(case['tier'])
    tally = new_tally()
    trace_and_judge(R, [g], P0, S0, case['n0'], tally, form='batch')
    report_tally(R, tally)


def run_single1d(case, seed, R):
    g = Geo(case['surf'], seed)
    P0, S0 = bundle('quick')
    sel = [0, 7, 12, 31, 62, 93]         # corner, generic, exact axis, skew, skew through centre, steep
    tally = new_tally()
    trace_and_judge(R, [g], P0[sel], S0[sel], case['n0'], tally, form='single')
    report_tally(R, tally)


def run_axis(case, seed, R):
    """The ray along the local axis through the local origin, and its neighbours."""
    g = Geo(case['surf'], seed)
    st = g.st
    delta = 1e-4
    ez = g.Rm.T @ np.array([0.0, 0.0, 1.0])
    ex = g.Rm.T @ np.array([1.0, 0.0, 0.0])
    ey = g.Rm.T @ np.array([0.0, 1.0, 0.0])
    if g.tilt:
        o = g.Pv - 8.0 * ez
    else:
        o = np.array([g.Pv[0], g.Pv[1], 0.0])       # exact: local x = y = 0 for every Newton iterate
    P0 = np.array([o, o + delta * ex, o - delta * ex, o + delta * ey, o - delta * ey])
    S0 = np.tile(ez, (5, 1))
    if case['skew']:
        # a skew ray aimed exactly at the local origin (vertex of the section)
        sd = np.array([0.05, -0.03, 0.0])
        sd[2] = math.sqrt(1 - sd[0] ** 2 - sd[1] ** 2)
        Sg = g.Rm.T @ sd
        o = g.Pv - 8.0 * Sg
        P0 = np.array([o, o + delta * ex, o - delta * ex, o + delta * ey, o - delta * ey])
        S0 = np.tile(Sg, (5, 1))
    tally = new_tally()
    out = trace_and_judge(R, [g], P0, S0, case['n0'], tally, form='batch')
    if out is None:
        return
    if g.isq:
        R.outcome('q2d-origin-excluded')
        return
    Ph, Sh = out
    fin = np.isfinite(Ph[1]).all() and np.isfinite(Sh[1]).all()
    tir = tally['tir'] > 0
    if not tir:
        if not R.expect(fin, f'axis:nan:{st}', f'axial ray or its neighbours non-finite: P\'={Ph[1].tolist()} S\'={Sh[1].tolist()}'):
            return
        cmax = abs(g.c) * (1 + abs(g.k)) + 1e-3
        lim = 20 * delta * delta * cmax * 4 + 1e-12
        R.expect_close(Ph[1][0], Ph[1][1:].mean(axis=0), lim * 10, f'axis:limit:{st}', 'axial point vs mean of its four neighbours')
        R.expect_close(Sh[1][0], Sh[1][1:].mean(axis=0), lim, f'axis:limit:{st}', 'axial direction vs mean of its four neighbours')
        R.nontrivial()
    report_tally(R, tally)
    R.outcome('axis-exact' if not g.tilt and not case['skew'] else 'axis-aimed')


def pool(tier):
    """Five posed, typed surfaces: a tilted/decentred doublet-like group and two mirrors."""
    return [
        {'shape': {'kind': 'sphere', 'c': 1 / 50}, 'P': [0.0, 0.0, 10.0], 'R': None, 'typ': 'refr', 'n': 1.5},
        {'shape': {'kind': 'conic', 'c': -1 / 50, 'k': -0.6}, 'P': [0.0, 0.0, 14.0], 'R': [0, 5, 3], 'typ': 'refr', 'n': 1.0},
        {'shape': {'kind': 'plane'}, 'P': [1.5, -2.0, 20.0], 'R': [10, 0, 0], 'typ': 'refr', 'n': 1.5},
        {'shape': {'kind': 'conic', 'c': -1 / 80, 'k': -1.0}, 'P': 60.0, 'R': None, 'typ': 'refl', 'n': 1.0},
        {'shape': {'kind': 'oac', 'c': -1 / 100, 'k': -1.0, 'dx': 20.0, 'dy': 0.0}, 'P': [0.0, 0.0, 50.0], 'R': [25, 9, 12], 'typ': 'refl', 'n': 1.0},
    ]


def run_seq(case, seed, R):
    pl = pool(case['tier'])
    geos = [Geo(pl[i], seed) for i in case['seq']]
    P0, S0 = bundle(case['tier'])
    tally = new_tally()
    trace_and_judge(R, geos, P0, S0, case['n0'], tally, form=case['form'])
    report_tally(R, tally)
    R.outcome(f'len{len(geos)}')


def bundle_long(semi, zdir, z0, nl):
    """nl x nl lattice over [-semi, semi]^2 (nl odd: includes the axis) x the four directions, travelling in zdir * z."""
    lat = np.linspace(-semi, semi, nl)
    P, S = [], []
    for kl in directions('quick'):
        m = zdir * math.sqrt(1 - kl[0] ** 2 - kl[1] ** 2)
        for y in lat:
            for x in lat:
                P.append([float(x), float(y), z0])
                S.append([kl[0], kl[1], m])
    return np.array(P), np.array(S)


def long_pool():
    """Posed large surfaces for the two-surface long-path prescriptions."""
    return [
        {'shape': {'kind': 'conic', 'c': -1 / 2000, 'k': -1.0}, 'P': [0.0, 0.0, 900.0], 'R': None, 'typ': 'refl', 'n': 1.0},
        {'shape': {'kind': 'conic', 'c': 1 / 1000, 'k': 0.0}, 'P': [20.0, -30.0, 50.0], 'R': [0, 5, 3], 'typ': 'refr', 'n': 1.5},
        {'shape': {'kind': 'conic', 'c': -1 / 1000, 'k': -1.0}, 'P': [0.0, 0.0, 50.0], 'R': None, 'typ': 'refr', 'n': 1.5},
        {'shape': {'kind': 'conic', 'c': 1 / 2000, 'k': 0.0}, 'P': [0.0, 0.0, -700.0], 'R': [10, 0, 0], 'typ': 'refl', 'n': 1.0},
    ]


def run_long(case, seed, R):
    if 'seq' in case:
        pl = long_pool()
        geos = [Geo(pl[i], seed) for i in case['seq']]
    else:
        geos = [Geo(case['surf'], seed)]
    P0, S0 = bundle_long(case['semi'], case['zdir'], case['z0'], case['nl'])
    tally = new_tally()
    trace_and_judge(R, geos, P0, S0, case['n0'], tally, form='batch')
    report_tally(R, tally)
    R.outcome('+z' if case['zdir'] > 0 else '-z')


def long_cases(tier):
    nl = 21 if tier == 'quick' else 31
    out = []
    for c in (1 / 1000, -1 / 1000, 1 / 2000, -1 / 2000):
        semi = 0.7 / abs(c)
        for k in (0.0, -1.0):
            for pose in ({'P': [0.0, 0.0, 50.0], 'R': None}, {'P': [20.0, -30.0, 50.0], 'R': [0, 5, 3]}):
                for t in TYPES[:3]:
                    for zdir, z0 in ((1, -300.0), (-1, 400.0)):
                        out.append({'surf': sdesc({'kind': 'conic', 'c': c, 'k': k}, pose, t), 'n0': t['n0'],
                                    'semi': semi, 'zdir': zdir, 'z0': z0, 'nl': nl})
    # two-surface prescriptions: mirror -> refractor (rays meet the refractor travelling -z) and refractor -> mirror
    for seq in ([0, 1], [0, 2], [1, 0], [2, 3], [3, 1], [3, 2]):
        for zdir, z0 in ((1, -300.0), (-1, 400.0)):
            out.append({'seq': seq, 'n0': 1.0, 'semi': 700.0, 'zdir': zdir, 'z0': z0, 'nl': nl})
    return out


# -- tilt magnitude alphabet ----------------------------------------------------------------------------------

TILTS_DEG = [0.0, 1e-12, 1e-9, 4e-7, 1e-6, 1e-3, 1.0, 10.0, 90.0]
TILT_AXES = {'z': [1.0, 0.0, 0.0], 'y': [0.0, 1.0, 0.0], 'x': [0.0, 0.0, 1.0], 'yx': [0.0, 1.0, -0.7], 'zyx': [1.3, -1.0, 0.6]}


def run_tilt(case, seed, R):
    """A tilt must have an effect proportional to it, however small: besides the hop oracle (absolute tolerances) the rays
    travelling along +z that meet the vertex (every such ray for a plane) are judged RELATIVE to the deviation itself."""
    th = case['theta']
    ang = [m * th for m in TILT_AXES[case['axes']]]
    sd = {'shape': case['shape'], 'P': 0.0, 'R': ang, 'typ': case['typ'], 'n': case['n']}
    g = Geo(sd, seed)
    R_arg = np.array(g.Rm) if case['form'] == 'matrix' else (tuple(ang) if case['form'] == 'tuple' else None)
    if case['form'] == 'matrix':
        g.sd = dict(sd, R=np.array(g.Rm))              # the matrix itself is the request
    z0 = -2.0
    P0, S0 = bundle('quick', z0=z0)
    surf = g.build(R, R_arg=R_arg)
    if surf is FAILED:
        return
    tally = new_tally()
    trace_and_judge(R, [g], P0, S0, case['n0'], tally, form='batch', prebuilt=[surf])
    report_tally(R, tally)
    # ---- scaled oracle (independent of what the Surface object claims its R to be) ----
    nrm = g.Rm[2, :]                                   # the local z axis in global coordinates; tilt enters only through it
    if abs(nrm[2]) < 0.1:
        R.outcome('edge-on')
        return
    ax = P0[:25]                                       # the axial direction of the bundle: d = +z, 5x5 lattice
    sel = np.ones(25, bool) if g.kind == 'plane' else (np.hypot(ax[:, 0], ax[:, 1]) == 0)
    Pa, Sa = ax[sel].copy(), S0[:25][sel].copy()
    out = R.call(sm.raytrace, [surf], Pa.copy(), Sa.copy(), WVL, n_ambient=case['n0'], sig='raytrace:exception:tilt')
    if out is FAILED or not (isinstance(out, tuple) and len(out) == 2):
        return
    Ph = as_array(R, out[0], (2, len(Pa), 3), 'raytrace:shape', 'P_hist')
    Sh = as_array(R, out[1], (2, len(Pa), 3), 'raytrace:shape', 'S_hist')
    if Ph is None or Sh is None:
        return
    tilt = float(np.hypot(nrm[0], nrm[1]))             # sine of the tilt of the surface normal
    cz = nrm[2]
    if g.typ == 'refl':
        wantS = np.array([0.0, 0.0, 1.0]) - 2 * cz * nrm
    else:
        mu = case['n0'] / g.nprime
        wantS = mu * np.array([0.0, 0.0, 1.0]) + (math.sqrt(1 - mu * mu * (1 - cz * cz)) - mu * cz) * nrm
    wantz = -(nrm[0] * Pa[:, 0] + nrm[1] * Pa[:, 1]) / cz        # the tilted tangent plane through the vertex, cancellation-free
    mag = case['mag']
    # rounding floors: proportional to the tilt, plus the resolution of the vertex position (ulp of the launch distance)
    floorS = 16 * EPS * tilt + 64 * EPS * abs(g.c) * (1 + abs(z0)) * (g.kind != 'plane')
    floorz = 32 * EPS * abs(z0)
    with np.errstate(all='ignore'):
        stat('tilt:deviation', np.nan_to_num(np.abs(Sh[1] - wantS) / (1e-9 * np.abs(wantS) + floorS + 1e-300), nan=0.0, posinf=np.inf).max(axis=1), np.ones(len(Pa), bool))
        stat('tilt:offset', np.nan_to_num(np.abs(Ph[1][:, 2] - wantz) / (1e-9 * np.abs(wantz) + floorz + 1e-300), nan=0.0, posinf=np.inf), np.ones(len(Pa), bool))
    R.expect_close(Sh[1], np.tile(wantS, (len(Pa), 1)), 1e-9 * np.abs(wantS) + floorS, f'tilt:deviation:{mag}',
                   f'outgoing direction of the +z ray at the vertex of a surface tilted by {ang} deg ({case["form"]}); the deviation is ~2 x tilt = {2 * tilt:.3e}')
    R.expect_close(Ph[1][:, 2], wantz, 1e-9 * np.abs(wantz) + floorz, f'tilt:offset:{mag}',
                   f'height of the hit point on the tilted vertex tangent plane, r x tilt up to {10 * tilt:.3e}, tilt {ang} deg ({case["form"]})')
    R.nontrivial(tilt > 0)
    R.outcome(f'tilt={mag}')


def tilt_cases(tier):
    shp = [{'kind': 'plane'}, {'kind': 'sphere', 'c': 1 / 50}, {'kind': 'conic', 'c': 1 / 80, 'k': -1.0}]
    out = []
    for s_ in shp:
        for th in TILTS_DEG:
            for axes in TILT_AXES:
                for form in ('angles', 'matrix') + (('tuple',) if tier == 'thorough' else ()):
                    for t in TYPES[:2]:
                        for sign in ((1, -1) if tier == 'thorough' and th else (1,)):
                            out.append({'shape': s_, 'theta': sign * th, 'mag': f'{th:g}deg', 'axes': axes, 'form': form,
                                        'typ': t['typ'], 'n': t['n'], 'n0': t['n0']})
    return out


# -- spellings of the rays -------------------------------------------------------------------------------------------

RAY_FORMS = ['f64', 'f32', 'i64', 'i32', 'list-int', 'list-float']


def as_form(a, form):
    if form == 'f64':
        return np.array(a, dtype=np.float64)
    if form == 'f32':
        return np.array(a, dtype=np.float32)
    if form == 'i64':
        return np.array(a, dtype=np.int64)
    if form == 'i32':
        return np.array(a, dtype=np.int32)
    if form == 'list-int':
        return np.array(a, dtype=np.int64).tolist()
    return np.array(a, dtype=np.float64).tolist()


def form_class(form):
    return 'int' if form in ('i64', 'i32', 'list-int') else ('f32' if form == 'f32' else 'f64')


def run_rayforms(case, seed, R):
    """However P and S are spelled (python ints, integer / float32 arrays, mixed, one ray or a batch), the trace equals
    the float64 trace of the same numbers."""
    pl = [{'shape': {'kind': 'conic', 'c': 1 / 200, 'k': -1.0}, 'P': 0.0, 'R': None, 'typ': 'refl', 'n': None},
          {'shape': {'kind': 'sphere', 'c': 1 / 40}, 'P': [0.0, 0.0, 0.0], 'R': [0, 5, 3], 'typ': 'refr', 'n': 1.5},
          {'shape': {'kind': 'plane'}, 'P': [0.0, 0.0, 30.0], 'R': None, 'typ': 'refr', 'n': 1.0}]
    geos = [Geo(pl[i], seed) for i in case['seq']]
    zd = case['zdir']
    lat = [-10, -5, 0, 5, 10]
    P0 = np.array([[x, y, -20 * zd] for y in lat for x in lat], dtype=float)      # integer-valued: every form can express it
    S0 = np.tile([0.0, 0.0, float(zd)], (25, 1))
    surfs = [g.build(R) for g in geos]
    if any(sf is FAILED for sf in surfs):
        return
    tally = new_tally()
    base = trace_and_judge(R, geos, P0, S0, 1.0, tally, form='batch', prebuilt=surfs)     # the float64 trace, judged hop by hop
    report_tally(R, tally)
    if base is None:
        return
    Ph0, Sh0 = base
    pc, sc = form_class(case['Pform']), form_class(case['Sform'])
    sig = 'raytrace:rayform:P-int' if pc == 'int' else f'raytrace:rayform:P-{pc}:S-{sc}'
    J = len(geos)
    # float32 positions may come back in float32 ("any float dtype"): then, and only then, single-precision agreement
    tolP = (4 * float(np.finfo(np.float32).eps) if pc == 'f32' else 64 * EPS) * (1 + np.abs(np.nan_to_num(Ph0)).max())
    tolS = 4 * float(np.finfo(np.float32).eps) if pc == 'f32' else 64 * EPS
    if case['ray'] == 'batch':
        out = R.call(sm.raytrace, surfs, as_form(P0, case['Pform']), as_form(S0, case['Sform']), WVL, n_ambient=1.0, sig=sig + ':exception')
        got = None
        if out is not FAILED and isinstance(out, tuple) and len(out) == 2:
            got = (out[0], out[1])
            shp = (J + 1, 25, 3)
    else:
        i = case['ray_index']
        out = R.call(sm.raytrace, surfs, as_form(P0[i], case['Pform']), as_form(S0[i], case['Sform']), WVL, n_ambient=1.0, sig=sig + ':exception')
        got = None
        if out is not FAILED and isinstance(out, tuple) and len(out) == 2:
            got = (out[0], out[1])
            shp = (J + 1, 3)
            Ph0, Sh0 = Ph0[:, i], Sh0[:, i]
    if got is None:
        return
    for arr, want, tol, what in ((got[0], Ph0, tolP, 'P_hist'), (got[1], Sh0, tolS, 'S_hist')):
        try:
            kind = np.asarray(arr).dtype.kind
        except Exception:   # noqa
            kind = '?'
        R.expect(kind == 'f', sig + ':dtype', f'{what} has dtype kind {kind!r}: a ray history must be floating point')
        a = as_array(R, arr, shp, sig + ':shape', what)
        if a is not None:
            R.expect_close(a, want, tol, sig, f'{what} for P as {case["Pform"]}, S as {case["Sform"]} ({case["ray"]}) vs the float64 trace')
    # OBLIQUE rays with mixed precisions of P and S (positions from a float64 model, direction cosines stored in float32, and the
    # reverse): the trace of the numbers as given equals the trace of the same numbers upcast to float64 (P float64: to rounding)
    if case['ray'] == 'batch' and case['Pform'] == case['Sform'] == RAY_FORMS[0]:
        d = np.array([0.2, -0.1, 0.0])
        d[2] = zd * math.sqrt(1 - d[0] ** 2 - d[1] ** 2)
        So = np.tile(d, (25, 1))
        for pdt, sdt in ((np.float64, np.float32), (np.float32, np.float64)):
            Pm, Sm = P0.astype(pdt), So.astype(sdt)
            ref = R.call(sm.raytrace, surfs, Pm.astype(float), Sm.astype(float), WVL, n_ambient=1.0, sig='raytrace:rayform:mixed-precision:exception', hygiene=False)
            out = R.call(sm.raytrace, surfs, Pm.copy(), Sm.copy(), WVL, n_ambient=1.0, sig='raytrace:rayform:mixed-precision:exception')
            if ref is FAILED or out is FAILED:
                continue
            lowp = pdt == np.float32
            for k, what in ((0, 'P_hist'), (1, 'S_hist')):
                sc_ = 1 + float(np.abs(np.nan_to_num(np.asarray(ref[k], dtype=float))).max())
                R.expect_close(np.asarray(out[k], dtype=float), np.asarray(ref[k], dtype=float), (8 * float(np.finfo(np.float32).eps) if lowp else 64 * EPS) * sc_,
                               f'raytrace:rayform:mixed-precision:P-{np.dtype(pdt).name}:S-{np.dtype(sdt).name}',
                               f'{what} of oblique rays with P as {np.dtype(pdt).name} and S as {np.dtype(sdt).name} vs the float64 trace of the same numbers')
    R.nontrivial()
    R.outcome(f'P-{pc}:S-{sc}')


def rayform_cases(tier):
    out = []
    for seq in ([0], [1], [1, 2]) if tier == 'quick' else ([0], [1], [1, 2], [0, 1], [2, 0]):
        for zd in ((-1,) if seq == [0] else (1,)) if tier == 'quick' else (1, -1):
            for pf in RAY_FORMS:
                for sf in RAY_FORMS:
                    out.append({'seq': seq, 'zdir': zd, 'Pform': pf, 'Sform': sf, 'ray': 'batch'})
                    out.append({'seq': seq, 'zdir': zd, 'Pform': pf, 'Sform': sf, 'ray': 'single', 'ray_index': 7})
    return out


# -- bundle size thresholds ------------------------------------------------------------------------------------------

GOLDEN = math.pi * (3 - math.sqrt(5))


def size_alphabet(tier):
    """Ray counts just above a power of two and not a multiple of it (k = 7..16), ascending; thorough: also 2^k - 1 and 2^k."""
    out = set()
    for k in range(7, 17):
        out |= {2 ** k + 1, 2 ** k + 2 ** (k - 1) + 3}
        if tier == 'thorough':
            out |= {2 ** k - 1, 2 ** k}
    return sorted(out)


HY_MAX = 2 ** 13 + 2 ** 12 + 3     # 12291 rays
HY_MAX_T = 2 ** 14 + 2 ** 13 + 3   # 24579 rays
HUGE = 2 ** 20 + 1           # one bundle beyond 2^20 rays (the module's own benchmark note speaks of batches of a million)


def big_bundle(kind, N):
    """N rays whose origin and / or direction differ from ray to ray: ray i is tied to point i of a golden-angle (sunflower)
    spiral of radius 25 in the plane z=0, so neighbouring indices are far apart and no two rays of a bundle coincide."""
    i = np.arange(N, dtype=float)
    rho = 25.0 * np.sqrt((i + 0.5) / N)
    th = i * GOLDEN
    T = np.stack([rho * np.cos(th), rho * np.sin(th), np.zeros(N)], axis=1)
    if kind == 'cone':                          # off-axis point source: one origin, every direction different (skew rays)
        P = np.tile([3.0, -2.0, -60.0], (N, 1))
        S = T - P
    elif kind == 'converging':                  # launched from a tilted plane (every origin, every z, every direction different)
        P = np.stack([1.2 * T[:, 0], 1.2 * T[:, 1], -20.0 + 0.1 * T[:, 0] - 0.05 * T[:, 1]], axis=1)
        S = np.array([-4.0, 6.0, 150.0]) - P
    elif kind == 'collimated':                  # one skew direction, every origin different
        P = T + np.array([0.0, 0.0, -20.0])
        S = np.tile([0.05, -0.03, math.sqrt(1 - 0.05 ** 2 - 0.03 ** 2)], (N, 1))
    else:
        raise ValueError(kind)
    S = S / np.linalg.norm(S, axis=1)[:, None]
    return P, S


def big_pool():
    return {
        'mirror': [{'shape': {'kind': 'conic', 'c': 1 / 120, 'k': -0.6}, 'P': [1.5, -2.0, 12.0], 'R': [0, 5, 3], 'typ': 'refl', 'n': 1.0}],
        'singlet': [{'shape': {'kind': 'sphere', 'c': 1 / 80}, 'P': [0.0, 0.0, 5.0], 'R': None, 'typ': 'refr', 'n': 1.62},
                    {'shape': {'kind': 'conic', 'c': -1 / 90, 'k': -1.0}, 'P': [0.5, -0.3, 15.0], 'R': [0, 5, 3], 'typ': 'refr', 'n': 1.0}],
        'two-mirror': [{'shape': {'kind': 'conic', 'c': -1 / 300, 'k': -1.0}, 'P': [0.0, 0.0, 80.0], 'R': None, 'typ': 'refl', 'n': 1.0},
                       {'shape': {'kind': 'oac', 'c': -1 / 200, 'k': -1.0, 'dx': 20.0, 'dy': 0.0}, 'P': [2.0, -3.0, 10.0], 'R': [25, 9, 12], 'typ': 'refl', 'n': 1.0}],
    }


def run_bundlesize(case, seed, R):
    """EVERY ray of a big bundle is judged by the hop oracle (a blocked / chunked solver goes wrong in the later blocks / the tail)."""
    N = case['N']
    hy = bool(case.get('hygiene', True))
    geos = [Geo(sd, seed) for sd in big_pool()[case['pres']]]
    P0, S0 = big_bundle(case['bundle'], N)
    surfs = [g.build(R) for g in geos]
    if any(sf is FAILED for sf in surfs):
        return
    tally = new_tally()
    trace_and_judge(R, geos, P0, S0, 1.0, tally, form='batch', prebuilt=surfs, hygiene=hy)
    report_tally(R, tally)
    # intersect() itself, rays handed over in the local frame of the first surface (explicit array arguments: hygiene variants)
    g0 = geos[0]
    p, d = g0.to_local(P0, S0)
    out = R.call(sm.intersect, p.copy(), d.copy(), surfs[0].sag_normal, hygiene=hy, sig='intersect:exception') if case.get('direct', True) else FAILED
    if out is not FAILED:
        if not (isinstance(out, tuple) and len(out) == 2):
            R.violation('intersect:return', f'intersect returned {type(out).__name__}, not (Pj, r)')
        else:
            Pj = as_array(R, out[0], (N, 3), 'intersect:shape', 'intersect Pj')
            r = as_array(R, out[1], (N, 3), 'intersect:shape', 'intersect r')
            if Pj is not None and r is not None:
                gl = Geo(dict(g0.sd, P=[0.0, 0.0, 0.0], R=None, typ='eval'), seed)       # the same shape in its own frame; bends nothing
                t2 = new_tally()
                good = judge_hop(R, gl, 1.0, p, d, Pj, d, np.ones(N, bool), 'intersect', t2)
                if good.any():
                    with np.errstate(all='ignore'):
                        nh = r / np.linalg.norm(r, axis=1)[:, None]
                        err = np.abs(nh - gl.normal(np.where(good, Pj[:, 0], 0.0), np.where(good, Pj[:, 1], 0.0))).max(axis=1) / TOL_D
                    ok, i = worst(err, good, 1.0)
                    R.expect(ok, f'intersect:normal:{gl.st}', f'direction of the normal returned by intersect vs the reference unit normal at the returned point: '
                                                              f'|err|/tol = {float(np.where(np.isfinite(err), err, np.inf)[i]):.3e} at ray index {i} of {N}')
    R.outcome(f'N={"2^%d+" % int(math.log2(N)) if N & (N - 1) else "2^%d" % int(math.log2(N))}')



# ---------------------------------------------------------------------------------------------
# object history of ONE Surface: its public attributes (pose R, position P, index function n, type) are reassigned between traces.
# Differential oracle: the trace through the re-configured object equals, bit for bit, the trace through a FRESH surface constructed
# with the current values (whatever a surface derives from its pose at construction time must follow the attribute).

SOH_POSES = [None, [0.0, 5.0, 3.0], [10.0, 0.0, 0.0], [-4.0, 2.0, 7.0]]
SOH_PS = [[0.0, 0.0, 10.0], [1.5, -2.0, 12.0]]


def run_surface_history(case, seed, R):
    kind, typ = case['shape'], case['typ']
    seqs = case['sequence']
    P0, S0 = bundle('quick', z0=-3.0)

    def make(pose, pos, npr):
        g = Geo({'shape': kind, 'P': pos, 'R': pose, 'typ': typ, 'n': npr}, seed)
        return g, g.build(R)

    # session history of the rotation-matrix helper: the same angle numbers requested in RADIANS first (a user's own frame bookkeeping);
    # the surfaces below give them in degrees
    from prysm import coordinates as _pc
    for pose in SOH_POSES:
        if pose is not None:
            got = R.call(_pc.make_rotation_matrix, tuple(pose), radians=True, sig='make_rotation_matrix:exception')
            R.expect_close(got, ref_rotmat([math.degrees(v) for v in pose]), 64 * EPS, 'make_rotation_matrix:radians', f'make_rotation_matrix({tuple(pose)}, radians=True)')
    g0, surf = make(SOH_POSES[seqs[0][0]], SOH_PS[seqs[0][1]], seqs[0][2])
    if surf is FAILED:
        return
    first = True
    for (ipose, ipos, npr) in seqs:
        g, fresh = make(SOH_POSES[ipose], SOH_PS[ipos], npr)
        if fresh is FAILED:
            return
        if not first:
            # reassign the attributes of the LIVE object to what a fresh surface with the new values holds
            for attr in ('R', 'P', 'n'):
                try:
                    setattr(surf, attr, getattr(fresh, attr))
                except Exception as e:   # noqa
                    R.violation('Surface:history:setattr', f'cannot assign Surface.{attr}: {e}')
                    return
        if case.get('params') and isinstance(getattr(surf, 'params', None), dict):
            # the shape parameters of a conic live in surf.params and are read when the surface is evaluated: edit them in place
            # (c, k of the next configuration) and compare with a fresh conic of those parameters
            c2, k2 = case['params'][0 if first else 1]
            g = Geo({'shape': {'kind': 'conic', 'c': c2, 'k': k2}, 'P': SOH_PS[ipos], 'R': SOH_POSES[ipose], 'typ': typ, 'n': npr}, seed)
            fresh = g.build(R)
            if fresh is FAILED:
                return
            surf.params['c'], surf.params['k'] = c2, k2
        out = R.call(sm.raytrace, [surf], P0.copy(), S0.copy(), WVL, n_ambient=1.0, sig='raytrace:exception:history')
        want = R.call(sm.raytrace, [fresh], P0.copy(), S0.copy(), WVL, n_ambient=1.0, sig='raytrace:exception:history', hygiene=False)
        if out is FAILED or want is FAILED:
            return
        try:
            ok = all(np.array_equal(np.asarray(a), np.asarray(b), equal_nan=True) for a, b in zip(out, want)) and len(out) == len(want)
        except Exception:   # noqa
            ok = False
        R.expect(ok, 'Surface:history:stale-after-attribute-change' if not first else 'Surface:history:first-trace',
                 f'trace through a {kind["kind"]} surface whose R / P / n were reassigned to pose {SOH_POSES[ipose]}, P {SOH_PS[ipos]}, n {npr} differs from the trace through a fresh surface with those values')
        # and the re-configured object obeys the hop oracle of its CURRENT configuration
        tally = new_tally()
        trace_and_judge(R, [g], P0, S0, 1.0, tally, form='batch', prebuilt=[surf], hygiene=False)
        report_tally(R, tally)
        first = False
    R.nontrivial(len(seqs) > 1)
    R.outcome(f"history:{kind['kind']}:{typ}")


def surface_history_cases(tier):
    states = [(a, b, n) for a in range(len(SOH_POSES)) for b in range(len(SOH_PS)) for n in ((1.5, 1.7) if True else (1.5,))]
    out = []
    para, sph, pln, ell = {'kind': 'conic', 'c': 1 / 50, 'k': -1.0}, {'kind': 'sphere', 'c': -1 / 50}, {'kind': 'plane'}, {'kind': 'conic', 'c': 1 / 50, 'k': 0.5}
    kinds = [(para, 'refl'), (sph, 'refr'), (pln, 'refr')] if tier == 'quick' else [(para, 'refl'), (ell, 'refr'), (sph, 'refr'), (pln, 'refl'), (pln, 'refr')]
    # conic shape parameters edited in place between traces (from / to the paraboloid k = -1, and between general conics)
    for (p0, p1) in (((1 / 50, -1.0), (1 / 50, -0.5)), ((1 / 50, -0.5), (1 / 50, -1.0)), ((1 / 50, 0.5), (-1 / 80, -2.0)), ((1 / 50, -1.0), (1 / 65, -1.0))):
        for typ in ('refl', 'refr'):
            out.append({'shape': {'kind': 'conic', 'c': p0[0], 'k': p0[1]}, 'typ': typ, 'sequence': [[1, 0, 1.5], [1, 0, 1.5]], 'params': [list(p0), list(p1)]})
    for kind, typ in kinds:
        for s0 in states:
            for s1 in states:
                if s0 != s1 and (tier == 'thorough' or sum(x != y for x, y in zip(s0, s1)) == 1 or (s0[0] == 0) != (s1[0] == 0)):
                    out.append({'shape': kind, 'typ': typ, 'sequence': [list(s0), list(s1)] + ([list(s0)] if tier == 'thorough' else [])})
    return out


def bundlesize_cases(tier):
    """All bundle x prescription pairs up to HY_MAX (quick) / HY_MAX_T (thorough) rays with the repeated-call hygiene variants (they
    cost ~10 traces); beyond that a set of pairs that together contains every bundle and every prescription, one call each."""
    kinds = ['cone', 'converging'] + (['collimated'] if tier == 'thorough' else [])
    press = ['mirror', 'singlet'] + (['two-mirror'] if tier == 'thorough' else [])
    hymax = HY_MAX if tier == 'quick' else HY_MAX_T
    big = [('cone', 'singlet'), ('converging', 'mirror')]
    if tier == 'thorough':
        big += [('cone', 'mirror'), ('converging', 'singlet'), ('collimated', 'two-mirror')]
    out = []
    for N in size_alphabet(tier):
        for b in kinds:
            for p_ in press:
                if N > hymax and (b, p_) not in big:
                    continue
                out.append({'N': N, 'bundle': b, 'pres': p_, 'hygiene': bool(N <= hymax), 'direct': True})
    if tier == 'quick':
        out.append({'N': HUGE, 'bundle': 'converging', 'pres': 'mirror', 'hygiene': False, 'direct': False})
    else:
        out += [{'N': HUGE, 'bundle': b, 'pres': p_, 'hygiene': (b, p_) == ('converging', 'singlet'), 'direct': True} for b in kinds[:2] for p_ in press[:2]]
    return out


# -- far ray origins ---------------------------------------------------------------------------------

def run_far(case, seed, R):
    """The 5x5 lattice (incl. the axis) x four directions, launched |Z0| before (zdir=+1) / after (zdir=-1) the z=0 plane."""
    g = Geo(case['surf'], seed)
    L, S0 = bundle('quick')
    S0 = S0 * np.array([1.0, 1.0, float(case['zdir'])])
    P0 = L - (case['Z0'] / np.abs(S0[:, 2:3])) * S0          # every ray passes through its lattice point in the plane z=0
    tally = new_tally()
    trace_and_judge(R, [g], P0, S0, case['n0'], tally, form='batch')
    report_tally(R, tally)
    R.outcome(f'Z0={case["Z0"]:g}')


def far_cases(tier):
    shp = [{'kind': 'plane'}, {'kind': 'sphere', 'c': 1 / 50}, {'kind': 'sphere', 'c': -1 / 50}, {'kind': 'conic', 'c': 1 / 50, 'k': -1.0},
           {'kind': 'conic', 'c': -1 / 50, 'k': -0.6}, {'kind': 'oac', 'c': 1 / 50, 'k': -1.0, 'dx': 20.0, 'dy': 0.0},
           {'kind': 'q2d', 'q': '2d', 'c': 1 / 50, 'k': 0.0, 'dx': 0.0, 'dy': 0.0, 'nr': 45.0}]
    pos = [{'P': [0.0, 0.0, 10.0], 'R': None}, {'P': [1.5, -2.0, 12.0], 'R': [0, 5, 3]}, {'P': [1.5, -2.0, 12.0], 'R': [3, -20, 31]}]
    Zs = [1e3, 1e7] if tier == 'quick' else [1e3, 1e5, 1e7, 1e9]
    return [{'surf': sdesc(s_, p_, t), 'n0': t['n0'], 'Z0': Z0, 'zdir': zd}
            for s_ in shp for p_ in pos for t in TYPES[:3] for Z0 in Zs for zd in (1, -1)]


# -- media bookkeeping: surfaces that carry an index function without being refracting -------------------

def media_pool():
    return [
        {'shape': {'kind': 'sphere', 'c': -1 / 80}, 'P': 60.0, 'R': None, 'typ': 'refl', 'n': 1.7},                      # mirror with its substrate index
        {'shape': {'kind': 'plane'}, 'P': [0.0, 0.0, 5.0], 'R': [10, 0, 0], 'typ': 'eval', 'n': 1.6},                     # dummy plane carrying a glass
        {'shape': {'kind': 'conic', 'c': -1 / 100, 'k': -1.0}, 'P': [0.0, 0.0, 50.0], 'R': None, 'typ': 'refl', 'n': None},
        {'shape': {'kind': 'conic', 'c': 1 / 200, 'k': 0.0}, 'P': [1.5, -2.0, 8.0], 'R': None, 'typ': 'eval', 'n': None},
        {'shape': {'kind': 'sphere', 'c': 1 / 50}, 'P': [0.0, 0.0, 10.0], 'R': None, 'typ': 'refr', 'n': 1.5},
        {'shape': {'kind': 'conic', 'c': -1 / 50, 'k': -0.6}, 'P': [0.0, 0.0, 14.0], 'R': [-7, 13, 4], 'typ': 'refr', 'n': 1.0},
    ]


def run_media(case, seed, R):
    pl = media_pool()
    geos = [Geo(pl[i], seed) for i in case['seq']]
    P0, S0 = bundle(case['tier'])
    tally = new_tally()
    trace_and_judge(R, geos, P0, S0, case['n0'], tally, form='batch')
    report_tally(R, tally)
    carried = any(pl[i]['typ'] != 'refr' and pl[i]['n'] is not None for i in case['seq'][:-1]) and pl[case['seq'][-1]]['typ'] == 'refr'
    R.outcome('index-carrier-then-refractor' if carried else f'len{len(geos)}')


# -- forms of the position argument; the running-vertex idiom ----------------------------------------------

P_FORMS = ['scalar', 'list', 'tuple', 'two-list', 'two-f64', 'f64', 'f64-fresh', 'f32', 'i64']


def prescriptions():
    """(shape, typ, index after / carried, thickness to the next vertex); integer-valued so that every form can express them."""
    return [
        [({'kind': 'conic', 'c': 1 / 51, 'k': 0.0}, 'refr', 1.5, 6), ({'kind': 'conic', 'c': -1 / 62, 'k': 0.0}, 'refr', 1.0, 40),
         ({'kind': 'plane'}, 'eval', None, 7)],
        [({'kind': 'sphere', 'c': 1 / 50}, 'refr', 1.5, 30), ({'kind': 'conic', 'c': -1 / 80, 'k': -1.0}, 'refl', None, -25),
         ({'kind': 'plane'}, 'refr', 1.0, 3)],
    ]


def run_pforms(case, seed, R):
    """Surfaces built one after the other from ONE running vertex position, handed over in the given form and advanced in
    place by each thickness (as lens tables are walked): every surface must stay where it was built."""
    form = case['form']
    pres = prescriptions()[case['pres']]
    x, y = case['xy']
    z = 12
    arr = {'f64': np.array([x, y, z], dtype=np.float64), 'f32': np.array([x, y, z], dtype=np.float32),
           'i64': np.array([x, y, z], dtype=np.int64), 'two-f64': np.array([y, z], dtype=np.float64)}.get(form)
    geos, surfs = [], []
    for shape, typ, n, thick in pres:
        if form == 'scalar':
            arg = float(z)
        elif form == 'list':
            arg = [float(x), float(y), float(z)]
        elif form == 'tuple':
            arg = (float(x), float(y), float(z))
        elif form == 'two-list':
            arg = [float(y), float(z)]
        elif form == 'f64-fresh':
            arg = np.array([x, y, z], dtype=np.float64)
        else:
            arg = arr                                    # the SAME ndarray object for every surface
        g = Geo({'shape': shape, 'P': [float(x), float(y), float(z)], 'R': None, 'typ': typ, 'n': n}, seed)
        sf = g.build(R, P_arg=arg)
        if sf is FAILED:
            return
        geos.append(g)
        surfs.append(sf)
        z += thick
        if arr is not None:
            arr[-1] += thick                             # advance the running vertex in place
    if arr is not None:
        for i, sf in enumerate(surfs):
            Pi = getattr(sf, 'P', None)
            R.expect(not (isinstance(Pi, np.ndarray) and np.shares_memory(Pi, arr)), f'Surface:P:aliases-argument:{form}',
                     f'surface {i}: Surface.P shares memory with the position array it was constructed from')
    P0, S0 = bundle('quick')
    tally = new_tally()
    # check_surface_object (inside) compares every Surface.P with the position at ITS construction time
    trace_and_judge(R, geos, P0, S0, 1.0, tally, form='batch', prebuilt=surfs)
    for g, sf in zip(geos, surfs):
        check_surface_object(R, g, sf)                   # and the trace did not move them either
    report_tally(R, tally)
    R.outcome(form)


def pform_cases():
    out = []
    for pres in range(len(prescriptions())):
        for form in P_FORMS:
            for xy in ([0, 0], [2, -3]):
                if form == 'scalar' and xy != [0, 0]:
                    continue
                if form.startswith('two') and xy[0] != 0:
                    xy = [0, xy[1]]
                c = {'form': form, 'pres': pres, 'xy': xy}
                if c not in out:
                    out.append(c)
    return out


def ref_census(cases, tier):
    """Reference-only census of the rays of unit ``single`` (closed-form shapes): how many are judged / excluded and why."""
    P0, S0 = bundle(tier)
    tot = {'rays': 0, 'hit': 0, 'miss': 0, 'start-outside': 0, 'tir': 0, 'exact-axis': 0}
    for case in cases:
        sd = case['surf']
        if sd['shape']['kind'] == 'q2d':
            continue
        g = Geo(sd, 0)
        p, d = g.to_local(P0, S0)
        with np.errstate(all='ignore'):
            roots, _ = g.roots(p, d)
            s0 = -p[:, 2] / d[:, 2]
            p1 = p + s0[:, None] * d
            dom = np.isfinite(g.sag(p1[:, 0], p1[:, 1])) & np.isfinite(s0)
            hit = np.isfinite(roots).any(axis=1)
            sr = np.where(np.isfinite(roots), roots, np.inf)
            sr = np.take_along_axis(sr, np.argmin(np.abs(sr - s0[:, None]), axis=1)[:, None], axis=1)[:, 0]
            q = p + np.where(np.isfinite(sr), sr, 0.0)[:, None] * d
            cosI = np.einsum('ij,ij->i', d, g.normal(q[:, 0], q[:, 1]))
            mu = case['n0'] / g.nprime
            tir = (g.typ == 'refr') & (1 - mu * mu * (1 - cosI * cosI) < 1e-6)
        j = hit & dom
        tot['rays'] += len(hit)
        tot['miss'] += int((~hit).sum())
        tot['start-outside'] += int((hit & ~dom).sum())
        tot['tir'] += int((j & tir).sum())
        tot['hit'] += int((j & ~tir).sum())
        tot['exact-axis'] += int((j & (np.hypot(p1[:, 0], p1[:, 1]) == 0)).sum())
    return tot


def plan(tier, seed):
    shp = shapes(tier)
    pos = poses(tier)
    single = [{'surf': sdesc(s, p, t), 'n0': t['n0'], 'tier': tier} for s in shp for p in pos for t in TYPES]
    # Q-type with a conic (k != 0) base: separate unit, its normal inherits the sigma / sigma_der inconsistency (C09)
    qk = [{'surf': sdesc(s, p, t), 'n0': t['n0'], 'tier': tier}
          for s in q_shapes(tier, ks=(-0.6,)) for p in pos[:3] for t in TYPES[:2]]
    one_d = [{'surf': sdesc(s, p, t), 'n0': t['n0']}
             for s in shp if (s['kind'] != 'oac' or s['dx'] == 20.0) and s.get('k', 0.0) in (0.0, -0.6, -1.0) and s.get('c', 1) > 0
             for p in ({'P': [0.0, 0.0, 10.0], 'R': None}, {'P': [1.5, -2.0, 12.0], 'R': [0, 5, 3]}) for t in TYPES[:3]]
    axis = [{'surf': sdesc(s, p, t), 'n0': t['n0'], 'skew': sk}
            for s in shp if s['kind'] != 'q2d' for p in pos for t in (TYPES[:2] if tier == 'quick' else TYPES[:3]) for sk in (False, True)]
    ref = [{'shape': s} for s in shp + q_shapes(tier, ks=(-0.6,))]
    frames = [{'P': p['P'], 'R': p['R'], 'form': f} for p in pos for f in ('batch', 'single')]
    # rotation alphabet: every subset of non-zero angles, all three non-zero and distinct, negative, > 90 deg, short forms, radians
    rots = [[30, 0, 0], [0, -45, 0], [0, 0, 90], [12, -7, 0], [0, 21, -33], [-7, 13, 4], [3, -20, 31], [170, 60, -100], [-135, 100, 95],
            [95, 95, 95], [40], [20, -10]]
    frames += [c for c in ({'P': [1.5, -2.0, 12.0], 'R': r, 'form': 'batch'} for r in rots) if c not in frames]
    frames += [{'P': [1.5, -2.0, 12.0], 'R': r, 'form': f, 'radians': True}
               for r in ([0.4, 0.0, 0.0], [0.0, -0.3, 0.0], [0.0, 0.0, 0.2], [0.4, -0.3, 0.2], [2.5, 1.7, -2.0], [-0.1, 0.2]) for f in ('batch', 'single')]
    L = 2 if tier == 'quick' else 3
    seqs = [list(t) for n in range(1, L + 1) for t in itertools.product(range(5), repeat=n)]
    seq = [{'seq': s, 'n0': 1.0, 'form': 'batch', 'tier': tier} for s in seqs]
    seq += [{'seq': s, 'n0': 1.5, 'form': 'batch', 'tier': tier} for s in seqs if len(s) == 2]
    nd = len(directions(tier))
    nl = 5 if tier == 'quick' else 9
    cen = ref_census(single, tier)
    rs_ = reset_all
    return [
        ScopeUnit('refmodel', ref, run_refmodel,
                  'every surface shape of the alphabet on a 9x9 lattice: the reference\'s analytic unit normal against Richardson-extrapolated central '
                  'differences of the closed-form sag and against the implicit quadric (self-test of the trusted base); the library\'s sag against the closed form; '
                  'the DIRECTION of Surface.sag_normal against the reference normal away from r=0', reset=rs_),
        ScopeUnit('frames', frames, run_frames,
                  'every pose (3 positions incl. a scalar P, x tilts None/(0,5,3)/(10,0,0) deg + the decentred position with (25,9,12) [thorough: 3 x 7 tilts]) x call form (batch, single 1-D ray), plus a rotation '
                  'alphabet (each single axis, each pair, all three angles non-zero and distinct, negative, > 90 deg, equal angles, 1- and 2-element forms, and radians=True forms): '
                  'make_rotation_matrix orthonormal, det +1 AND equal in value to the composition Rx @ Ry @ Rz written in this module, same for tuple / ndarray angle arguments, single-axis angle; transform_to_local_coords / transform_to_global_coords preserve pairwise distances, '
                  'dot products, mixed products and handedness, agree with local = R (X - P), are mutual inverses (with R^T), map P to the origin; points are '
                  'lattice points plus one seeded generic displacement', reset=rs_),
        ScopeUnit('single', single, run_single,
                  f'every shape ({len(shp)}: plane, sphere c=+-1/50, conic k in {{0,-1,-0.6,0.5,-2}} x c=+-1/50, off-axis conic offsets dx/dy in {{20,-5}},{{20,5}} x k x c, '
                  f'4 Q-type surfaces on a k=0 base with seeded coefficients) x every pose ({len(pos)}) x {{reflect, refract (1,1.5), (1.5,1), (1,1)}}; each case traces '
                  f'{nd} directions (axial, 2 skew, steep 30 deg{", 2 more" if nd > 4 else ""}) x a {nl}x{nl} lattice of origins INCLUDING the exact axis = {nd * nl * nl} rays through raytrace; every ray that the '
                  'reference says hits (discriminant of the quadric, sheet through the vertex) is judged on all clauses; misses / TIR / out-of-domain starts are '
                  'excluded by the reference and counted in the outcome histogram (label:bucket of rays per case); non-trivial when an off-axis hit was judged. '
                  f'Reference-only census of the closed-form shapes: {cen["rays"]} rays, {cen["hit"]} judged on every clause ({cen["exact-axis"]} of them cross the local z=0 plane '
                  f'exactly at x=y=0), {cen["miss"]} excluded as geometric misses (negative discriminant / wrong sheet), {cen["start-outside"]} excluded because the '
                  f'iteration would start outside the domain of the sag, {cen["tir"]} judged on the point only (at or beyond the critical angle)', reset=rs_),
        ScopeUnit('q2d_conic_base', qk, run_single,
                  'the four Q-type surfaces on a k=-0.6 conic base x 3 poses x {reflect, refract (1,1.5)}: same oracle as unit single', reset=rs_),
        ScopeUnit('single1d', one_d, run_single1d,
                  'shapes with c>0, k in {0,-0.6,-1} x 2 poses (untilted, tilted+decentred) x {reflect, refract (1,1.5), (1.5,1)}: six representative rays (corner, generic, '
                  'exact axis, skew, skew through the centre, steep) each traced as a single 1-D ray, same oracle', reset=rs_),
        ScopeUnit('axis', axis, run_axis,
                  'every non-Q shape x pose x {reflect, refract (1,1.5)[, (1.5,1) in thorough]} x {axial, skew-aimed-at-vertex}: the ray through the local origin (exactly x=y=0 for '
                  'untilted surfaces) and four neighbours at 1e-4: finite, judged by the hop oracle, and equal to the mean of its neighbours to O(delta^2 c)', reset=rs_),
        ScopeUnit('long', long_cases(tier), run_long,
                  'long Newton paths (|s| from the local z=0 plane of 128 .. ~600 length units, BOTH signs): large-aperture conics c in {+-1/1000, +-1/2000} x k in {0,-1} with a '
                  f'{21 if tier == "quick" else 31}^2 lattice scaled to 0.7 R (includes the axis) x the four directions, bundles travelling +z AND -z, x 2 poses (untilted, tilted+decentred) x '
                  '{reflect, refract (1,1.5), (1.5,1)}; plus six two-surface prescriptions over a pool of four large posed surfaces (mirror -> refractor met travelling -z, refractor -> mirror) '
                  'with both bundles; same hop oracle, misses excluded by the reference; outcome labels path<-128 / path>+128 count the rays whose reference path length is that long', reset=rs_),
        ScopeUnit('surface_object_history', surface_history_cases(tier), run_surface_history,
                  f'ONE Surface object traced, re-configured by assigning its public attributes R (4 poses incl. none), P (2 positions), n (2 indices) and traced again '
                  '(quick: every ordered pair of configurations differing in one attribute or switching between untilted and tilted; thorough: every ordered pair, then back) '
                  'x {paraboloid mirror, refracting sphere, refracting plane}: the second trace equals bit for bit the trace through a fresh Surface built with the current values '
                  'and obeys the hop oracle of the current configuration', reset=rs_),
        ScopeUnit('tilt', tilt_cases(tier), run_tilt,
                  'tilt magnitude alphabet {0, 1e-12, 1e-9, 4e-7, 1e-6, 1e-3, 1, 10, 90} deg x axis patterns {z, y, x, (y,x), (z,y,x)} x forms {angle list, 3x3 matrix[, tuple, negative '
                  'angles in thorough]} x {plane, sphere, parabola} at the origin x {reflect, refract (1,1.5)}: the 100-ray bundle through the hop oracle, Surface.R to the rounding bound '
                  'of every entry, AND a scaled oracle: for +z rays at the vertex (all 25 lattice rays for the plane) the outgoing direction and the height of the hit point are compared '
                  'with closed forms in the tilted normal to a RELATIVE 1e-9 of each component plus a rounding floor proportional to the tilt (16 eps x tilt; hit height: 32 eps x launch '
                  'distance), so a tilt of 1e-14 rad must deviate the ray by 2e-14 rad and theta = 0 must leave exact zeros', reset=rs_),
        ScopeUnit('rayforms', rayform_cases(tier), run_rayforms,
                  'spellings of the rays: P x S each in {float64, float32, int64, int32 arrays, python list of ints, python list of floats} (all 36 pairs, so mixed float/int too) x '
                  '{batch of 25, single 1-D ray} x prescriptions {parabolic mirror hit travelling -z, tilted refracting sphere, sphere+plane[, more in thorough]}; integer-valued lattice '
                  'and axial directions so that every form expresses the same rays; the float64 trace is judged hop by hop and every other spelling must return floating-point '
                  'histories equal to it (64 eps; single precision only when the positions were given in float32)', reset=rs_),
        ScopeUnit('bundlesize', bundlesize_cases(tier), run_bundlesize,
                  'bundle-size threshold alphabet: ray counts N in {2^k + 1, 2^k + 2^(k-1) + 3 for k = 7..16} (129 .. 98307 rays[, thorough: also 2^k - 1 and 2^k]) x bundles whose rays '
                  'differ from ray to ray {off-axis point-source cone (one origin, N directions), converging beam launched from a tilted plane (N origins with N different z, N directions)'
                  '[, thorough: skew collimated]}, ray i tied to point i of a golden-angle spiral so that index neighbours are far apart, x prescriptions {tilted decentred concave '
                  'ellipsoidal mirror, singlet of a refracting sphere + tilted decentred refracting paraboloid (the second surface meets directions bent by the first)[, thorough: two '
                  'mirrors, the second a tilted off-axis paraboloid met travelling -z]}; ONE raytrace call per case and EVERY ray (in particular the last ones) judged on every clause of the hop oracle; '
                  'plus intersect() called directly with the same rays in the local frame of the first surface (point on surface / on the ray / equal to the reference root, direction of '
                  'the returned normal).  Up to 12291 rays (thorough: 24579) all bundle x prescription pairs run with the repeated-call hygiene variants; above, quick runs (cone, singlet) and '
                  '(converging, mirror) [thorough: 5 pairs covering every bundle and prescription] with one call each.  One bundle of 2^20 + 1 rays (quick: converging beam on the mirror, raytrace only; '
                  'thorough: 2 bundles x 2 prescriptions, one of them with the hygiene variants).  '
                  'This unit is not closed over the data dimension: block sizes that are not near these counts, or beyond 2^20 rays, are not enumerated; Q-type surfaces are not traced at these sizes', reset=rs_, chunk=1),
        ScopeUnit('far', far_cases(tier), run_far,
                  'ray origins far from the surface: the 100-ray bundle launched |Z0| in {1e3, 1e7} (thorough: also 1e5, 1e9) before and after the local z=0 plane (both directions of '
                  'travel) x 7 shapes (plane, spheres, parabola, ellipsoid, off-axis parabola, Q-type) x 2 poses x {reflect, refract (1,1.5), (1.5,1)}; the height above the surface '
                  'is judged at the scale of the local hit point (5e-11), independent of |Z0|; only the lateral position / ray parameter tolerances grow with ulp(|Z0|)', reset=rs_),
        ScopeUnit('media', [{'seq': list(t), 'n0': n0, 'tier': tier} for L_ in range(1, (2 if tier == 'quick' else 3) + 1)
                            for t in itertools.product(range(6), repeat=L_) for n0 in (1.0, 1.3)], run_media,
                  f'ALL sequences of length <= {2 if tier == "quick" else 3} over a pool of 6 surfaces: a mirror carrying an index function (n=1.7), an eval plane carrying one (n=1.6), a mirror and '
                  'an eval surface with n=None, two refractors; n_ambient in {1, 1.3}; the reference changes the medium at refracting surfaces only, eval surfaces must not bend rays; '
                  'outcome index-carrier-then-refractor marks the cases where a non-refracting surface with an index precedes a final refractor', reset=rs_),
        ScopeUnit('pforms', pform_cases(), run_pforms,
                  'forms of the position argument {scalar, list, tuple, 2-element list, 2-element float64 ndarray, float64 ndarray, fresh float64 ndarray per surface, float32 ndarray, '
                  'int64 ndarray} x decentre {(0,0),(2,-3)} x 2 three-surface prescriptions (singlet + eval image plane; refractor, mirror with negative thickness, refracting plane): the '
                  'surfaces are built from ONE running vertex position that is advanced IN PLACE by each thickness (the same ndarray object is handed to every constructor); every '
                  'Surface.P must equal the position at its construction time, must not share memory with the argument, and the 100-ray trace is judged hop by hop against those positions', reset=rs_),
        ScopeUnit('seq', seq, run_seq,
                  f'ALL sequences of length <= {L} over a pool of 5 posed surfaces (refracting sphere, tilted refracting conic back to n=1, tilted decentred refracting plane, '
                  f'parabolic mirror, tilted off-axis parabolic mirror) with n_ambient=1, plus all length-2 sequences with n_ambient=1.5; the {nd * nl * nl}-ray bundle; every hop judged '
                  'locally from the implementation\'s previous validated state with the reference\'s own index bookkeeping; includes rays that meet a refracting surface '
                  'travelling against its local z (after a mirror), and rays that start on the surface (same surface twice)', reset=rs_),
    ]
