"""C20 -- Jones and Mueller calculus preserve the algebra of polarisation optics.

Conventions of the code under test (prysm/x/polarization.py), used by the reference model
-----------------------------------------------------------------------------------------
* documented rotation matrix  R(theta) = [[cos, sin], [-sin, cos]]  (``jones_rotation_matrix``);
  a rotated element is  E(theta) = R(-theta) E(0) R(theta).
* retarder E(0) = diag(1, exp(i delta)), diattenuator E(0) = diag(1, alpha) (alpha an amplitude factor).
* vortex retarder (Mawet et al. 2009, eq. 7):  sin(d/2) [[cos q, sin q], [sin q, -cos q]] - i cos(d/2) I,  q = charge*theta,
  conjugated with R(rotate).
* Stokes parameters (Chipman, Lam & Young, cited by ``jones_to_mueller``): S0 = |Ex|^2+|Ey|^2, S1 = |Ex|^2-|Ey|^2,
  S2 = 2 Re(Ex* Ey), S3 = -2 Im(Ex* Ey), i.e. S3 = +1 for the library's own ``circular_pol_vector('right')`` = (1, -i)/sqrt 2.
  The Mueller matrix of J is DEFINED by  S(J E) = M S(E)  for all E; the reference builds it from four probe states.
* Pauli basis: s0 = I, s1 = diag(1,-1), s2 = [[0,1],[1,0]], s3 = [[0,-i],[i,0]] (docstring of ``pauli_spin_matrix``).

``add_jones_propagation`` monkey-patches ``prysm.propagation``.  The harness process never calls it: the
installation-history part runs in one sub-process per case (``subprocess.run([sys.executable, '-c', ...])``,
PYTHONPATH inherited; the sub-process only imports the library and forks one child per evaluation mode, so every
history starts from the pristine just-imported state), so nothing can leak into other cases; the adapter itself is
exercised in-process through ``jones_adapter(f)`` which patches nothing.
"""
import json
import math
import os
import shutil
import subprocess
import sys
import tempfile

import numpy as np

from mc import ScopeUnit, HistoryUnit, FAILED
from mc.linalg import dense
from mc.state import reset_executors

import prysm.x.polarization as pol
from prysm import propagation as prop
from prysm import fttools
from prysm.conf import config

ID = 'C20'
ASSUMPTIONS = [
    'rotation convention R(theta) = [[cos, sin], [-sin, cos]] and E(theta) = R(-theta) E(0) R(theta) as documented in jones_rotation_matrix / linear_retarder',
    'Stokes convention of Chipman-Lam-Young (S3 = +1 for the library\'s circular_pol_vector("right")); the Mueller matrix is defined by S(J E) = M S(E)',
    'jones_to_mueller(broadcast=False) (np.kron) is only claimed for a single 2x2 matrix; batches go through broadcast=True',
    'array-valued theta / retardance / alpha are passed together with shape=<their shape>, the documented way to obtain a spatially varying element; '
    'every array argument is a fresh float copy (vector_vortex_retarder multiplies the caller\'s theta in place: recorded as outcome "mutates-theta", not judged)',
    'the installation histories run in a sub-process per case (one forked child of the freshly imported library per evaluation mode) and are compared with the never-patched routines of the harness process; '
    'those reference results are computed once per (precision, seed) in each worker process',
    'an argument form (sequence / numpy scalar / 0-d array / integer type) belongs to the domain of the propagation adapter iff the unchanged scalar routine accepts it',
]

TOLU = 32 * np.finfo(float).eps    # tolerance unit: every oracle below is k * TOLU * scale; HEAD is silent at TOLU = 1 eps (all seeds, thorough): margin >= 32x
PREC = 64                          # the precision the current case runs under; TOLU follows it (32 * eps of that precision)


def set_prec(p):
    """Configure prysm's precision for the current case and tie the tolerance unit to it."""
    global PREC, TOLU
    PREC = int(p)
    TOLU = 32 * float(np.finfo(np.float32 if PREC == 32 else np.float64).eps)
    config.precision = PREC


_CACHES = None


def clear_library_caches():
    """A fresh process state as far as it can be reached from outside: every functools cache hanging off the modules
    this property touches is emptied, and the shared transform executors are cleared (precision is left alone)."""
    global _CACHES
    if _CACHES is None:
        import prysm.mathops, prysm.conf, prysm.coordinates   # noqa
        found = []
        for m in (pol, prop, fttools, prysm.mathops, prysm.conf, prysm.coordinates):
            for v in list(vars(m).values()):
                if callable(getattr(v, 'cache_clear', None)) and v not in found:
                    found.append(v)
        _CACHES = found
    for f in _CACHES:
        f.cache_clear()
    fttools.mdft.clear()
    fttools.czt.clear()


def fresh_state():
    clear_library_caches()
    set_prec(64)


def at_precision(run):
    """Run a scope case under case['prec'] (32 or 64) from a fresh library state; 32-bit violations get the suffix ':p32'."""
    def wrapped(case, seed, R):
        fresh_state()
        try:
            set_prec(case.get('prec', 64))
            n0 = len(R.violations)
            try:
                run(case, seed, R)
            finally:
                if PREC == 32:
                    for v in R.violations[n0:]:
                        v['sig'] += ':p32'
                    R.outcome('p32')
        finally:
            fresh_state()
    wrapped.__name__ = getattr(run, '__name__', 'run')
    return wrapped

PI = math.pi
I2 = np.eye(2)


def alphabets(tier):
    q = tier == 'quick'
    return {
        'ret': [0.0, 0.3, PI / 2, PI, 2.0, 2 * PI] + ([] if q else [-0.7, 4.5]),
        'ang': [0.0, 0.4, -1.2, PI / 2] + ([] if q else [PI, -PI / 2, 2.9, 1e-3]),
        'dia': [0.0, 0.2, 1.0] + ([] if q else [0.5, 0.999]),
        'charge': [1, 2, 6, -2, 0.5, 1.5, -0.5, 3] + ([] if q else [0, 2.5, -1.5]),
        # azimuth on the other common convention, [0, 2 pi): values beyond pi matter for non-integer charge (branch of exp(i theta)**charge)
        'ang2pi': [0.0, 0.4, 2 * PI - 1.2, PI / 2, PI, 3 * PI / 2, 5.5],
        'rot': [0.0, 0.5] + ([] if q else [-1.3]),
        'shapes': [[3], [2, 3], [2, 1, 2]] + ([] if q else [[1], [4, 1]]),
    }


# ---------------------------------------------------------------------------------------------
# reference model

def Rref(t):
    c, s = math.cos(t), math.sin(t)
    return np.array([[c, s], [-s, c]], dtype=complex)


def ret_ref(delta, theta):
    return Rref(-theta) @ np.diag([1, np.exp(1j * delta)]) @ Rref(theta)


def dia_ref(alpha, theta):
    return Rref(-theta) @ np.diag([1.0 + 0j, alpha]) @ Rref(theta)


def vvr_ref(charge, theta, delta, rot):
    q = charge * theta
    c, s = math.cos(q), math.sin(q)
    J = math.sin(delta / 2) * np.array([[c, s], [s, -c]], dtype=complex) - 1j * math.cos(delta / 2) * I2
    return Rref(-rot) @ J @ Rref(rot)


def stokes(E):
    ex, ey = E[0], E[1]
    return np.array([abs(ex) ** 2 + abs(ey) ** 2, abs(ex) ** 2 - abs(ey) ** 2,
                     2 * (np.conj(ex) * ey).real, -2 * (np.conj(ex) * ey).imag])


_PROBES = [np.array([1, 0], dtype=complex), np.array([0, 1], dtype=complex),
           np.array([1, 1], dtype=complex) / math.sqrt(2), np.array([1, -1j]) / math.sqrt(2)]
_SIN_INV = np.linalg.inv(np.stack([stokes(e) for e in _PROBES], axis=1))


def mueller_ref(J):
    sout = np.stack([stokes(J @ e) for e in _PROBES], axis=1)
    return sout @ _SIN_INV


PAULI = [np.eye(2, dtype=complex), np.diag([1.0 + 0j, -1]), np.array([[0, 1], [1, 0]], dtype=complex), np.array([[0, -1j], [1j, 0]])]


def herm(J):
    return np.conj(np.swapaxes(J, -1, -2))


def fro(J):
    return float(np.sqrt((np.abs(J) ** 2).sum()))


def valid(R, out, shape, sig, what, kind='fc'):
    """Validated ndarray of the implementation output, or None (and a violation)."""
    if out is FAILED:
        return None
    try:
        a = np.asarray(out)
        if a.shape != tuple(shape):
            R.violation(sig, f'{what}: shape {a.shape} != expected {tuple(shape)}')
            return None
        if a.dtype.kind not in kind:
            R.violation(sig, f'{what}: dtype {a.dtype}')
            return None
        if not np.all(np.isfinite(a)):
            R.violation(sig, f'{what}: non-finite output')
            return None
        return a
    except Exception as e:   # noqa
        R.violation(sig, f'{what}: unusable output ({type(e).__name__}: {e})')
        return None


def check_unitary(R, J, sig, what):
    R.expect_close(herm(J) @ J, np.broadcast_to(I2, J.shape), 32 * TOLU, sig, f'J^H J != I: {what}')


def check_mueller_of_unitary(R, J, sig, what):
    M = R.call(pol.jones_to_mueller, J, sig=sig)
    M = valid(R, M, J.shape[:-2] + (4, 4), sig, f'jones_to_mueller({what})', kind='f')
    if M is None:
        return
    R.expect_close(M @ np.swapaxes(M, -1, -2), np.broadcast_to(np.eye(4), M.shape), 64 * TOLU, sig, f'M M^T != I for unitary {what}')
    R.expect_close(M[..., 0, 0], np.ones(M.shape[:-2]), 32 * TOLU, sig, f'M00 != 1 for unitary {what}')
    check_mueller_value(R, J, M, sig, what)


def check_mueller_value(R, J, M, sig, what):
    """M against the Mueller matrix defined by S(J E) = M S(E), element by element of a batch."""
    want = np.array([mueller_ref(x) for x in np.asarray(J).reshape(-1, 2, 2)]).reshape(np.asarray(J).shape[:-2] + (4, 4))
    R.expect_close(M, want, 64 * TOLU * max(1.0, fro(np.asarray(J).reshape(-1, 2, 2)[0])) ** 2, sig, f'jones_to_mueller({what}) vs Stokes definition S(JE) = M S(E)')


def tag_ret(d):
    return 'halfwave' if d == PI else 'general'


# ---------------------------------------------------------------------------------------------
# unit: scalar elements

def run_element(case, seed, R):
    kind, th = case['kind'], case['theta']
    rot = R.call(pol.jones_rotation_matrix, th)
    derot = R.call(pol.jones_rotation_matrix, -th)
    rot = valid(R, rot, (2, 2), 'jones_rotation_matrix:value', f'R({th})')
    derot = valid(R, derot, (2, 2), 'jones_rotation_matrix:value', f'R({-th})')
    if rot is not None:
        R.expect_close(rot, Rref(th), 8 * TOLU, 'jones_rotation_matrix:value', f'R({th}) vs [[c,s],[-s,c]]')
    if rot is not None and derot is not None:
        R.expect_close(derot @ rot, I2, 16 * TOLU, 'jones_rotation_matrix:inverse', f'R(-t) R(t) != I, t={th}')
    if kind == 'rotation':
        th2 = case['theta2']
        a = valid(R, R.call(pol.jones_rotation_matrix, th2), (2, 2), 'jones_rotation_matrix:value', f'R({th2})')
        ab = valid(R, R.call(pol.jones_rotation_matrix, th + th2), (2, 2), 'jones_rotation_matrix:value', f'R({th + th2})')
        if rot is not None and a is not None and ab is not None:
            R.expect_close(rot @ a, ab, 16 * TOLU, 'jones_rotation_matrix:group', f'R(a) R(b) != R(a+b), a={th} b={th2}')
        if rot is not None:
            check_unitary(R, rot, 'jones_rotation_matrix:unitary', f'R({th})')
        R.nontrivial(th != 0 or th2 != 0)
        R.outcome('rotation')
        return
    if kind in ('retarder', 'hwp', 'qwp'):
        d = {'hwp': PI, 'qwp': PI / 2}.get(kind, case.get('ret'))
        name = {'retarder': 'linear_retarder', 'hwp': 'half_wave_plate', 'qwp': 'quarter_wave_plate'}[kind]
        if kind == 'retarder':
            J = R.call(pol.linear_retarder, d, theta=th)
            J0 = R.call(pol.linear_retarder, d)
            Jp = R.call(pol.linear_retarder, d, th)
        elif kind == 'hwp':
            J, J0, Jp = R.call(pol.half_wave_plate, theta=th), R.call(pol.half_wave_plate), R.call(pol.half_wave_plate, th)
        else:
            J, J0, Jp = R.call(pol.quarter_wave_plate, theta=th), R.call(pol.quarter_wave_plate), R.call(pol.quarter_wave_plate, th)
        J = valid(R, J, (2, 2), name + ':value', f'{name}(ret={d}, theta={th})')
        J0 = valid(R, J0, (2, 2), name + ':value', f'{name}(ret={d}, theta=0)')
        Jp = valid(R, Jp, (2, 2), name + ':value', f'{name}(ret={d}, {th}) positional')
        if J is not None:
            check_unitary(R, J, name + ':unitary', f'ret={d} theta={th}')
            R.expect_close(J, ret_ref(d, th), 16 * TOLU, name + ':value', f'{name}(ret={d}, theta={th}) vs R(-t) diag(1,e^id) R(t)')
            R.expect_close(np.linalg.det(J), np.exp(1j * d), 16 * TOLU, name + ':value', f'det != exp(i ret), ret={d} theta={th}')
            check_mueller_of_unitary(R, J, name + ':mueller', f'{name}(ret={d}, theta={th})')
            if Jp is not None:
                R.expect_equal(Jp, J, name + ':value', 'positional theta != keyword theta')
        if J is not None and J0 is not None and rot is not None and derot is not None:
            R.expect_close(J, derot @ J0 @ rot, 16 * TOLU, name + ':rotation-law', f'E(t) != R(-t) E(0) R(t), ret={d} t={th}')
        if kind != 'retarder' and J is not None:
            Jl = valid(R, R.call(pol.linear_retarder, d, theta=th), (2, 2), 'linear_retarder:value', 'linear_retarder')
            if Jl is not None:
                R.expect_close(J, Jl, 4 * TOLU, name + ':value', f'{name}(theta={th}) != linear_retarder({d}, theta)')
        R.nontrivial(d % (2 * PI) != 0 or th != 0)
        R.outcome(kind)
        return
    # diattenuators / polarisers
    a = 0.0 if kind == 'polarizer' else case['alpha']
    name = 'linear_polarizer' if kind == 'polarizer' else 'linear_diattenuator'
    if kind == 'polarizer':
        J, J0 = R.call(pol.linear_polarizer, theta=th), R.call(pol.linear_polarizer)
    else:
        J, J0 = R.call(pol.linear_diattenuator, a, theta=th), R.call(pol.linear_diattenuator, a)
    J = valid(R, J, (2, 2), name + ':value', f'{name}(alpha={a}, theta={th})')
    J0 = valid(R, J0, (2, 2), name + ':value', f'{name}(alpha={a})')
    if J is not None:
        R.expect_close(J, dia_ref(a, th), 16 * TOLU, name + ':value', f'{name}(alpha={a}, theta={th}) vs R(-t) diag(1,a) R(t)')
        if J0 is not None and rot is not None and derot is not None:
            R.expect_close(J, derot @ J0 @ rot, 16 * TOLU, name + ':rotation-law', f'E(t) != R(-t) E(0) R(t), alpha={a} t={th}')
        if a == 0:
            R.expect_close(J @ J, J, 16 * TOLU, name + ':idempotent', f'P^2 != P, theta={th}')
            M = valid(R, R.call(pol.jones_to_mueller, J), (4, 4), 'jones_to_mueller:value', 'M(polariser)', kind='f')
            if M is not None:
                check_mueller_value(R, J, M, name + ':mueller', f'{name}(alpha={a}, theta={th})')
            for phi in case['phis']:
                want = math.cos(th - phi) ** 2
                for deg in (False, True):
                    E = R.call(pol.linear_pol_vector, math.degrees(phi) if deg else phi, degrees=deg)
                    E = valid(R, E, (2,), 'linear_pol_vector:value', f'linear_pol_vector({phi})')
                    if E is None:
                        continue
                    R.expect_close(E, [math.cos(phi), math.sin(phi)], 8 * TOLU, 'linear_pol_vector:value', f'linear_pol_vector({phi}, degrees={deg})')
                    out = J @ E
                    R.expect_close((np.abs(out) ** 2).sum(), want, 32 * TOLU, name + ':malus', f'|P({th}) E({phi})|^2 != cos^2')
                if M is not None:
                    S = np.array([1, math.cos(2 * phi), math.sin(2 * phi), 0])
                    R.expect_close((M @ S)[0], want, 32 * TOLU, name + ':malus:mueller', f'Mueller Malus theta={th} phi={phi}')
        if a == 1:
            R.expect_close(J, I2, 16 * TOLU, name + ':value', 'alpha=1 is not the identity')
        if a != 0:
            Mg = valid(R, R.call(pol.jones_to_mueller, J), (4, 4), 'jones_to_mueller:value', 'M(diattenuator)', kind='f')
            if Mg is not None:
                check_mueller_value(R, J, Mg, name + ':mueller', f'{name}(alpha={a}, theta={th})')
    if kind == 'polarizer' and J is not None:
        Jl = valid(R, R.call(pol.linear_diattenuator, 0, theta=th), (2, 2), 'linear_diattenuator:value', 'linear_diattenuator(0)')
        if Jl is not None:
            R.expect_close(J, Jl, 4 * TOLU, name + ':value', 'linear_polarizer != linear_diattenuator(0)')
    R.nontrivial(True)
    R.outcome(kind)


# ---------------------------------------------------------------------------------------------
# unit: vector vortex retarder

def theta_values(shape, off, seed, pool):
    nb = int(np.prod(shape)) if len(shape) else 1
    vals = [pool[(off + k) % len(pool)] for k in range(nb)]
    return np.array(vals, dtype=float).reshape(shape)


def run_vortex(case, seed, R):
    charge, d, rotv, shape, off = case['charge'], case['ret'], case['rotate'], tuple(case['shape']), case['off']
    pool = case['pool']
    if off < 0:      # the seeded generic representative, on the case's azimuth convention
        lo, hi = (0.0, 2 * PI) if case.get('conv') == '0-2pi' else (-PI, PI)
        th = np.random.default_rng([int(seed), 20, abs(off), len(shape)]).uniform(lo, hi, size=shape)
    else:
        th = theta_values(shape, off, seed, pool)
    base = f'vector_vortex_retarder:{tag_ret(d)}'
    kw = {}
    if not case.get('defaults'):
        kw = {'retardance': d, 'rotate': rotv}
    arg = th.copy()
    J = R.call(pol.vector_vortex_retarder, charge, arg, sig=base + ':exception', **kw)
    if not np.array_equal(arg, th):
        R.outcome('mutates-theta')
    J = valid(R, J, shape + (2, 2), base + ':value', f'vvr(charge={charge}, theta{shape}, ret={d}, rotate={rotv})')
    if J is None:
        return
    want = np.array([vvr_ref(charge, t, d, rotv) for t in th.ravel()]).reshape(shape + (2, 2))
    check_unitary(R, J, base + ':unitary', f'charge={charge} ret={d} rotate={rotv} theta={th.ravel()[:4]}')
    R.expect_close(J, want, 32 * TOLU, base + ':value', f'vvr(charge={charge}, ret={d}, rotate={rotv}) vs Mawet eq. 7')
    check_mueller_of_unitary(R, J, base + ':mueller', f'vvr(charge={charge}, ret={d}, rotate={rotv})')
    # batched == element-by-element (0-d theta arrays, fresh each)
    if len(shape):
        elems = []
        for t in th.ravel():
            e = R.call(pol.vector_vortex_retarder, charge, np.array(float(t)), sig=base + ':exception', **kw)
            e = valid(R, e, (2, 2), base + ':value', 'vvr of a 0-d theta')
            if e is None:
                elems = None
                break
            elems.append(e)
        if elems is not None:
            R.expect_close(J, np.array(elems).reshape(shape + (2, 2)), 8 * TOLU, base + ':batch', f'batched vvr {shape} vs element-by-element')
    R.nontrivial(True)
    R.outcome(tag_ret(d))


# ---------------------------------------------------------------------------------------------
# unit: Jones -> Mueller, all ordered pairs

def matrix_pool(seed, tier):
    g = lambda salt: dense((2, 2), seed, salt=200 + salt)   # noqa
    q, _ = np.linalg.qr(g(1))
    u = g(2)[:, :1]
    v = g(3)[:, :1]
    pool = [
        ('identity', np.eye(2, dtype=complex), True),
        ('unitary-generic', q * np.exp(0.7j), True),
        ('unitary-rotator', Rref(0.4), True),                                   # real, non-symmetric
        ('singular-polariser', dia_ref(0.0, 0.4), False),
        ('singular-generic', u @ herm(v), False),                                # rank one, non-symmetric
        ('nilpotent', np.array([[0, 1], [0, 0]], dtype=complex), False),
        ('generic-1', g(4), False),
        ('generic-2', 0.5 * (1 + 1j) * g(5), False),
        # structurally special matrices (exact zeros / exactly real): where a fast path would branch
        ('diag(1,i)', np.diag([1, 1j]), True),                                                   # exactly diagonal, phases differ
        ('diag-complex', np.diag([0.8 * np.exp(0.3j), 0.5 * np.exp(-1.1j)]), False),
        ('antidiag-complex', np.array([[0, 1j], [np.exp(0.4j), 0]]), True),                       # exactly anti-diagonal
        ('real-generic', g(8).real.astype(complex), False),                                      # exactly real, non-symmetric
    ]
    if tier != 'quick':
        q2, _ = np.linalg.qr(g(6))
        pool += [('zero', np.zeros((2, 2), dtype=complex), False), ('diag-real', np.diag([1.0 + 0j, 0.5]), False),
                 ('generic-3', g(7), False), ('unitary-generic-2', q2, True)]
    return pool


def diagonal_members(pool):
    return [k for k, (_, J, _) in enumerate(pool) if J[0, 1] == 0 and J[1, 0] == 0]


def run_pair(case, seed, R):
    pool = matrix_pool(seed, case['tier'])
    (na, A, ua), (nb_, B, ub) = pool[case['i']], pool[case['j']]
    AB = A @ B
    scale = max(1.0, fro(A)) ** 2 * max(1.0, fro(B)) ** 2
    for bc in (True, False):
        path = 'broadcast' if bc else 'npkron'
        sig = f'jones_to_mueller:{path}'
        MA = valid(R, R.call(pol.jones_to_mueller, A.copy(), broadcast=bc, sig=sig + ':exception'), (4, 4), sig + ':value', f'M({na})', kind='f')
        MB = valid(R, R.call(pol.jones_to_mueller, B.copy(), broadcast=bc, sig=sig + ':exception'), (4, 4), sig + ':value', f'M({nb_})', kind='f')
        MAB = valid(R, R.call(pol.jones_to_mueller, AB.copy(), broadcast=bc, sig=sig + ':exception'), (4, 4), sig + ':value', f'M({na} {nb_})', kind='f')
        if MA is None or MB is None or MAB is None:
            continue
        R.expect_close(MAB, MA @ MB, 64 * TOLU * scale, sig + ':multiplicative', f'M(AB) != M(A)M(B), A={na} B={nb_}')
        R.expect_close(MA, mueller_ref(A), 64 * TOLU * scale, sig + ':value', f'M({na}) vs Stokes definition S(JE) = M S(E)')
        if ua:
            R.expect_close(MA @ MA.T, np.eye(4), 64 * TOLU, sig + ':orthogonal', f'M M^T != I for unitary {na}')
            R.expect_close(MA[0, 0], 1.0, 32 * TOLU, sig + ':orthogonal', f'M00 != 1 for unitary {na}')
        if ua and ub:
            R.expect_close(MAB @ MAB.T, np.eye(4), 64 * TOLU, sig + ':orthogonal', f'M(AB) not orthogonal, A={na} B={nb_}')
    k = valid(R, R.call(pol.broadcast_kron, A.copy(), B.copy()), (4, 4), 'broadcast_kron:value', 'broadcast_kron')
    if k is not None:
        R.expect_close(k, np.kron(A, B), 8 * TOLU * scale, 'broadcast_kron:value', f'broadcast_kron({na},{nb_}) vs np.kron')
    R.nontrivial(not (case['i'] == 0 and case['j'] == 0))
    R.outcome('unitary-pair' if ua and ub else ('unitary-left' if ua else 'general'))


def run_mueller_batch(case, seed, R):
    pool = matrix_pool(seed, case['tier'])
    shape, off, step = tuple(case['shape']), case['off'], case['step']
    nb = int(np.prod(shape))
    kind = case.get('kind', 'mixed')
    if kind == 'mixed':
        ia = [(off + k) % len(pool) for k in range(nb)]
        ib = [(off + step * k + 3) % len(pool) for k in range(nb)]
    else:           # every element exactly diagonal ('diagonal'), or all but the last one ('diagonal+1')
        dm = diagonal_members(pool)
        ia = [dm[(off + k) % len(dm)] for k in range(nb)]
        ib = [dm[(off + step * k + 1) % len(dm)] for k in range(nb)]
        if kind == 'diagonal+1':
            ia[-1] = ib[-1] = 6      # generic-1
    A = np.array([pool[k][1] for k in ia]).reshape(shape + (2, 2))
    B = np.array([pool[k][1] for k in ib]).reshape(shape + (2, 2))
    scale = max(1.0, max(fro(p[1]) for p in pool)) ** 4
    sig = f'jones_to_mueller:batch:{len(shape)}d'
    Ms = {}
    for nm, X in (('A', A), ('B', B), ('AB', A @ B)):
        M = valid(R, R.call(pol.jones_to_mueller, X.copy(), sig=sig + ':exception'), shape + (4, 4), sig + ':shape', f'M of a batch {shape}', kind='f')
        if M is None:
            return
        Ms[nm] = M
        el = []
        for x in X.reshape(-1, 2, 2):
            m = valid(R, R.call(pol.jones_to_mueller, x.copy(), sig=sig + ':exception'), (4, 4), 'jones_to_mueller:broadcast:value', 'M of one matrix', kind='f')
            if m is None:
                return
            el.append(m)
        R.expect_close(M, np.array(el).reshape(shape + (4, 4)), 16 * TOLU * scale, sig + ':elementwise', f'batched M {shape} vs one matrix at a time ({nm})')
        R.expect_close(M, np.array([mueller_ref(x) for x in X.reshape(-1, 2, 2)]).reshape(shape + (4, 4)), 64 * TOLU * scale, sig + ':value', 'batched M vs Stokes definition')
    R.expect_close(Ms['AB'], Ms['A'] @ Ms['B'], 64 * TOLU * scale, sig + ':multiplicative', f'batched M(AB) != M(A)M(B), shape {shape}')
    k = valid(R, R.call(pol.broadcast_kron, A.copy(), B.copy()), shape + (4, 4), 'broadcast_kron:batch', 'broadcast_kron of a batch')
    if k is not None:
        want = np.array([np.kron(a, b) for a, b in zip(A.reshape(-1, 2, 2), B.reshape(-1, 2, 2))]).reshape(shape + (4, 4))
        R.expect_close(k, want, 8 * TOLU * scale, 'broadcast_kron:batch', f'broadcast_kron {shape} vs np.kron per element')
    R.nontrivial(True)
    R.outcome('batch')


# ---------------------------------------------------------------------------------------------
# unit: Pauli

def run_pauli(case, seed, R):
    pool = matrix_pool(seed, case['tier'])
    shape = tuple(case['shape'])
    sigma = []
    for k in range(4):
        s = valid(R, R.call(pol.pauli_spin_matrix, k), (2, 2), 'pauli_spin_matrix:value', f'sigma_{k}')
        if s is None:
            return
        R.expect_equal(s, PAULI[k], 'pauli_spin_matrix:value', f'sigma_{k}')
        sigma.append(s)
        if shape:
            sb = valid(R, R.call(pol.pauli_spin_matrix, k, shape=list(shape)), shape + (2, 2), 'pauli_spin_matrix:shape', f'sigma_{k} with shape={shape}')
            if sb is not None:
                R.expect_equal(sb, np.broadcast_to(PAULI[k], shape + (2, 2)), 'pauli_spin_matrix:shape', f'sigma_{k} with shape={shape}')
        c = R.call(pol.pauli_coefficients, s.copy())
        try:
            c = FAILED if c is FAILED else np.array([complex(x) for x in c])
        except Exception as e:   # noqa
            R.violation('pauli_coefficients:value', f'unusable output: {e}')
            c = FAILED
        R.expect_close(c, np.eye(4)[k].astype(complex), 0, 'pauli_coefficients:value', f'coefficients of sigma_{k}')
    nb = int(np.prod(shape)) if shape else 1
    J = np.array([pool[(case['off'] + k) % len(pool)][1] for k in range(nb)]).reshape(shape + (2, 2))
    c = R.call(pol.pauli_coefficients, J.copy())
    if c is FAILED:
        return
    try:
        cs = [valid(R, x, shape, 'pauli_coefficients:shape', f'c_k of a batch {shape}') for x in c]
        if len(cs) != 4:
            raise ValueError(f'{len(cs)} coefficients')
    except Exception as e:   # noqa
        R.violation('pauli_coefficients:shape', f'unusable output: {e}')
        return
    if any(x is None for x in cs):
        return
    rec = sum(cs[k][..., None, None] * sigma[k] for k in range(4))
    R.expect_close(rec, J, 8 * TOLU * max(1.0, fro(J)), 'pauli:reconstruct', f'sum c_k sigma_k != J, shape {shape}')
    want = [np.trace(PAULI[k] @ J, axis1=-2, axis2=-1) / 2 for k in range(4)]
    for k in range(4):
        R.expect_close(cs[k], want[k], 8 * TOLU * max(1.0, fro(J)), 'pauli_coefficients:value', f'c_{k} != tr(sigma_{k} J)/2')
    # Jones matrices held in a REAL or INTEGER dtype (a rotator, a real polariser product, an integer test matrix): J01 != J10 makes the
    # sigma_2 coefficient imaginary, so the reconstruction needs complex coefficients from a real-dtype input
    th = 0.3 + 0.17 * case['off']
    reals = [('float64', np.array([[np.cos(th), -np.sin(th)], [np.sin(th), np.cos(th)]])),
             ('float32', np.array([[0.5, 1.25], [-0.75, 2.0]], dtype=np.float32)),
             ('int64', np.array([[1, 2], [-3, 4]])), ('int32', np.array([[0, 1], [-1, 0]], dtype=np.int32)),
             ('float64-batch', np.stack([np.array([[1.0, k + 1.0], [-(k + 2.0), 0.5 * k]]) for k in range(max(nb, 1))]).reshape(shape + (2, 2)))]
    for label, Jr in reals:
        c = R.call(pol.pauli_coefficients, Jr.copy(), sig='pauli_coefficients:real-dtype:exception')
        if c is FAILED:
            continue
        try:
            crs = [np.asarray(x) for x in c]
            rec = sum(crs[k][..., None, None] * PAULI[k] for k in range(4))
        except Exception as e:   # noqa
            R.violation('pauli:reconstruct:real-dtype', f'unusable output for a {label} matrix: {e}')
            continue
        R.expect_close(rec, Jr.astype(complex), 8 * TOLU * max(1.0, fro(Jr.astype(float))), 'pauli:reconstruct:real-dtype',
                       f'sum c_k sigma_k != J for a {label} Jones matrix with J01 != J10')
    R.nontrivial(True)
    R.outcome('pauli')


# ---------------------------------------------------------------------------------------------
# unit: batched constructors == element by element

CTOR = {
    'jones_rotation_matrix': (pol.jones_rotation_matrix, ['theta']),
    'linear_retarder': (pol.linear_retarder, ['retardance', 'theta']),
    'half_wave_plate': (pol.half_wave_plate, ['theta']),
    'quarter_wave_plate': (pol.quarter_wave_plate, ['theta']),
    'linear_diattenuator': (pol.linear_diattenuator, ['alpha', 'theta']),
    'linear_polarizer': (pol.linear_polarizer, ['theta']),
}


def ctor_ref(name, vals):
    t = vals.get('theta', 0.0)
    if name == 'jones_rotation_matrix':
        return Rref(t)
    if name == 'linear_retarder':
        return ret_ref(vals['retardance'], t)
    if name == 'half_wave_plate':
        return ret_ref(PI, t)
    if name == 'quarter_wave_plate':
        return ret_ref(PI / 2, t)
    if name == 'linear_diattenuator':
        return dia_ref(vals['alpha'], t)
    if name == 'linear_polarizer':
        return dia_ref(0.0, t)
    raise KeyError(name)


def arr_sig(name, arrays):
    if not arrays:
        return f'{name}:shape-only'
    if set(arrays) == {'alpha', 'theta'}:
        return f'{name}:array-both'
    order = sorted(arrays, key=lambda a: (a != 'theta', a))
    return f'{name}:array-' + '+'.join(order)


def run_ctor(case, seed, R):
    name, arrays, shape, off = case['ctor'], case['arrays'], tuple(case['shape']), case['off']
    f, params = CTOR[name]
    al = case['alpha_pools']
    nb = int(np.prod(shape))
    sig = arr_sig(name, arrays)
    per = []
    for k in range(nb):
        v = {}
        for p in params:
            pool = al[p]
            v[p] = pool[(off + (k if p in arrays else 0) * (1 if p == 'theta' else 2) + (1 if p != 'theta' else 0)) % len(pool)]
        per.append(v)
    kwargs = {}
    for p in params:
        if p in arrays:
            kwargs[p] = np.array([v[p] for v in per], dtype=float).reshape(shape)
        else:
            kwargs[p] = per[0][p]
    keep = {p: (a.copy() if isinstance(a, np.ndarray) else a) for p, a in kwargs.items()}
    J = R.call(f, **kwargs, shape=list(shape), sig=sig)
    for p, a in kwargs.items():
        if isinstance(a, np.ndarray) and not np.array_equal(a, keep[p]):
            R.outcome(f'mutates-{p}')
    J = valid(R, J, shape + (2, 2), sig, f'{name}({ {p: "array" if p in arrays else kwargs[p] for p in params} }, shape={shape})')
    if J is None:
        R.outcome('rejected')
        return
    el = []
    for v in per:
        e = valid(R, R.call(f, **v), (2, 2), f'{name}:value', f'{name}({v})')
        if e is None:
            return
        el.append(e)
    R.expect_close(J, np.array(el).reshape(shape + (2, 2)), 8 * TOLU, sig, f'{name} batched {shape} (arrays: {arrays}) vs element-by-element construction')
    R.expect_close(J, np.array([ctor_ref(name, v) for v in per]).reshape(shape + (2, 2)), 32 * TOLU, sig, f'{name} batched {shape} vs reference')
    if name in ('linear_retarder', 'half_wave_plate', 'quarter_wave_plate', 'jones_rotation_matrix'):
        check_unitary(R, J, sig, f'{name} batched {shape}')
    # broadcastable angle maps: one angle per ROW (M,1), per COLUMN (1,N) or a 1-D vector (N,) against shape=(M,N) -- equal to the
    # construction from the broadcast full map, element by element (cyclic repetition of the flattened data is not broadcasting)
    if arrays == ['theta'] and len(shape) == 2 and shape[0] > 1 and shape[1] > 1:
        M, N = shape
        pool = al['theta']
        forms = {'per-row': np.array([pool[(off + 3 * i) % len(pool)] for i in range(M)], dtype=float).reshape(M, 1),
                 'per-column': np.array([pool[(off + 1 + 2 * j) % len(pool)] for j in range(N)], dtype=float).reshape(1, N),
                 'vector': np.array([pool[(off + 2 + j) % len(pool)] for j in range(N)], dtype=float)}
        for fname, th in forms.items():
            kw = dict(kwargs, theta=th.copy())
            Jb = valid(R, R.call(f, **kw, shape=list(shape), sig=sig + f':{fname}'), shape + (2, 2), sig + f':{fname}', f'{name}(theta {fname} {th.shape}, shape={shape})')
            if Jb is None:
                continue
            full = np.broadcast_to(th, shape)
            want = np.array([ctor_ref(name, dict(per[0], theta=float(full[i, j]))) for i in range(M) for j in range(N)]).reshape(shape + (2, 2))
            R.expect_close(Jb, want, 32 * TOLU, sig + ':broadcast-theta', f'{name} with a {fname} angle map {th.shape} against shape={shape} vs the element-by-element reference of the broadcast map')
    R.nontrivial(bool(arrays))
    R.outcome('batched' if arrays else 'shape-only')


def run_vectors(case, seed, R):
    shape, off = tuple(case['shape']), case['off']
    nb = int(np.prod(shape))
    pool = case['pool']
    phi = np.array([pool[(off + k) % len(pool)] for k in range(nb)], dtype=float).reshape(shape)
    for deg in (False, True):
        arg = np.degrees(phi) if deg else phi.copy()
        E = valid(R, R.call(pol.linear_pol_vector, arg, degrees=deg), shape + (2, 1), 'linear_pol_vector:array', f'linear_pol_vector(array {shape}, degrees={deg})')
        if E is None:
            continue
        el = []
        for a in arg.ravel():
            e = valid(R, R.call(pol.linear_pol_vector, float(a), degrees=deg), (2,), 'linear_pol_vector:value', 'scalar linear_pol_vector')
            if e is None:
                el = None
                break
            el.append(e)
        if el is not None:
            R.expect_close(E[..., 0], np.array(el).reshape(shape + (2,)), 4 * TOLU, 'linear_pol_vector:array', f'array angle {shape} vs element-by-element')
        R.expect_close(E[..., 0], np.stack([np.cos(phi), np.sin(phi)], axis=-1), 8 * TOLU, 'linear_pol_vector:array', 'vs (cos, sin)')
    for hand, sgn in (('left', 1), ('right', -1)):
        e = valid(R, R.call(pol.circular_pol_vector, hand), (2,), 'circular_pol_vector:value', f'circular_pol_vector({hand})')
        if e is not None:
            R.expect_close(e, np.array([1, sgn * 1j]) / math.sqrt(2), 4 * TOLU, 'circular_pol_vector:value', f'circular_pol_vector({hand})')
            R.expect_close(stokes(e)[3], -sgn, 8 * TOLU, 'circular_pol_vector:value', 'handedness vs S3 convention')
        if off == 0:
            Eb = R.call(pol.circular_pol_vector, hand, shape=list(shape), sig='circular_pol_vector:shape')
            Eb = valid(R, Eb, shape + (2, 1), 'circular_pol_vector:shape', f'circular_pol_vector({hand}, shape={shape})')
            if Eb is not None and e is not None:
                R.expect_close(Eb[..., 0], np.broadcast_to(e, shape + (2,)), 4 * TOLU, 'circular_pol_vector:shape', f'circular_pol_vector({hand}, shape={shape}) vs the scalar vector')
    R.nontrivial(True)
    R.outcome('vectors')


# ---------------------------------------------------------------------------------------------
# unit: propagation adapter (in-process, through jones_adapter -- nothing is patched)

def F(form, v):
    """Argument-form marker inside a call description: the value v handed over as <form> (built fresh for every call by ``_mk``)."""
    return {'form': form, 'v': v}


def build_form(spec):
    """A FRESH object holding spec['v'] in the argument form spec['form'] (sequence forms for a list value, scalar forms otherwise)."""
    form, v = spec['form'], spec['v']
    if isinstance(v, (list, tuple)):
        v = list(v)
        if form == 'tuple':
            return tuple(v)
        if form == 'list':
            return list(v)
        if form in ('f64', 'f32', 'i64', 'i32'):
            return np.array(v, dtype={'f64': np.float64, 'f32': np.float32, 'i64': np.int64, 'i32': np.int32}[form])
        if form == 'npscalars':
            return tuple(np.float64(x) for x in v)
        if form == 'npints':
            return tuple(np.int64(x) for x in v)
        if form == '0d':
            return tuple(np.array(float(x)) for x in v)
        if form == 'strided':       # every other element of a longer float64 buffer (non-contiguous view)
            buf = np.full(2 * len(v) - 1, 9.0)
            buf[::2] = v
            return buf[::2]
        if form == 'range':         # two integers as a range with a step
            step = v[1] - v[0]
            return range(v[0], v[1] + (1 if step > 0 else -1), step)
        raise KeyError(form)
    if form == 'float':
        return float(v)
    if form == 'int':
        return int(v)
    if form in ('f64', 'f32', 'i64', 'u8'):
        return {'f64': np.float64, 'f32': np.float32, 'i64': np.int64, 'u8': np.uint8}[form](v)
    if form == '0d':
        return np.array(float(v))
    if form == '0di':
        return np.array(int(v))
    raise KeyError(form)


SHIFT_FORMS_F = ['list', 'f64', 'f32', 'npscalars', '0d', 'strided']     # besides the tuple of the base call forms
SHIFT_FORMS_I = ['i64', 'i32', 'range', 'list', 'npints']               # integer-valued shifts
Q_FORMS = ['float', 'f64', 'f32', '0d', 'i64', 'u8', '0di']


def _fixed_sampling_forms(base, shift_f, shift_i):
    """Argument-form alphabet of focus_fixed_sampling / unfocus_fixed_sampling (every form the unchanged routine answers correctly for,
    measured against the tuple / python-float form): a NON-ZERO shift with output_dx != 1 in every sequence form x both engines, shift
    passed positionally, output_samples forms, every scalar parameter as numpy scalar / 0-d array / integer type."""
    out = []
    for method in ('mdft', 'czt'):
        for form in SHIFT_FORMS_F:
            out.append(((*base, [5, 6]), {'shift': F(form, shift_f), 'method': method}, 'key' if form in ('f64', '0d') else False))
        for form in SHIFT_FORMS_I:
            out.append(((*base, [5, 6]), {'shift': F(form, shift_i), 'method': method}, 'key' if form == 'i64' else False))
        out.append(((*base, 5, F('f64', shift_f), method), {}, 'key'))
        for form in ('f64', '0d'):
            out.append((tuple(F(form, b) for b in base) + (5,), {'shift': shift_f, 'method': method}, False))
        for form in ('int', 'i64', 'u8'):
            out.append((tuple(F(form, b) if float(b).is_integer() else b for b in base) + (5,), {'shift': shift_f, 'method': method}, False))
    for form in ('range', 'npints'):
        out.append(((*base, F(form, [5, 6])), {'shift': shift_f}, False))
    out.append(((*base, F('i64', 5)), {'shift': shift_f}, False))
    for form in ('list', 'i64', 'i32', 'range'):      # the matrix-DFT engine rejects unhashable output_samples; the chirp-z engine takes them
        out.append(((*base, F(form, [5, 6])), {'shift': shift_f, 'method': 'czt'}, False))
    return out


def prop_calls(shape):
    """Call forms per routine: (positional args, keyword args, full).  full=True: the base forms, run on the whole Jones-field alphabet;
    full=False / 'key': argument-form variants (``F`` markers), run on the dense Jones field and a 2-D field; the 'key' ones (float64 / int64 /
    0-d array forms, the ones a routine can modify in place) are also run by the mixed and staged installation histories."""
    n0, n1 = shape
    calls = {
        'focus': [((2,), {}), ((1,), {}), ((), {'Q': 2})],
        'unfocus': [((2,), {}), ((1,), {}), ((), {'Q': 1.5})],
        'focus_fixed_sampling': [((0.5, 50.0, 0.6, 2.0, 5), {}), ((0.5, 50.0, 0.6, 2.0, [5, 6]), {'shift': [1.5, -2.0]}),
                                 ((0.5, 50.0), {'wavelength': 0.6, 'output_dx': 2.0, 'output_samples': 4, 'method': 'czt'})],
        'unfocus_fixed_sampling': [((2.0, 50.0, 0.6, 0.5, 5), {}), ((2.0, 50.0, 0.6, 0.5, [5, 6]), {'shift': [0.5, -1.0]}),
                                   ((2.0, 50.0), {'wavelength': 0.6, 'output_dx': 0.5, 'output_samples': 4, 'method': 'czt'})],
        'angular_spectrum': [((0.6, 0.5, 3.0), {}), ((0.6, 0.5, 3.0), {'Q': 1}), ((0.6, 0.5), {'z': 3.0, 'Q': 1, 'tf': 'tf'})],
    }
    calls = {n: [(a, k, True) for a, k in v] for n, v in calls.items()}
    for n in ('focus', 'unfocus'):
        for q in (2, 1, 1.5):
            for form in Q_FORMS:
                if form in ('i64', 'u8', '0di') and q != int(q):
                    continue
                calls[n].append(((F(form, q),), {}, False))
        calls[n].append(((), {'Q': F('0d', 2)}, 'key'))
    calls['focus_fixed_sampling'] += _fixed_sampling_forms((0.5, 50.0, 0.6, 2.0), [1.5, -2.0], [2, -4])
    calls['unfocus_fixed_sampling'] += _fixed_sampling_forms((2.0, 50.0, 0.6, 0.5), [0.5, -1.0], [1, -2])
    for form in ('f64', '0d'):
        calls['angular_spectrum'].append(((F(form, 0.6), F(form, 0.5), F(form, 3.0)), {}, 'key' if form == '0d' else False))
        calls['angular_spectrum'].append(((0.6, 0.5), {'z': F(form, 3.0), 'Q': 1, 'tf': 'tf'}, False))
    for form in ('int', 'i64', 'u8'):
        calls['angular_spectrum'].append(((0.6, 0.5, F(form, 3)), {'Q': 1}, False))
    for q in (2, 1):
        for form in Q_FORMS:
            calls['angular_spectrum'].append(((0.6, 0.5, 3.0), {'Q': F(form, q)}, False))
    return calls


def _describe(args, kw):
    d = lambda v: f"{v['form']}:{v['v']}" if _is_form(v) else ('<tf>' if isinstance(v, str) and v == 'tf' else repr(v))   # noqa
    return '(' + ', '.join([d(a) for a in args] + [f'{k}={d(v)}' for k, v in kw.items()]) + ')'


def _is_form(v):
    return isinstance(v, dict) and 'form' in v


def _mk(args, kw, shape, seed):
    """Concrete (args, kwargs) of a call description; every container / array / numpy scalar in it is a NEW object on every invocation."""
    conv = lambda v: build_form(v) if _is_form(v) else (tuple(v) if isinstance(v, list) else v)   # noqa
    kw = {k: conv(v) for k, v in kw.items()}
    args = tuple(conv(a) for a in args)
    if kw.get('tf') == 'tf':
        kw['tf'] = np.exp(1j * dense(shape, seed, salt=77, complex_=False))
    return args, kw


def _arg_snapshot(args, kw):
    """repr of every non-field argument, to detect that a routine changed a caller's argument object."""
    return repr([np.asarray(v).tolist() if isinstance(v, (np.ndarray, np.generic, range)) else
                 ([np.asarray(w).tolist() for w in v] if isinstance(v, (list, tuple)) else v) for v in list(args) + [kw[k] for k in sorted(kw)]])


SCALES = [1e-3, 1e-9, 1e-12]      # amplitude alphabet besides 1: small units, cross-polarisation leakage, far below any absolute tolerance


def jones_kinds():
    return ['4d'] + [f'4d:{i}{j}:{si}' for i in range(2) for j in range(2) for si in range(len(SCALES))] + [f'4d:all:{si}' for si in range(len(SCALES))]


def jones_input(shape, seed, kind):
    """Seeded dense Jones field; kind '4d:ij:k' scales component (i,j) alone by SCALES[k] (others stay O(1)), '4d:all:k' the whole field."""
    J = dense(tuple(shape) + (2, 2), seed, salt=300)
    if kind != '4d':
        _, ij, si = kind.split(':')
        if ij == 'all':
            J = J * SCALES[int(si)]
        else:
            J[..., int(ij[0]), int(ij[1])] *= SCALES[int(si)]
    return J


def comp_tol(want, k=64):
    """Relative tolerance PER Jones component: k * TOLU * max|component| (zero for an exactly-zero component)."""
    tol = np.empty(want.shape)
    for i in range(2):
        for j in range(2):
            tol[..., i, j] = k * TOLU * float(np.abs(want[..., i, j]).max())
    return tol


def jones_fields(shape, seed):
    J = dense(tuple(shape) + (2, 2), seed, salt=300)
    out = [('dense', J)]
    for i in range(2):
        for j in range(2):
            Z = np.zeros_like(J)
            Z[..., i, j] = J[..., i, j]
            out.append((f'only-J{i}{j}', Z))
    for kind in jones_kinds()[1:]:
        out.append((kind, jones_input(shape, seed, kind)))
    return out


def plain_eval(f, x, args, kw, R=None):
    """The never-patched routine on one 2-D field; None if it raises (then the relation has no right-hand side)."""
    if R is not None:
        R.tick()
    try:
        return np.asarray(f(x, *args, **kw))
    except Exception:   # noqa
        return None


def run_adapter(case, seed, R):
    name, shape = case['routine'], tuple(case['shape'])
    plain = getattr(prop, name)
    if hasattr(plain, '__wrapped__'):
        raise RuntimeError('prysm.propagation is patched inside the harness process')
    wrapped = R.call(pol.jones_adapter, plain)
    if wrapped is FAILED:
        return
    for ci, (args, kw, full) in enumerate(prop_calls(shape)[name]):
        full = full is True
        sig = f'jones_adapter:{name}' + ('' if full else ':argform')
        got_dense = None
        for fname, J in jones_fields(shape, seed):
            if not full and fname != 'dense':
                continue
            a, k = _mk(args, kw, shape, seed)
            snap = _arg_snapshot(a, k)
            reset_executors(PREC)
            # the argument objects (shift / samples / Q ... in their form) are explicit arguments of R.call: the hygiene layer sees them,
            # and the adapter hands the SAME objects to the scalar routine four times
            got = R.call(wrapped, J.copy(), *a, sig=sig + ':exception', **k)
            if got is not FAILED:
                R.expect(_arg_snapshot(a, k) == snap, sig + ':argument-changed', f'adapter({name}) call {ci} changed a caller\'s argument object: {snap} -> {_arg_snapshot(a, k)}')
            comps = {}
            ok = True
            for i in range(2):
                for j in range(2):
                    reset_executors(PREC)
                    a, k = _mk(args, kw, shape, seed)
                    c = plain_eval(plain, np.ascontiguousarray(J[..., i, j]), a, k, R)
                    if c is None:
                        ok = False
                        continue
                    comps[(i, j)] = c
            if not ok:
                R.outcome('plain-routine-raises')     # right-hand side undefined: not this property's business
                continue
            if got is FAILED:
                continue
            oshape = comps[(0, 0)].shape
            got = valid(R, got, oshape + (2, 2), sig + ':shape', f'adapter({name}) call {ci} on {fname} {shape}')
            if got is None:
                continue
            want = np.empty(oshape + (2, 2), dtype=complex)
            for (i, j), c in comps.items():
                want[..., i, j] = c
            R.expect_close(got, want, comp_tol(want), sig + ':componentwise', f'adapter({name}) call {ci} {_describe(args, kw)} on {fname} {shape} vs four plain propagations, each with fresh argument objects (relative per component)')
            if fname == 'dense':
                got_dense = got
            elif fname.startswith('4d:all:') and got_dense is not None:
                sc = SCALES[int(fname.split(':')[2])]
                R.expect_close(got, sc * got_dense, comp_tol(sc * got_dense), sig + ':homogeneous', f'adapter({name})(s J) != s adapter({name})(J), s={sc}, call {ci} {shape}')
        # scalar (2-D) fields pass straight through
        E = dense(shape, seed, salt=301)
        a, k = _mk(args, kw, shape, seed)
        reset_executors(PREC)
        w = plain_eval(plain, E.copy(), a, k, R)
        if w is None:
            R.outcome('plain-routine-raises')
            continue
        reset_executors(PREC)
        a, k = _mk(args, kw, shape, seed)
        g = R.call(wrapped, E.copy(), *a, sig=sig + ':exception', **k)
        R.expect_close(g, w, 8 * TOLU * max(1.0, float(np.abs(w).max())), sig + ':passthrough', f'adapter({name}) on a 2-D field, call {ci}')
    # apply_polarization_optic
    E = dense(shape, seed, salt=302)
    J = dense(shape + (2, 2), seed, salt=303)
    out = R.call(pol.apply_polarization_optic, E.copy(), J.copy())
    R.expect_close(out, J * E[..., None, None], 4 * TOLU * float(np.abs(J).max() * np.abs(E).max()), 'apply_polarization_optic', f'field * optic, shape {shape}')
    R.expect(getattr(wrapped, '__name__', None) == name, f'jones_adapter:{name}:wraps', 'functools.wraps lost the name')
    R.nontrivial(True)
    R.outcome(name)


# ---------------------------------------------------------------------------------------------
# unit: size thresholds (batch counts just above powers of two) -- vectorised reference, every element judged

_IRR = [0.6180339887498949, 0.7548776662466927, 0.5698402909980532, 0.8191725133961645, 0.3819660112501051, 0.4142135623730951, 0.7320508075688772]


def lattice(shape, k, lo, hi, seed):
    """Deterministic, pairwise distinct parameter field: lo + (hi - lo) * frac(i * irrational_k + offset), i the C-order index."""
    n = int(np.prod(shape))
    fr = (np.arange(n, dtype=float) * _IRR[k % len(_IRR)] + 0.137 * (k + 1) + 0.0101 * (int(seed) % 97)) % 1.0
    return (lo + (hi - lo) * fr).reshape(shape)


def rot_b(t):
    c, s_ = np.cos(t), np.sin(t)
    return np.stack([np.stack([c, s_], axis=-1), np.stack([-s_, c], axis=-1)], axis=-2).astype(complex)


def diag_b(d0, d1):
    D = np.zeros(np.shape(d1) + (2, 2), dtype=complex)
    D[..., 0, 0] = d0
    D[..., 1, 1] = d1
    return D


def ret_b(d, t):
    return rot_b(-t) @ diag_b(1.0, np.exp(1j * d)) @ rot_b(t)


def dia_b(a, t):
    return rot_b(-t) @ diag_b(1.0, a) @ rot_b(t)


def vvr_b(charge, th, d, rot):
    q = charge * th
    c, s_ = np.cos(q), np.sin(q)
    J = math.sin(d / 2) * np.stack([np.stack([c, s_], axis=-1), np.stack([s_, -c], axis=-1)], axis=-2).astype(complex)
    J[..., 0, 0] -= 1j * math.cos(d / 2)
    J[..., 1, 1] -= 1j * math.cos(d / 2)
    return Rref(-rot) @ J @ Rref(rot)


def stokes_b(E):
    ex, ey = E[..., 0], E[..., 1]
    x = np.conj(ex) * ey
    return np.stack([np.abs(ex) ** 2 + np.abs(ey) ** 2, np.abs(ex) ** 2 - np.abs(ey) ** 2, 2 * x.real, -2 * x.imag], axis=-1)


def mueller_b(J):
    """The Mueller matrices defined by S(J E) = M S(E), for a whole batch at once (same four probe states as ``mueller_ref``)."""
    sout = np.stack([stokes_b(J[..., :, 0] * e[0] + J[..., :, 1] * e[1]) for e in _PROBES], axis=-1)
    return sout @ _SIN_INV


def kron_b(A, B):
    return np.einsum('...ij,...kl->...ikjl', A, B).reshape(A.shape[:-2] + (4, 4))


def elem_fro_max(J):
    return float(np.sqrt((np.abs(J) ** 2).sum(axis=(-1, -2)).max()))


def run_threshold(case, seed, R):
    shape, group = tuple(case['shape']), case['group']
    n = int(np.prod(shape))
    hy = bool(case['hy'])
    tagn = 'nd' if len(shape) > 1 else '1d'
    call = lambda f, *a, **k: R.call(f, *a, hygiene=hy, **k)   # noqa
    if group == 'mueller':
        sig = f'threshold:jones_to_mueller:{tagn}'
        A = ret_b(lattice(shape, 0, -2 * PI, 2 * PI, seed), lattice(shape, 1, -PI, PI, seed)) @ ret_b(lattice(shape, 2, -2 * PI, 2 * PI, seed), lattice(shape, 3, -PI, PI, seed))
        A = A * np.exp(1j * lattice(shape, 4, -PI, PI, seed))[..., None, None]        # elliptical retarders with a varying global phase: unitary
        MA = valid(R, call(pol.jones_to_mueller, A, sig=sig + ':exception'), shape + (4, 4), sig + ':shape', f'M of {n} unitary matrices {shape}', kind='f')
        if MA is not None:
            R.expect_close(MA, mueller_b(A), 64 * TOLU, sig + ':value', f'batched M {shape} vs Stokes definition, every element (unitary batch)')
            R.expect_close(MA @ np.swapaxes(MA, -1, -2), np.broadcast_to(np.eye(4), MA.shape), 64 * TOLU, sig + ':orthogonal', f'M M^T != I, unitary batch {shape}')
            R.expect_close(MA[..., 0, 0], np.ones(shape), 32 * TOLU, sig + ':orthogonal', f'M00 != 1, unitary batch {shape}')
        if case.get('single'):
            R.nontrivial(True)
            R.outcome('threshold:mueller:single')
            return
        B = dense(shape + (2, 2), seed, salt=400)
        sb = max(1.0, elem_fro_max(B)) ** 2
        MB = valid(R, call(pol.jones_to_mueller, B, sig=sig + ':exception'), shape + (4, 4), sig + ':shape', f'M of {n} generic matrices {shape}', kind='f')
        if MB is not None:
            R.expect_close(MB, mueller_b(B), 64 * TOLU * sb, sig + ':value', f'batched M {shape} vs Stokes definition, every element (generic batch)')
        AB = A @ B
        MAB = valid(R, call(pol.jones_to_mueller, AB, sig=sig + ':exception'), shape + (4, 4), sig + ':shape', f'M of a product batch {shape}', kind='f')
        if MAB is not None and MA is not None and MB is not None:
            R.expect_close(MAB, MA @ MB, 64 * TOLU * sb, sig + ':multiplicative', f'batched M(AB) != M(A)M(B), every element, {shape}')
        K = valid(R, call(pol.broadcast_kron, A, B), shape + (4, 4), f'threshold:broadcast_kron:{tagn}', f'broadcast_kron of {shape}')
        if K is not None:
            R.expect_close(K, kron_b(A, B), 8 * TOLU * sb, f'threshold:broadcast_kron:{tagn}', f'broadcast_kron {shape} vs the Kronecker product of every element')
        c = call(pol.pauli_coefficients, B)
        if c is not FAILED:
            try:
                cs = [valid(R, x, shape, f'threshold:pauli_coefficients:{tagn}', f'c_k of {shape}') for x in c]
            except Exception as e:   # noqa
                R.violation(f'threshold:pauli_coefficients:{tagn}', f'unusable output: {e}')
                cs = [None]
            if len(cs) == 4 and all(x is not None for x in cs):
                rec = sum(cs[k][..., None, None] * PAULI[k] for k in range(4))
                R.expect_close(rec, B, 8 * TOLU * math.sqrt(sb), f'threshold:pauli_coefficients:{tagn}', f'sum c_k sigma_k != J, every element of {shape}')
            elif len(cs) != 4:
                R.violation(f'threshold:pauli_coefficients:{tagn}', f'{len(cs)} coefficients')
        R.nontrivial(True)
        R.outcome('threshold:mueller')
        return
    if group == 'ctor':
        d = lattice(shape, 0, -2 * PI, 2 * PI, seed)
        t = lattice(shape, 1, -PI, PI, seed)
        al = lattice(shape, 2, 0.0, 1.0, seed)
        for name, f, kw, want, unitary in (
                ('jones_rotation_matrix', pol.jones_rotation_matrix, {'theta': t}, rot_b(t), True),
                ('linear_retarder', pol.linear_retarder, {'retardance': d, 'theta': t}, ret_b(d, t), True),
                ('half_wave_plate', pol.half_wave_plate, {'theta': t}, ret_b(PI, t), True),
                ('quarter_wave_plate', pol.quarter_wave_plate, {'theta': t}, ret_b(PI / 2, t), True),
                ('linear_diattenuator', pol.linear_diattenuator, {'alpha': al, 'theta': t}, dia_b(al, t), False),
                ('linear_polarizer', pol.linear_polarizer, {'theta': t}, dia_b(0.0, t), False)):
            sig = f'threshold:{name}:{tagn}'
            J = valid(R, call(f, **{k: v.copy() for k, v in kw.items()}, shape=list(shape), sig=sig), shape + (2, 2), sig, f'{name} with arrays of shape {shape}')
            if J is None:
                continue
            R.expect_close(J, want, 32 * TOLU, sig, f'{name} batched {shape} vs reference, every element')
            if unitary:
                check_unitary(R, J, sig, f'{name} batched {shape}')
        th = lattice(shape, 3, 0.0, 2 * PI, seed)
        for charge, dd, rv in ((1.5, 2.0, 0.5), (2, PI, 0.0)):
            sig = f'threshold:vector_vortex_retarder:{tagn}'
            J = valid(R, call(pol.vector_vortex_retarder, charge, th.copy(), retardance=dd, rotate=rv, sig=sig), shape + (2, 2), sig, f'vvr on a theta grid {shape}')
            if J is not None:
                R.expect_close(J, vvr_b(charge, th, dd, rv), 32 * TOLU, sig, f'vvr(charge={charge}, ret={dd}, rotate={rv}) {shape} vs Mawet eq. 7, every element')
                check_unitary(R, J, sig, f'vvr {shape}')
        for deg in (False, True):
            sig = f'threshold:linear_pol_vector:{tagn}'
            E = valid(R, call(pol.linear_pol_vector, np.degrees(t) if deg else t.copy(), degrees=deg, sig=sig), shape + (2, 1), sig, f'linear_pol_vector(array {shape})')
            if E is not None:
                R.expect_close(E[..., 0], np.stack([np.cos(t), np.sin(t)], axis=-1), 8 * TOLU, sig, f'linear_pol_vector {shape} degrees={deg} vs (cos, sin), every element')
        for k in (1, 3):
            sig = f'threshold:pauli_spin_matrix:{tagn}'
            sb_ = valid(R, call(pol.pauli_spin_matrix, k, shape=list(shape), sig=sig), shape + (2, 2), sig, f'sigma_{k} with shape={shape}')
            if sb_ is not None:
                R.expect_equal(sb_, np.broadcast_to(PAULI[k], shape + (2, 2)), sig, f'sigma_{k} with shape={shape}')
        sig = f'threshold:circular_pol_vector:{tagn}'
        Eb = valid(R, call(pol.circular_pol_vector, 'left', shape=list(shape), sig=sig), shape + (2, 1), sig, f'circular_pol_vector(shape={shape})')
        if Eb is not None:
            R.expect_close(Eb[..., 0], np.broadcast_to(np.array([1, 1j]) / math.sqrt(2), shape + (2,)), 4 * TOLU, sig, f'circular_pol_vector(left, shape={shape})')
        R.nontrivial(True)
        R.outcome('threshold:ctor')
        return
    # group 'adapter': 2-D pupils; polarised == four plain propagations, every sample
    J = dense(shape + (2, 2), seed, salt=410)
    E = dense(shape, seed, salt=411)
    out = call(pol.apply_polarization_optic, E, J)
    R.expect_close(out, J * E[..., None, None], 4 * TOLU * float(np.abs(J).max() * np.abs(E).max()), f'threshold:apply_polarization_optic', f'field * optic, shape {shape}')
    for name, args, kw in (('focus', (1,), {}), ('unfocus', (2,), {}), ('angular_spectrum', (0.6, 0.5, 3.0), {'Q': 1}),
                           ('focus_fixed_sampling', (0.5, 50.0, 0.6, 2.0, (5, 6)), {'shift': (1.5, -2.0)}),
                           ('unfocus_fixed_sampling', (2.0, 50.0, 0.6, 0.5, 7), {'shift': (0.5, -1.0), 'method': 'czt'})):
        if n > 70000 and name == 'unfocus':
            continue
        plain = getattr(prop, name)
        sig = f'threshold:jones_adapter:{name}'
        wrapped = R.call(pol.jones_adapter, plain)
        if wrapped is FAILED:
            continue
        reset_executors(PREC)
        got = call(wrapped, J, *args, sig=sig + ':exception', **kw)
        comps = []
        for i in range(2):
            for j in range(2):
                reset_executors(PREC)
                comps.append(plain_eval(plain, np.ascontiguousarray(J[..., i, j]), args, kw, R))
        reset_executors(PREC)
        if any(c is None for c in comps):
            R.outcome('plain-routine-raises')
            continue
        got = valid(R, got, comps[0].shape + (2, 2), sig + ':shape', f'adapter({name}) on a pupil {shape}')
        if got is None:
            continue
        want = np.empty(comps[0].shape + (2, 2), dtype=complex)
        for q, c in enumerate(comps):
            want[..., q // 2, q % 2] = c
        R.expect_close(got, want, comp_tol(want), sig + ':componentwise', f'adapter({name}) on a pupil {shape} vs four plain propagations, every sample')
    R.nontrivial(True)
    R.outcome('threshold:adapter')


def threshold_cases(tier):
    quick = tier == 'quick'
    one_d = sorted({2 ** k + 1 for k in range(7, 17)} | {2 ** k + 2 ** (k - 1) + 3 for k in range(7, 17)})
    shapes = [[n] for n in one_d] + [[129, 3], [65, 65], [150, 150], [3, 50, 31], [181, 182], [300, 300], [257, 1030], [513, 513]]
    if not quick:
        shapes += [[4096], [2, 2049], [64, 64], [128, 128], [1000, 1100]]
    cases = []
    for shp in shapes:
        n = int(np.prod(shp))
        for prec in (64, 32):
            if prec == 32 and n > 2 ** 18:
                continue
            for group in ('mueller', 'ctor') + (('adapter',) if len(shp) == 2 and n <= 2 ** 19 else ()):
                cases.append({'group': group, 'shape': shp, 'hy': n <= 2 ** 15 + 2 ** 14 + 3, 'prec': prec})
    # one stack of more than 2^20 Jones matrices (a 1025 x 1025 Jones pupil): a single conversion in the quick tier, the full group in the thorough tier
    cases.append({'group': 'mueller', 'shape': [1025, 1025], 'hy': False, 'prec': 64, **({'single': True} if quick else {})})
    if not quick:
        cases.append({'group': 'ctor', 'shape': [1025, 1025], 'hy': False, 'prec': 64})
    return cases


# ---------------------------------------------------------------------------------------------
# unit: installation-count history, in a sub-process per case

_SUB = r'''
import sys, json, traceback
import numpy as np
spec, seed, outdir, prec = json.loads(sys.argv[1]), int(sys.argv[2]), sys.argv[3], int(sys.argv[4])
import prysm.propagation as P
import prysm.x.polarization as pol
from props import c20
c20.set_prec(prec)
before = {n: getattr(P, n) for n in dir(P) if callable(getattr(P, n)) and not n.startswith('_')}
res, meta = {}, {'stages': {}, 'calls': 0}


def evaluate(stage):
    m = {'errors': {}, 'mutated': [], 'changed': sorted(n for n, f in before.items() if getattr(P, n) is not f),
         'names': {n: getattr(getattr(P, n), '__name__', None) for n in pol.supported_propagation_funcs}}
    meta['stages'][str(stage)] = m
    for shape in c20.hist_shapes(spec):
        shape = tuple(shape)
        for name, calls in c20.prop_calls(shape).items():
            for ci, (args, kw, full) in enumerate(calls):
                if not c20.hist_entry(spec, full):
                    continue
                for kind in c20.hist_kinds(spec, full):
                    key = f'{stage}|{name}|{shape[0]}x{shape[1]}|{ci}|{kind}'
                    x = c20.dense(shape, seed, salt=301) if kind == '2d' else c20.jones_input(shape, seed, kind)
                    a, kk = c20._mk(args, kw, shape, seed)
                    snap = c20._arg_snapshot(a, kk)
                    c20.reset_executors(c20.PREC)
                    try:
                        res[key] = np.asarray(getattr(P, name)(x, *a, **kk))
                        meta['calls'] += 1
                    except Exception as e:
                        m['errors'][key] = f'{type(e).__name__}: {e}'
                    if c20._arg_snapshot(a, kk) != snap:
                        m['mutated'].append(f'{key}: {snap} -> {c20._arg_snapshot(a, kk)}')
        # the Wavefront methods route through the (possibly patched) module functions; 2-D data and Jones (N,M,2,2) data
        for label, mname, routine, margs, mkw in c20.WF_METHODS:
            for kind in ('2d', '4d'):
                key = f'{stage}|Wavefront.{label}|{shape[0]}x{shape[1]}|{kind}'
                x = c20.dense(shape, seed, salt=301) if kind == '2d' else c20.jones_input(shape, seed, '4d')
                a, kk = c20._mk(margs, mkw, shape, seed)
                snap = c20._arg_snapshot(a, kk)
                c20.reset_executors(c20.PREC)
                try:
                    w = P.Wavefront(x, 0.6, 0.5, space='psf' if mname.startswith('unfocus') else 'pupil')
                    res[key] = np.asarray(getattr(w, mname)(*a, **kk).data)
                    meta['calls'] += 1
                except Exception as e:
                    m['errors'][key] = f'{type(e).__name__}: {e}'
                if c20._arg_snapshot(a, kk) != snap:
                    m['mutated'].append(f'{key}: {snap} -> {c20._arg_snapshot(a, kk)}')


def run_mode(mode):
    seq = spec['seq']
    if not seq:
        evaluate(0)
    for n, ev in enumerate(seq, 1):
        if ev is None:
            pol.add_jones_propagation()
        elif isinstance(ev, dict):          # the user wraps one routine by hand
            setattr(P, ev['manual'], pol.jones_adapter(getattr(P, ev['manual'])))
        else:
            pol.add_jones_propagation(funcs_to_change={'list': list, 'tuple': tuple, 'set': set}[spec.get('form', 'list')](ev))
        if mode == 'staged' or n == len(seq):
            evaluate(n)
    np.savez(outdir + f'/res_{mode}.npz', **res)
    json.dump(meta, open(outdir + f'/meta_{mode}.json', 'w'))


# this process has only IMPORTED the library; every mode runs in its own forked child, i.e. from the pristine just-imported state
import os
for mode in spec.get('modes', ['final']):
    pid = os.fork()
    if pid == 0:
        code = 0
        try:
            run_mode(mode)
        except BaseException:
            traceback.print_exc()
            code = 1
        sys.stderr.flush()
        os._exit(code)
    if os.waitpid(pid, 0)[1] != 0:
        sys.exit(1)
'''

HIST_SHAPES = [[4, 4], [4, 6]]
# (label, Wavefront method, module routine it goes through, positional args, keyword args)
WF_METHODS = (('focus', 'focus', 'focus', (100.0, 2), {}), ('unfocus', 'unfocus', 'unfocus', (100.0, 2), {}),
              ('free_space', 'free_space', 'angular_spectrum', (3.0, 2), {}),
              ('focus_fixed_sampling', 'focus_fixed_sampling', 'focus_fixed_sampling', (100.0, 2.0, 5), {}),
              ('focus_fixed_sampling:shift-f64', 'focus_fixed_sampling', 'focus_fixed_sampling', (100.0, 2.0, 5), {'shift': F('f64', [1.5, -2.0])}),
              ('unfocus_fixed_sampling:shift-f64:czt', 'unfocus_fixed_sampling', 'unfocus_fixed_sampling', (100.0, 0.5, [5, 6]), {'shift': F('f64', [0.5, -1.0]), 'method': 'czt'}))


def hist_shapes(spec):
    return [[4, 6]] if spec.get('lite') else HIST_SHAPES


def hist_kinds(spec, full):
    return ['2d'] + (jones_kinds() if full is True and not spec.get('lite') else ['4d'])


def hist_entry(spec, full):
    """lite histories run the base call forms and the 'key' argument forms; the others every entry"""
    return full is not False or not spec.get('lite')


_REFS = {}     # (precision, seed, ...) -> results of the NEVER-patched routines of this process (deterministic; shared by the cases a worker runs)


def _ev_names(ev):
    if ev is None:
        return set(pol.supported_propagation_funcs)
    if isinstance(ev, dict):
        return {ev['manual']}
    return set(ev)


def run_history(case, seed, R):
    seq = case['seq']
    if any(hasattr(getattr(prop, n), '__wrapped__') for n in pol.supported_propagation_funcs):
        raise RuntimeError('prysm.propagation is patched inside the harness process')
    d = tempfile.mkdtemp(prefix='c20-')
    sigc = f'adapter-install:{"x" if all(e == seq[0] for e in seq) else "seq"}{len(seq)}'
    spec = {k: v for k, v in case.items() if k != 'prec'}
    try:
        env = dict(os.environ)
        here = [os.path.dirname(os.path.dirname(os.path.dirname(os.path.abspath(pol.__file__)))), os.path.dirname(os.path.dirname(os.path.abspath(__file__)))]
        env['PYTHONPATH'] = os.pathsep.join(here + ([env['PYTHONPATH']] if env.get('PYTHONPATH') else []))
        p = subprocess.run([sys.executable, '-W', 'ignore', '-c', _SUB, json.dumps(spec), str(int(seed)), d, str(PREC)],
                           env=env, capture_output=True, text=True, timeout=600)
        R.tick()
        if p.returncode != 0 or not all(os.path.exists(os.path.join(d, f'meta_{m}.json')) for m in case.get('modes', ['final'])):
            R.violation(sigc + ':subprocess', f'installing the adapter (history {seq}) and propagating failed:\n{p.stderr[-1500:]}')
            return
        loaded = {}
        for mode in case.get('modes', ['final']):
            with open(os.path.join(d, f'meta_{mode}.json')) as fh:
                m_ = json.load(fh)
            with np.load(os.path.join(d, f'res_{mode}.npz')) as z:
                loaded[mode] = (m_, {key: z[key] for key in z.files})
    finally:
        shutil.rmtree(d, ignore_errors=True)
    for mode, (meta_all, res) in loaded.items():
        R.tick(meta_all['calls'])
        _judge_history(case, spec, seed, R, mode == 'staged', meta_all, res)
    R.outcome(f'installs={len(seq)}')
    R.nontrivial(len(seq) > 0)


def _judge_history(case, spec, seed, R, staged, meta_all, res):
    seq = case['seq']
    refs = _REFS.setdefault((PREC, int(seed)), {})

    def ref2(name, shape, ci, args, kw):
        key = (name, shape, ci, '2d')
        if key not in refs:
            a, kk = _mk(args, kw, shape, seed)
            reset_executors(PREC)
            w = plain_eval(getattr(prop, name), dense(shape, seed, salt=301), a, kk)
            refs[key] = None if w is None else w.copy()
        return refs[key]

    def ref4(name, shape, ci, args, kw, kind, oshape):
        key = (name, shape, ci, kind)
        if key not in refs:
            J = jones_input(shape, seed, kind)
            want = np.empty(oshape + (2, 2), dtype=complex)
            for i in range(2):
                for j in range(2):
                    a, kk = _mk(args, kw, shape, seed)
                    reset_executors(PREC)
                    c = plain_eval(getattr(prop, name), np.ascontiguousarray(J[..., i, j]), a, kk)
                    want[..., i, j] = np.nan if c is None else c
            refs[key] = want
        return refs[key]

    stages = ([0] if not seq else (list(range(1, len(seq) + 1)) if staged else [len(seq)]))
    for n in stages:
        done = seq[:n]
        sig0 = f'adapter-install:{"x" if all(e == done[0] for e in done) else "seq"}{n}'
        after = f'after the installation history {done}'
        meta = meta_all['stages'].get(str(n))
        if meta is None:
            R.violation(sig0 + ':subprocess', f'no observations {after}')
            continue
        patched = set().union(*[_ev_names(e) for e in done]) if done else set()
        R.expect(set(meta['changed']) == patched, sig0 + ':patched-set', f'attributes of prysm.propagation that changed {after}: {meta["changed"]}, expected {sorted(patched)}')
        for nm_, nm in meta['names'].items():
            R.expect(nm == nm_, sig0 + ':wraps', f'propagation.{nm_}.__name__ is {nm!r} {after}')
        R.expect(not meta['mutated'], sig0 + ':argument-changed', f'a propagation call changed the caller\'s argument object {after}: {meta["mutated"][:3]}')
        for shape in hist_shapes(spec):
            shape = tuple(shape)
            for name, calls in prop_calls(shape).items():
                for ci, (args, kw, full) in enumerate(calls):
                    if not hist_entry(spec, full):
                        continue
                    key2 = f'{n}|{name}|{shape[0]}x{shape[1]}|{ci}|2d'
                    sig = f'{sig0}:{name}'
                    w2 = ref2(name, shape, ci, args, kw)
                    if w2 is None:
                        R.outcome('plain-routine-raises')
                        continue
                    tol = 64 * TOLU * max(1.0, float(np.abs(w2).max()))
                    if key2 in meta['errors']:
                        R.violation(sig + ':plain-broken', f'plain 2-D {name}{_describe(args, kw)} raised {after}: {meta["errors"][key2]}')
                    else:
                        R.expect_close(res.get(key2, FAILED), w2, tol, sig + ':plain-broken', f'plain 2-D {name}{_describe(args, kw)} (call {ci}, {shape}) {after}')
                    if name in patched:
                        for kind in hist_kinds(spec, full)[1:]:
                            key4 = f'{n}|{name}|{shape[0]}x{shape[1]}|{ci}|{kind}'
                            want = ref4(name, shape, ci, args, kw, kind, np.asarray(w2).shape)
                            if not np.all(np.isfinite(want)):
                                R.outcome('plain-routine-raises')
                                continue
                            if key4 in meta['errors']:
                                R.violation(sig + ':polarized', f'polarised {name}{_describe(args, kw)} raised {after}: {meta["errors"][key4]}')
                            else:
                                R.expect_close(res.get(key4, FAILED), want, comp_tol(want), sig + ':polarized',
                                               f'polarised {name}{_describe(args, kw)} (call {ci}, {shape}, field {kind}) {after} vs component-wise plain propagation (relative per component)')
                        R.nontrivial(True)
            for label, mname, routine, margs, mkw in WF_METHODS:
                space = 'psf' if mname.startswith('unfocus') else 'pupil'

                def wf_plain(x):
                    a, kk = _mk(margs, mkw, shape, seed)
                    reset_executors(PREC)
                    return np.array(getattr(prop.Wavefront(x, 0.6, 0.5, space=space), mname)(*a, **kk).data)

                for kind in ('2d', '4d'):
                    if kind == '4d' and routine not in patched:
                        continue
                    key = f'{n}|Wavefront.{label}|{shape[0]}x{shape[1]}|{kind}'
                    rk = ('Wavefront', label, shape, kind)
                    if rk not in refs:
                        if kind == '2d':
                            refs[rk] = wf_plain(dense(shape, seed, salt=301))
                        else:
                            J = jones_input(shape, seed, '4d')
                            comps = [wf_plain(np.ascontiguousarray(J[..., i, j])) for i in range(2) for j in range(2)]
                            want = np.empty(comps[0].shape + (2, 2), dtype=complex)
                            for q, c in enumerate(comps):
                                want[..., q // 2, q % 2] = c
                            refs[rk] = want
                    want = refs[rk]
                    wsig = f'{sig0}:Wavefront.{mname}' + (':polarized' if kind == '4d' else '')
                    what = f'Wavefront.{mname}{_describe(margs, mkw)} on {"Jones (N,M,2,2)" if kind == "4d" else "2-D"} data {shape} {after}'
                    if key in meta['errors']:
                        R.violation(wsig, f'{what} raised: {meta["errors"][key]}')
                    elif kind == '2d':
                        R.expect_close(res.get(key, FAILED), want, 64 * TOLU * max(1.0, float(np.abs(want).max())), wsig, what + ' vs the never-patched method')
                    else:
                        R.expect_close(res.get(key, FAILED), want, comp_tol(want), wsig, what + ' vs the never-patched method on each Jones component (relative per component)')


# ---------------------------------------------------------------------------------------------
# unit: precision / call history (module-level state shared between calls)

H_EVENTS = ['p32', 'p64', 'j2m', 'j2m_batch', 'retarder', 'vortex', 'adapter', 'pauli']
_H_U = ret_ref(0.3, 0.4) * np.exp(0.2j)                                   # a fixed unitary
_H_UB = np.array([ret_ref(0.3, 0.4), ret_ref(2.0, -1.2) * 1j, Rref(0.4)])  # a fixed batch of unitaries
_H_TH = np.array([0.4, -1.2, 2.5])


def _h_call(ev, seed):
    """(callable, args, kwargs) of a call event; arguments are fresh arrays every time."""
    if ev == 'j2m':
        return pol.jones_to_mueller, (_H_U.copy(),), {}
    if ev == 'j2m_batch':
        return pol.jones_to_mueller, (_H_UB.copy(),), {}
    if ev == 'retarder':
        return pol.linear_retarder, (0.3,), {'theta': 0.4}
    if ev == 'vortex':
        return pol.vector_vortex_retarder, (1.5, _H_TH.copy()), {'retardance': 2.0, 'rotate': 0.5}
    if ev == 'adapter':
        return pol.jones_adapter(prop.focus_fixed_sampling), (dense((4, 4, 2, 2), seed, salt=300), 0.5, 50.0, 0.6, 2.0, 5), {}
    if ev == 'pauli':
        return pol.pauli_spin_matrix, (3,), {}
    raise KeyError(ev)


def h_fresh(init, seed):
    fresh_state()
    set_prec(init['prec'])
    return {'last': None, 'trace': [], 'seed': seed}


def h_events(init, hist, st):
    return H_EVENTS


def h_apply(st, ev, R):
    st['last'] = None
    if ev == 'p32':
        set_prec(32)
    elif ev == 'p64':
        set_prec(64)
    else:
        f, a, k = _h_call(ev, st['seed'])
        out = R.call(f, *a, sig=f'history:{ev}:exception', **k)
        st['last'] = (ev, out)
        st['trace'].append((ev, PREC))
    return st


def h_check(st, init, hist, R):
    cfg = 32 if config.precision is np.float32 else 64
    R.expect(cfg == PREC, 'history:precision-changed-by-call', f'config.precision is {cfg} after {hist}, the history set {PREC}')
    if st['last'] is None:
        R.outcome('config')
        return
    ev, out = st['last']
    if out is FAILED:
        return
    prec = PREC
    eps = float(np.finfo(np.float32 if prec == 32 else np.float64).eps)
    # (a) the same call in a fresh library state under the current precision: same dtype, same value to eps(precision)
    clear_library_caches()
    set_prec(prec)
    f, a, k = _h_call(ev, st['seed'])
    want = np.asarray(f(*a, **k))
    R.tick()
    sig = f'history:{ev}:p{prec}:depends-on-prior-calls'
    got = valid(R, out, want.shape, sig, f'{ev} after {hist[:-1]}', kind='fc')
    if got is None:
        return
    R.expect(got.dtype == want.dtype, sig + ':dtype', f'{ev} after {hist[:-1]}: dtype {got.dtype}, a fresh state gives {want.dtype}')
    R.expect_close(got, want, 4 * eps * max(1.0, float(np.abs(want).max())), sig, f'{ev} after {hist[:-1]} differs from the same call in a fresh state (precision {prec})')
    # (b) the independent reference, at the accuracy of the CURRENT precision
    vs = f'history:{ev}:p{prec}:value'
    if ev in ('j2m', 'j2m_batch'):
        J = _H_U if ev == 'j2m' else _H_UB
        R.expect_close(got @ np.swapaxes(got, -1, -2), np.broadcast_to(np.eye(4), got.shape), 64 * TOLU, vs, f'M M^T != I at the accuracy of precision {prec}, after {hist[:-1]}')
        R.expect_close(got[..., 0, 0], np.ones(got.shape[:-2]), 32 * TOLU, vs, f'M00 != 1 at the accuracy of precision {prec}, after {hist[:-1]}')
        check_mueller_value(R, J, got, vs, f'{ev} after {hist[:-1]}')
    elif ev == 'retarder':
        R.expect_close(got, ret_ref(0.3, 0.4), 16 * TOLU, vs, f'linear_retarder after {hist[:-1]}')
        R.expect(got.dtype == np.dtype(config.precision_complex), vs + ':dtype', f'linear_retarder dtype {got.dtype} under precision {prec}')
    elif ev == 'vortex':
        R.expect_close(got, np.array([vvr_ref(1.5, t, 2.0, 0.5) for t in _H_TH]), 32 * TOLU, vs, f'vortex after {hist[:-1]}')
        check_unitary(R, got, vs, f'vortex after {hist[:-1]}')
    elif ev == 'pauli':
        R.expect_equal(got, PAULI[3], vs, 'sigma_3')
        R.expect(got.dtype == np.dtype(config.precision_complex), vs + ':dtype', f'pauli_spin_matrix dtype {got.dtype} under precision {prec}')
    elif ev == 'adapter':
        J = dense((4, 4, 2, 2), st['seed'], salt=300)
        comp = np.empty(got.shape, dtype=complex)
        for i in range(2):
            for j in range(2):
                reset_executors(prec)
                comp[..., i, j] = prop.focus_fixed_sampling(np.ascontiguousarray(J[..., i, j]), 0.5, 50.0, 0.6, 2.0, 5)
        R.expect_close(got, comp, comp_tol(comp), vs, f'adapter(focus_fixed_sampling) after {hist[:-1]} vs component-wise plain propagation')
    R.nontrivial(len(hist) > 1)
    R.outcome(f'{ev}:p{prec}')


def h_canon(st):
    # everything a later call could depend on: the precision now, and which calls ran under which precision, in order
    return (PREC, tuple(st['trace']))


# ---------------------------------------------------------------------------------------------

def plan(tier, seed):
    A = alphabets(tier)
    quick = tier == 'quick'
    elements = []
    for th in A['ang']:
        for th2 in A['ang']:
            elements.append({'kind': 'rotation', 'theta': th, 'theta2': th2})
        for d in A['ret']:
            elements.append({'kind': 'retarder', 'ret': d, 'theta': th})
        elements.append({'kind': 'hwp', 'theta': th})
        elements.append({'kind': 'qwp', 'theta': th})
        for a in A['dia']:
            elements.append({'kind': 'diattenuator', 'alpha': a, 'theta': th, 'phis': A['ang']})
        elements.append({'kind': 'polarizer', 'theta': th, 'phis': A['ang']})
    vshapes = [[]] + A['shapes']
    vortex = []
    for ch in A['charge']:
        for d in A['ret']:
            for rv in A['rot']:
                for shp in vshapes:
                    nb = int(np.prod(shp)) if shp else 1
                    for conv, apool in (('atan2', A['ang']), ('0-2pi', A['ang2pi'])):
                        offs = range(len(apool)) if nb == 1 else ((0, 1) if conv == 'atan2' else (0, 1, 3))
                        for off in offs:
                            vortex.append({'charge': ch, 'ret': d, 'rotate': rv, 'shape': shp, 'off': off, 'pool': apool, 'conv': conv})
                        vortex.append({'charge': ch, 'ret': d, 'rotate': rv, 'shape': shp, 'off': -1, 'pool': apool, 'conv': conv})
        for shp in vshapes:      # default retardance (half wave) and rotate
            vortex.append({'charge': ch, 'ret': PI, 'rotate': 0, 'shape': shp, 'off': 0, 'pool': A['ang'], 'conv': 'atan2', 'defaults': True})
            vortex.append({'charge': ch, 'ret': PI, 'rotate': 0, 'shape': shp, 'off': 2, 'pool': A['ang2pi'], 'conv': '0-2pi', 'defaults': True})
    npool = len(matrix_pool(seed, tier))
    ndiag = len(diagonal_members(matrix_pool(seed, tier)))
    pairs = [{'i': i, 'j': j, 'tier': tier} for i in range(npool) for j in range(npool)]
    mshapes = [[1]] + [s for s in A['shapes'] if s != [1]] + ([[8]] if quick else [[12], [3, 4]])
    mbatch = [{'shape': s, 'off': off, 'step': step, 'tier': tier, 'kind': 'mixed'} for s in mshapes for off in range(npool) for step in (1, 3)]
    mbatch += [{'shape': s, 'off': off, 'step': step, 'tier': tier, 'kind': kind} for kind in ('diagonal', 'diagonal+1') for s in mshapes
               for off in range(ndiag) for step in (1, 2) if not (kind == 'diagonal+1' and int(np.prod(s)) == 1)]
    pauli = [{'shape': s, 'off': off, 'tier': tier} for s in [[]] + mshapes for off in range(npool)]
    pools = {'theta': A['ang'], 'retardance': A['ret'], 'alpha': A['dia']}
    ctors = []
    for name, (_, params) in CTOR.items():
        subsets = [[]] + [[p] for p in params] + ([params] if len(params) > 1 else [])
        for arrays in subsets:
            for shp in A['shapes'] + ([[1]] if quick else []):
                noff = max(len(pools[p]) for p in params) if arrays else 2
                for off in range(noff):
                    ctors.append({'ctor': name, 'arrays': list(arrays), 'shape': shp, 'off': off, 'alpha_pools': pools})
    vectors = [{'shape': s, 'off': off, 'pool': A['ang']} for s in A['shapes'] for off in range(len(A['ang']))]
    ashapes = [[4, 4], [4, 6]] + ([] if quick else [[5, 5], [6, 3]])
    adapters = [{'routine': n, 'shape': s} for n in pol.supported_propagation_funcs for s in ashapes]
    # installation histories: every sequence of install events up to the depth, each in a fresh sub-process
    FS = ['focus_fixed_sampling', 'unfocus_fixed_sampling']
    ev_alpha = [None, ['focus'], ['unfocus'], ['angular_spectrum'], FS, {'manual': 'unfocus'}]
    if not quick:
        ev_alpha += [[], ['focus_fixed_sampling'], ['unfocus', 'angular_spectrum', 'focus_fixed_sampling']]
    seqs = [[]] + [[a] for a in ev_alpha] + [[a, b] for a in ev_alpha for b in ev_alpha]
    if not quick:
        deep = [None, ['focus'], ['unfocus', 'angular_spectrum', 'focus_fixed_sampling']]
        seqs += [[a, b, c] for a in deep for b in deep for c in deep] + [[a, a, a] for a in ev_alpha if a not in deep]
    homog = lambda q: all(e == q[0] for e in q)   # noqa
    hist64, hist32 = [], []
    for q_ in seqs:
        lite = not homog(q_)
        # 'staged': propagate after EVERY install event, every stage judged; both modes start from the pristine just-imported state
        hist64.append({'seq': q_, 'lite': lite, 'modes': ['final', 'staged'] if len(q_) >= 2 else ['final']})
        if not quick or len(q_) <= 1 or homog(q_) or None in q_:
            hist32.append({'seq': q_, 'lite': lite, 'modes': ['final']})
    for form in ('tuple', 'set'):
        hist64.append({'seq': [['focus', 'angular_spectrum']], 'lite': True, 'modes': ['final'], 'form': form})
        hist64.append({'seq': [['focus'], FS], 'lite': True, 'modes': ['final', 'staged'], 'form': form})
    hist = [dict(c, prec=64) for c in hist64] + [dict(c, prec=32) for c in hist32]
    both = lambda cases: [dict(c, prec=pr) for pr in (64, 32) for c in cases]   # noqa
    P2 = ' || every case runs under config.precision 64 and 32, from a fresh library state (functools caches and transform executors cleared), all tolerances are k * 32 eps(configured precision)'
    at = f"retardance {A['ret']}, angles {A['ang']}, diattenuation {A['dia']}"
    units = [
        ScopeUnit('elements', both(elements), at_precision(run_element),
                  f'every (element kind, parameter, orientation) over {at}: rotation matrix (value, inverse, group law over all angle pairs), '
                  'linear_retarder / half_wave_plate / quarter_wave_plate (J^H J = I, reference R(-t) diag(1,e^id) R(t), det, E(t) = R_lib(-t) E(0) R_lib(t), Mueller orthogonal with M00 = 1), '
                  'linear_diattenuator / linear_polarizer (reference, rotation law, P^2 = P, Malus law against every input angle through Jones vectors in radians and degrees and through the Mueller matrix)'),
        ScopeUnit('vortex', both(vortex), at_precision(run_vortex),
                  f"vector_vortex_retarder over charge {A['charge']} x retardance x rotate {A['rot']} x theta grids of shape () and {A['shapes']} filled from the angle alphabet at every offset, on both azimuth conventions ((-pi,pi] as from arctan2, and [0,2pi): {A['ang2pi']}); charges include half-integers and negatives "
                  '(plus one seeded generic grid): unitary at every point, equal to Mawet eq. 7 reference, Mueller orthogonal with M00 = 1, batched == element-by-element (fresh 0-d theta arrays); default-argument form too'),
        ScopeUnit('mueller_pairs', both(pairs), at_precision(run_pair),
                  f'ALL {npool * npool} ordered pairs (A, B) of a pool of {npool} complex 2x2 matrices (identity, seeded unitary, real rotator, singular polariser, seeded rank-one, nilpotent, seeded generic x2, exactly diagonal with unequal phases x2, exactly anti-diagonal complex, exactly real non-symmetric'
                  + ('' if quick else ', zero, real diagonal, generic, unitary') + '): M(AB) = M(A) M(B) through broadcast_kron and through np.kron; M(A) equals the Mueller matrix defined by S(JE) = M S(E); '
                  'unitary => M M^T = I, M00 = 1; broadcast_kron == np.kron'),
        ScopeUnit('mueller_batch', both(mbatch), at_precision(run_mueller_batch),
                  f'batches of shapes {mshapes} cut from the pool at every offset and two strides, plus all-exactly-diagonal batches and all-diagonal-but-one batches: batched jones_to_mueller == one matrix at a time == reference; batched multiplicativity; broadcast_kron == np.kron per element'),
        ScopeUnit('pauli', both(pauli), at_precision(run_pauli),
                  'pauli_spin_matrix (all four, with and without shape=) equal the documented basis; pauli_coefficients of sigma_k = e_k; sum_k c_k sigma_k reconstructs every pool matrix and every batch; c_k = tr(sigma_k J)/2'),
        ScopeUnit('batched_ctor', both(ctors), at_precision(run_ctor),
                  f"every constructor x every subset of its parameters passed as an array (with shape=) x shapes {A['shapes']} x every alphabet offset: batched == element-by-element scalar construction == reference; "
                  'also scalar parameters with shape= (constant field)'),
        ScopeUnit('vectors', both(vectors), at_precision(run_vectors),
                  'linear_pol_vector with array angles (radians and degrees) == element-by-element; circular_pol_vector both handednesses, value, S3 sign, and shape= form'),
        ScopeUnit('adapter', both(adapters), at_precision(run_adapter),
                  f'jones_adapter(f) for each of the five supported routines x shapes {ashapes} x three call forms (positional / keyword / shift / czt / explicit tf) x 20 Jones fields (seeded dense; each single component alone; each component alone scaled by {1e-3, 1e-9, 1e-12} with the others O(1); the whole field scaled likewise): '
                  'equal to four plain propagations of the components with a RELATIVE tolerance per component; homogeneity adapter(s J) = s adapter(J); 2-D fields pass through unchanged; apply_polarization_optic. '
                  'ARGUMENT-FORM alphabet (dense field + 2-D field per form; the argument objects are explicit R.call arguments so the hygiene layer snapshots them; the adapter receives ONE object and passes it to the scalar routine four times, '
                  'the right-hand side gets a fresh object per component; the caller\'s objects must be unchanged afterwards): focus / unfocus Q in {2, 1, 1.5} as ' + str(Q_FORMS) + '; fixed-sampling routines with a NON-ZERO shift and output_dx != 1, shift as '
                  + str(SHIFT_FORMS_F) + ' (float values) and ' + str(SHIFT_FORMS_I) + ' (integer values) x engines {mdft, czt}, shift positional, output_samples as range / numpy ints / numpy scalar (and list / int ndarray for czt), '
                  'all scalar parameters as np.float64 / 0-d array / int / np.int64 / np.uint8; angular_spectrum wvl, dx, z and Q in the same scalar forms. Forms the unchanged scalar routine rejects (list / ndarray output_samples with mdft) are outside the domain.'),
        ScopeUnit('install_history', hist, at_precision(run_history),
                  f'EVERY sequence of up to {2 if quick else 3} installation events over the alphabet {ev_alpha} (None = add_jones_propagation() with the default list; a list = add_jones_propagation(that subset); '
                  'manual = the user assigns jones_adapter(f) to the module attribute by hand)' + ('' if quick else '; depth 3 over {default, [focus], a three-element subset} and every event three times') + ', each in a fresh sub-process: '
                  'after the history exactly the UNION of the named attributes is replaced (partial-then-full, full-then-partial, disjoint and overlapping subsets, repeats), plain 2-D calls and Wavefront methods give the results of the '
                  'never-patched routines, polarised (N,M,2,2) calls through every routine in the union -- as module functions and through the Wavefront methods on Jones data (incl. float64-ndarray shifts) -- equal component-wise plain propagation (relative per component), no call changes a caller\'s argument object. '
                  'Each sequence of length >= 2 also runs "staged": the whole evaluation is made and judged after EVERY install event (call; install more; call again). Homogeneous sequences (the same event k times) use shapes (4,4) and (4,6), '
                  'three base call forms per routine on the dense field plus the amplitude-scale alphabet {1e-3,1e-9,1e-12} per component and overall; mixed and staged sequences use shape (4,6) and the dense field. '
                  'Every evaluation includes the argument-form alphabet of the adapter unit (shift as list / float64 / float32 / int ndarray / range / numpy scalars / 0-d arrays / strided view, x both engines; output_samples, Q and scalar parameter forms). '
                  'The subset container is also given as tuple and set. Precision 32 is crossed with the sequences of length <= 1, the homogeneous ones and those containing the default install' + ('' if quick else ' (all of them in this tier)') + '.', chunk=1),
        ScopeUnit('threshold', threshold_cases(tier), at_precision(run_threshold),
                  'size-threshold alphabet: batches of n = 2^k + 1 and 2^k + 2^(k-1) + 3 elements for k = 7..16 (1-D), leading shapes 129x3, 65x65, 150x150, 3x50x31, 181x182, 300x300, 257x1030, 513x513'
                  + ('' if quick else ', 4096, 2x2049, 64x64, 128x128, 1000x1100') + ' and one 1025x1025 Jones pupil (> 2^20 matrices; ' + ('a single unitary conversion' if quick else 'full groups') + '), under precision 64 and (up to 2^18 elements) 32. '
                  'Group mueller: jones_to_mueller of a batch of elliptical retarders with lattice-varying parameters (all elements distinct) == the Mueller matrix defined by S(JE) = M S(E) on EVERY element, M M^T = I, M00 = 1; of a seeded generic batch; '
                  'M(AB) = M(A) M(B) on every element; broadcast_kron == Kronecker product per element; Pauli coefficients reconstruct every element.  Group ctor: every constructor with array parameters + shape=, vector_vortex_retarder on a theta grid '
                  '(two settings), linear_pol_vector (radians, degrees), pauli_spin_matrix / circular_pol_vector with shape= against vectorised references on every element.  Group adapter (2-D shapes): apply_polarization_optic and jones_adapter(f) for the five routines '
                  '(one setting each) == four plain propagations on every sample.  Call hygiene variants (repeat, reused buffers, result held across a same-shape call, memory layout) are on up to 49155 elements and off above.  This unit is NOT closed over the data dimension (one or two probe inputs per size).', chunk=1),
        HistoryUnit('precision_history', [{'prec': 64}, {'prec': 32}], h_fresh, h_events, h_apply, h_check, h_canon, 3 if quick else 4,
                    f'BFS to depth {3 if quick else 4} from both initial precisions over events {H_EVENTS} (precision switches; jones_to_mueller of a fixed unitary and of a batch; linear_retarder; '
                    'vector_vortex_retarder; jones_adapter(focus_fixed_sampling) on a Jones field; pauli_spin_matrix): the last call equals, in dtype and to 4 eps(current precision), the same call made in a fresh '
                    'library state (functools caches found on the modules cleared, executors cleared) under the current precision, and meets its reference at the accuracy of the current precision; '
                    'canonical state = (precision, ordered list of (call, precision it ran under))', reset=fresh_state),
    ]
    for u in units:
        if u.kind == 'scope':
            u.rule += P2
    return units
