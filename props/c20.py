"""C20 -- Jones and Mueller calculus preserve the algebra of polarisation optics.

Conventions of the code under test (prysm/x/polarization.py), used by the reference model
-----------------------------------------------------------------------------------------
* documented rotation matrix  R(theta) = [[cos, sin], [-sin, cos]]  (``jones_rotation_matrix``);
  a rotated element is  E(theta) = R(-theta) E(0) R(theta).
* retarder E(0) = diag(1, exp(i delta)), diattenuator E(0) = diag(1, alpha) (alpha an amplitude factor).
* vortex retarder (Mawet et al. 2009, eq. 7):  sin(d/2) [[cos q, sin q], [sin q, -cos q]] - i cos(d/2) I,  q = charge*theta,
  conjugated with R(rotate).
* Stokes parameters (Chipman, Lam & Young, cited by ``jones_to_mueller``): S0 = |Ex|^2+|Ey|^2, S1 = |Ex|^2-|Ey|^2,
  S2 = 2 Re(Ex* Ey), S3 = -2 Im(Ex* Ey), i.e. S3 = +1 for the library's own ``circular_pol_vector('right')`` = (1, -i)/sqrt 2.
  The Mueller matrix of J is DEFINED by  S(J E) = M S(E)  for all E; the reference builds it from four probe states.
* Pauli basis: s0 = I, s1 = diag(1,-1), s2 = [[0,1],[1,0]], s3 = [[0,-i],[i,0]] (docstring of ``pauli_spin_matrix``).

``add_jones_propagation`` monkey-patches ``prysm.propagation``.  The harness process never calls it: the
installation-count part runs in one sub-process per case (``subprocess.run([sys.executable, '-c', ...])``,
PYTHONPATH inherited), so nothing can leak into other cases; the adapter itself is exercised in-process through
``jones_adapter(f)`` which patches nothing.
"""
import json
import math
import os
import shutil
import subprocess
import sys
import tempfile

import numpy as np

from mc import ScopeUnit, HistoryUnit, FAILED
from mc.linalg import dense
from mc.state import reset_executors

import prysm.x.polarization as pol
from prysm import propagation as prop
from prysm import fttools
from prysm.conf import config

ID = 'C20'
ASSUMPTIONS = [
    'rotation convention R(theta) = [[cos, sin], [-sin, cos]] and E(theta) = R(-theta) E(0) R(theta) as documented in jones_rotation_matrix / linear_retarder',
    'Stokes convention of Chipman-Lam-Young (S3 = +1 for the library\'s circular_pol_vector("right")); the Mueller matrix is defined by S(J E) = M S(E)',
    'jones_to_mueller(broadcast=False) (np.kron) is only claimed for a single 2x2 matrix; batches go through broadcast=True',
    'array-valued theta / retardance / alpha are passed together with shape=<their shape>, the documented way to obtain a spatially varying element; '
    'every array argument is a fresh float copy (vector_vortex_retarder multiplies the caller\'s theta in place: recorded as outcome "mutates-theta", not judged)',
    'the installation-count history runs in a sub-process per case and is compared with the never-patched routines of the harness process',
]

TOLU = 32 * np.finfo(float).eps    # tolerance unit: every oracle below is k * TOLU * scale; HEAD is silent at TOLU = 1 eps (all seeds, thorough): margin >= 32x
PREC = 64                          # the precision the current case runs under; TOLU follows it (32 * eps of that precision)


def set_prec(p):
    """Configure prysm's precision for the current case and tie the tolerance unit to it."""
    global PREC, TOLU
    PREC = int(p)
    TOLU = 32 * float(np.finfo(np.float32 if PREC == 32 else np.float64).eps)
    config.precision = PREC


_CACHES = None


def clear_library_caches():
    """A fresh process state as far as it can be reached from outside: every functools cache hanging off the modules
    this property touches is emptied, and the shared transform executors are cleared (precision is left alone)."""
    global _CACHES
    if _CACHES is None:
        import prysm.mathops, prysm.conf, prysm.coordinates   # noqa
        found = []
        for m in (pol, prop, fttools, prysm.mathops, prysm.conf, prysm.coordinates):
            for v in list(vars(m).values()):
                if callable(getattr(v, 'cache_clear', None)) and v not in found:
                    found.append(v)
        _CACHES = found
    for f in _CACHES:
        f.cache_clear()
    fttools.mdft.clear()
    fttools.czt.clear()


def fresh_state():
    clear_library_caches()
    set_prec(64)


def at_precision(run):
    """Run a scope case under case['prec'] (32 or 64) from a fresh library state; 32-bit violations get the suffix ':p32'."""
    def wrapped(case, seed, R):
        fresh_state()
        try:
            set_prec(case.get('prec', 64))
            n0 = len(R.violations)
            try:
                run(case, seed, R)
            finally:
                if PREC == 32:
                    for v in R.violations[n0:]:
                        v['sig'] += ':p32'
                    R.outcome('p32')
        finally:
            fresh_state()
    wrapped.__name__ = getattr(run, '__name__', 'run')
    return wrapped

PI = math.pi
I2 = np.eye(2)


def alphabets(tier):
    q = tier == 'quick'
    return {
        'ret': [0.0, 0.3, PI / 2, PI, 2.0, 2 * PI] + ([] if q else [-0.7, 4.5]),
        'ang': [0.0, 0.4, -1.2, PI / 2] + ([] if q else [PI, -PI / 2, 2.9, 1e-3]),
        'dia': [0.0, 0.2, 1.0] + ([] if q else [0.5, 0.999]),
        'charge': [1, 2, 6, -2, 0.5, 1.5, -0.5, 3] + ([] if q else [0, 2.5, -1.5]),
        # azimuth on the other common convention, [0, 2 pi): values beyond pi matter for non-integer charge (branch of exp(i theta)**charge)
        'ang2pi': [0.0, 0.4, 2 * PI - 1.2, PI / 2, PI, 3 * PI / 2, 5.5],
        'rot': [0.0, 0.5] + ([] if q else [-1.3]),
        'shapes': [[3], [2, 3], [2, 1, 2]] + ([] if q else [[1], [4, 1]]),
    }


# ---------------------------------------------------------------------------------------------
# reference model

def Rref(t):
    c, s = math.cos(t), math.sin(t)
    return np.array([[c, s], [-s, c]], dtype=complex)


def ret_ref(delta, theta):
    return Rref(-theta) @ np.diag([1, np.exp(1j * delta)]) @ Rref(theta)


def dia_ref(alpha, theta):
    return Rref(-theta) @ np.diag([1.0 + 0j, alpha]) @ Rref(theta)


def vvr_ref(charge, theta, delta, rot):
    q = charge * theta
    c, s = math.cos(q), math.sin(q)
    J = math.sin(delta / 2) * np.array([[c, s], [s, -c]], dtype=complex) - 1j * math.cos(delta / 2) * I2
    return Rref(-rot) @ J @ Rref(rot)


def stokes(E):
    ex, ey = E[0], E[1]
    return np.array([abs(ex) ** 2 + abs(ey) ** 2, abs(ex) ** 2 - abs(ey) ** 2,
                     2 * (np.conj(ex) * ey).real, -2 * (np.conj(ex) * ey).imag])


_PROBES = [np.array([1, 0], dtype=complex), np.array([0, 1], dtype=complex),
           np.array([1, 1], dtype=complex) / math.sqrt(2), np.array([1, -1j]) / math.sqrt(2)]
_SIN_INV = np.linalg.inv(np.stack([stokes(e) for e in _PROBES], axis=1))


def mueller_ref(J):
    sout = np.stack([stokes(J @ e) for e in _PROBES], axis=1)
    return sout @ _SIN_INV


PAULI = [np.eye(2, dtype=complex), np.diag([1.0 + 0j, -1]), np.array([[0, 1], [1, 0]], dtype=complex), np.array([[0, -1j], [1j, 0]])]


def herm(J):
    return np.conj(np.swapaxes(J, -1, -2))


def fro(J):
    return float(np.sqrt((np.abs(J) ** 2).sum()))


def valid(R, out, shape, sig, what, kind='fc'):
    """Validated ndarray of the implementation output, or None (and a violation)."""
    if out is FAILED:
        return None
    try:
        a = np.asarray(out)
        if a.shape != tuple(shape):
            R.violation(sig, f'{what}: shape {a.shape} != expected {tuple(shape)}')
            return None
        if a.dtype.kind not in kind:
            R.violation(sig, f'{what}: dtype {a.dtype}')
            return None
        if not np.all(np.isfinite(a)):
            R.violation(sig, f'{what}: non-finite output')
            return None
        return a
    except Exception as e:   # noqa
        R.violation(sig, f'{what}: unusable output ({type(e).__name__}: {e})')
        return None


def check_unitary(R, J, sig, what):
    R.expect_close(herm(J) @ J, np.broadcast_to(I2, J.shape), 32 * TOLU, sig, f'J^H J != I: {what}')


def check_mueller_of_unitary(R, J, sig, what):
    M = R.call(pol.jones_to_mueller, J, sig=sig)
    M = valid(R, M, J.shape[:-2] + (4, 4), sig, f'jones_to_mueller({what})', kind='f')
    if M is None:
        return
    R.expect_close(M @ np.swapaxes(M, -1, -2), np.broadcast_to(np.eye(4), M.shape), 64 * TOLU, sig, f'M M^T != I for unitary {what}')
    R.expect_close(M[..., 0, 0], np.ones(M.shape[:-2]), 32 * TOLU, sig, f'M00 != 1 for unitary {what}')
    check_mueller_value(R, J, M, sig, what)


def check_mueller_value(R, J, M, sig, what):
    """M against the Mueller matrix defined by S(J E) = M S(E), element by element of a batch."""
    want = np.array([mueller_ref(x) for x in np.asarray(J).reshape(-1, 2, 2)]).reshape(np.asarray(J).shape[:-2] + (4, 4))
    R.expect_close(M, want, 64 * TOLU * max(1.0, fro(np.asarray(J).reshape(-1, 2, 2)[0])) ** 2, sig, f'jones_to_mueller({what}) vs Stokes definition S(JE) = M S(E)')


def tag_ret(d):
    return 'halfwave' if d == PI else 'general'


# ---------------------------------------------------------------------------------------------
# unit: scalar elements

def run_element(case, seed, R):
    kind, th = case['kind'], case['theta']
    rot = R.call(pol.jones_rotation_matrix, th)
    derot = R.call(pol.jones_rotation_matrix, -th)
    rot = valid(R, rot, (2, 2), 'jones_rotation_matrix:value', f'R({th})')
    derot = valid(R, derot, (2, 2), 'jones_rotation_matrix:value', f'R({-th})')
    if rot is not None:
        R.expect_close(rot, Rref(th), 8 * TOLU, 'jones_rotation_matrix:value', f'R({th}) vs [[c,s],[-s,c]]')
    if rot is not None and derot is not None:
        R.expect_close(derot @ rot, I2, 16 * TOLU, 'jones_rotation_matrix:inverse', f'R(-t) R(t) != I, t={th}')
    if kind == 'rotation':
        th2 = case['theta2']
        a = valid(R, R.call(pol.jones_rotation_matrix, th2), (2, 2), 'jones_rotation_matrix:value', f'R({th2})')
        ab = valid(R, R.call(pol.jones_rotation_matrix, th + th2), (2, 2), 'jones_rotation_matrix:value', f'R({th + th2})')
        if rot is not None and a is not None and ab is not None:
            R.expect_close(rot @ a, ab, 16 * TOLU, 'jones_rotation_matrix:group', f'R(a) R(b) != R(a+b), a={th} b={th2}')
        if rot is not None:
            check_unitary(R, rot, 'jones_rotation_matrix:unitary', f'R({th})')
        R.nontrivial(th != 0 or th2 != 0)
        R.outcome('rotation')
        return
    if kind in ('retarder', 'hwp', 'qwp'):
        d = {'hwp': PI, 'qwp': PI / 2}.get(kind, case.get('ret'))
        name = {'retarder': 'linear_retarder', 'hwp': 'half_wave_plate', 'qwp': 'quarter_wave_plate'}[kind]
        if kind == 'retarder':
            J = R.call(pol.linear_retarder, d, theta=th)
            J0 = R.call(pol.linear_retarder, d)
            Jp = R.call(pol.linear_retarder, d, th)
        elif kind == 'hwp':
            J, J0, Jp = R.call(pol.half_wave_plate, theta=th), R.call(pol.half_wave_plate), R.call(pol.half_wave_plate, th)
        else:
            J, J0, Jp = R.call(pol.quarter_wave_plate, theta=th), R.call(pol.quarter_wave_plate), R.call(pol.quarter_wave_plate, th)
        J = valid(R, J, (2, 2), name + ':value', f'{name}(ret={d}, theta={th})')
        J0 = valid(R, J0, (2, 2), name + ':value', f'{name}(ret={d}, theta=0)')
        Jp = valid(R, Jp, (2, 2), name + ':value', f'{name}(ret={d}, {th}) positional')
        if J is not None:
            check_unitary(R, J, name + ':unitary', f'ret={d} theta={th}')
            R.expect_close(J, ret_ref(d, th), 16 * TOLU, name + ':value', f'{name}(ret={d}, theta={th}) vs R(-t) diag(1,e^id) R(t)')
            R.expect_close(np.linalg.det(J), np.exp(1j * d), 16 * TOLU, name + ':value', f'det != exp(i ret), ret={d} theta={th}')
            check_mueller_of_unitary(R, J, name + ':mueller', f'{name}(ret={d}, theta={th})')
            if Jp is not None:
                R.expect_equal(Jp, J, name + ':value', 'positional theta != keyword theta')
        if J is not None and J0 is not None and rot is not None and derot is not None:
            R.expect_close(J, derot @ J0 @ rot, 16 * TOLU, name + ':rotation-law', f'E(t) != R(-t) E(0) R(t), ret={d} t={th}')
        if kind != 'retarder' and J is not None:
            Jl = valid(R, R.call(pol.linear_retarder, d, theta=th), (2, 2), 'linear_retarder:value', 'linear_retarder')
            if Jl is not None:
                R.expect_close(J, Jl, 4 * TOLU, name + ':value', f'{name}(theta={th}) != linear_retarder({d}, theta)')
        R.nontrivial(d % (2 * PI) != 0 or th != 0)
        R.outcome(kind)
        return
    # diattenuators / polarisers
    a = 0.0 if kind == 'polarizer' else case['alpha']
    name = 'linear_polarizer' if kind == 'polarizer' else 'linear_diattenuator'
    if kind == 'polarizer':
        J, J0 = R.call(pol.linear_polarizer, theta=th), R.call(pol.linear_polarizer)
    else:
        J, J0 = R.call(pol.linear_diattenuator, a, theta=th), R.call(pol.linear_diattenuator, a)
    J = valid(R, J, (2, 2), name + ':value', f'{name}(alpha={a}, theta={th})')
    J0 = valid(R, J0, (2, 2), name + ':value', f'{name}(alpha={a})')
    if J is not None:
        R.expect_close(J, dia_ref(a, th), 16 * TOLU, name + ':value', f'{name}(alpha={a}, theta={th}) vs R(-t) diag(1,a) R(t)')
        if J0 is not None and rot is not None and derot is not None:
            R.expect_close(J, derot @ J0 @ rot, 16 * TOLU, name + ':rotation-law', f'E(t) != R(-t) E(0) R(t), alpha={a} t={th}')
        if a == 0:
            R.expect_close(J @ J, J, 16 * TOLU, name + ':idempotent', f'P^2 != P, theta={th}')
            M = valid(R, R.call(pol.jones_to_mueller, J), (4, 4), 'jones_to_mueller:value', 'M(polariser)', kind='f')
            if M is not None:
                check_mueller_value(R, J, M, name + ':mueller', f'{name}(alpha={a}, theta={th})')
            for phi in case['phis']:
                want = math.cos(th - phi) ** 2
                for deg in (False, True):
                    E = R.call(pol.linear_pol_vector, math.degrees(phi) if deg else phi, degrees=deg)
                    E = valid(R, E, (2,), 'linear_pol_vector:value', f'linear_pol_vector({phi})')
                    if E is None:
                        continue
                    R.expect_close(E, [math.cos(phi), math.sin(phi)], 8 * TOLU, 'linear_pol_vector:value', f'linear_pol_vector({phi}, degrees={deg})')
                    out = J @ E
                    R.expect_close((np.abs(out) ** 2).sum(), want, 32 * TOLU, name + ':malus', f'|P({th}) E({phi})|^2 != cos^2')
                if M is not None:
                    S = np.array([1, math.cos(2 * phi), math.sin(2 * phi), 0])
                    R.expect_close((M @ S)[0], want, 32 * TOLU, name + ':malus:mueller', f'Mueller Malus theta={th} phi={phi}')
        if a == 1:
            R.expect_close(J, I2, 16 * TOLU, name + ':value', 'alpha=1 is not the identity')
        if a != 0:
            Mg = valid(R, R.call(pol.jones_to_mueller, J), (4, 4), 'jones_to_mueller:value', 'M(diattenuator)', kind='f')
            if Mg is not None:
                check_mueller_value(R, J, Mg, name + ':mueller', f'{name}(alpha={a}, theta={th})')
    if kind == 'polarizer' and J is not None:
        Jl = valid(R, R.call(pol.linear_diattenuator, 0, theta=th), (2, 2), 'linear_diattenuator:value', 'linear_diattenuator(0)')
        if Jl is not None:
            R.expect_close(J, Jl, 4 * TOLU, name + ':value', 'linear_polarizer != linear_diattenuator(0)')
    R.nontrivial(True)
    R.outcome(kind)


# ---------------------------------------------------------------------------------------------
# unit: vector vortex retarder

def theta_values(shape, off, seed, pool):
    nb = int(np.prod(shape)) if len(shape) else 1
    vals = [pool[(off + k) % len(pool)] for k in range(nb)]
    return np.array(vals, dtype=float).reshape(shape)


def run_vortex(case, seed, R):
    charge, d, rotv, shape, off = case['charge'], case['ret'], case['rotate'], tuple(case['shape']), case['off']
    pool = case['pool']
    if off < 0:      # the seeded generic representative, on the case's azimuth convention
        lo, hi = (0.0, 2 * PI) if case.get('conv') == '0-2pi' else (-PI, PI)
        th = np.random.default_rng([int(seed), 20, abs(off), len(shape)]).uniform(lo, hi, size=shape)
    else:
        th = theta_values(shape, off, seed, pool)
    base = f'vector_vortex_retarder:{tag_ret(d)}'
    kw = {}
    if not case.get('defaults'):
        kw = {'retardance': d, 'rotate': rotv}
    arg = th.copy()
    J = R.call(pol.vector_vortex_retarder, charge, arg, sig=base + ':exception', **kw)
    if not np.array_equal(arg, th):
        R.outcome('mutates-theta')
    J = valid(R, J, shape + (2, 2), base + ':value', f'vvr(charge={charge}, theta{shape}, ret={d}, rotate={rotv})')
    if J is None:
        return
    want = np.array([vvr_ref(charge, t, d, rotv) for t in th.ravel()]).reshape(shape + (2, 2))
    check_unitary(R, J, base + ':unitary', f'charge={charge} ret={d} rotate={rotv} theta={th.ravel()[:4]}')
    R.expect_close(J, want, 32 * TOLU, base + ':value', f'vvr(charge={charge}, ret={d}, rotate={rotv}) vs Mawet eq. 7')
    check_mueller_of_unitary(R, J, base + ':mueller', f'vvr(charge={charge}, ret={d}, rotate={rotv})')
    # batched == element-by-element (0-d theta arrays, fresh each)
    if len(shape):
        elems = []
        for t in th.ravel():
            e = R.call(pol.vector_vortex_retarder, charge, np.array(float(t)), sig=base + ':exception', **kw)
            e = valid(R, e, (2, 2), base + ':value', 'vvr of a 0-d theta')
            if e is None:
                elems = None
                break
            elems.append(e)
        if elems is not None:
            R.expect_close(J, np.array(elems).reshape(shape + (2, 2)), 8 * TOLU, base + ':batch', f'batched vvr {shape} vs element-by-element')
    R.nontrivial(True)
    R.outcome(tag_ret(d))


# ---------------------------------------------------------------------------------------------
# unit: Jones -> Mueller, all ordered pairs

def matrix_pool(seed, tier):
    g = lambda salt: dense((2, 2), seed, salt=200 + salt)   # noqa
    q, _ = np.linalg.qr(g(1))
    u = g(2)[:, :1]
    v = g(3)[:, :1]
    pool = [
        ('identity', np.eye(2, dtype=complex), True),
        ('unitary-generic', q * np.exp(0.7j), True),
        ('unitary-rotator', Rref(0.4), True),                                   # real, non-symmetric
        ('singular-polariser', dia_ref(0.0, 0.4), False),
        ('singular-generic', u @ herm(v), False),                                # rank one, non-symmetric
        ('nilpotent', np.array([[0, 1], [0, 0]], dtype=complex), False),
        ('generic-1', g(4), False),
        ('generic-2', 0.5 * (1 + 1j) * g(5), False),
        # structurally special matrices (exact zeros / exactly real): where a fast path would branch
        ('diag(1,i)', np.diag([1, 1j]), True),                                                   # exactly diagonal, phases differ
        ('diag-complex', np.diag([0.8 * np.exp(0.3j), 0.5 * np.exp(-1.1j)]), False),
        ('antidiag-complex', np.array([[0, 1j], [np.exp(0.4j), 0]]), True),                       # exactly anti-diagonal
        ('real-generic', g(8).real.astype(complex), False),                                      # exactly real, non-symmetric
    ]
    if tier != 'quick':
        q2, _ = np.linalg.qr(g(6))
        pool += [('zero', np.zeros((2, 2), dtype=complex), False), ('diag-real', np.diag([1.0 + 0j, 0.5]), False),
                 ('generic-3', g(7), False), ('unitary-generic-2', q2, True)]
    return pool


def diagonal_members(pool):
    return [k for k, (_, J, _) in enumerate(pool) if J[0, 1] == 0 and J[1, 0] == 0]


def run_pair(case, seed, R):
    pool = matrix_pool(seed, case['tier'])
    (na, A, ua), (nb_, B, ub) = pool[case['i']], pool[case['j']]
    AB = A @ B
    scale = max(1.0, fro(A)) ** 2 * max(1.0, fro(B)) ** 2
    for bc in (True, False):
        path = 'broadcast' if bc else 'npkron'
        sig = f'jones_to_mueller:{path}'
        MA = valid(R, R.call(pol.jones_to_mueller, A.copy(), broadcast=bc, sig=sig + ':exception'), (4, 4), sig + ':value', f'M({na})', kind='f')
        MB = valid(R, R.call(pol.jones_to_mueller, B.copy(), broadcast=bc, sig=sig + ':exception'), (4, 4), sig + ':value', f'M({nb_})', kind='f')
        MAB = valid(R, R.call(pol.jones_to_mueller, AB.copy(), broadcast=bc, sig=sig + ':exception'), (4, 4), sig + ':value', f'M({na} {nb_})', kind='f')
        if MA is None or MB is None or MAB is None:
            continue
        R.expect_close(MAB, MA @ MB, 64 * TOLU * scale, sig + ':multiplicative', f'M(AB) != M(A)M(B), A={na} B={nb_}')
        R.expect_close(MA, mueller_ref(A), 64 * TOLU * scale, sig + ':value', f'M({na}) vs Stokes definition S(JE) = M S(E)')
        if ua:
            R.expect_close(MA @ MA.T, np.eye(4), 64 * TOLU, sig + ':orthogonal', f'M M^T != I for unitary {na}')
            R.expect_close(MA[0, 0], 1.0, 32 * TOLU, sig + ':orthogonal', f'M00 != 1 for unitary {na}')
        if ua and ub:
            R.expect_close(MAB @ MAB.T, np.eye(4), 64 * TOLU, sig + ':orthogonal', f'M(AB) not orthogonal, A={na} B={nb_}')
    k = valid(R, R.call(pol.broadcast_kron, A.copy(), B.copy()), (4, 4), 'broadcast_kron:value', 'broadcast_kron')
    if k is not None:
        R.expect_close(k, np.kron(A, B), 8 * TOLU * scale, 'broadcast_kron:value', f'broadcast_kron({na},{nb_}) vs np.kron')
    R.nontrivial(not (case['i'] == 0 and case['j'] == 0))
    R.outcome('unitary-pair' if ua and ub else ('unitary-left' if ua else 'general'))


def run_mueller_batch(case, seed, R):
    pool = matrix_pool(seed, case['tier'])
    shape, off, step = tuple(case['shape']), case['off'], case['step']
    nb = int(np.prod(shape))
    kind = case.get('kind', 'mixed')
    if kind == 'mixed':
        ia = [(off + k) % len(pool) for k in range(nb)]
        ib = [(off + step * k + 3) % len(pool) for k in range(nb)]
    else:           # every element exactly diagonal ('diagonal'), or all but the last one ('diagonal+1')
        dm = diagonal_members(pool)
        ia = [dm[(off + k) % len(dm)] for k in range(nb)]
        ib = [dm[(off + step * k + 1) % len(dm)] for k in range(nb)]
        if kind == 'diagonal+1':
            ia[-1] = ib[-1] = 6      # generic-1
    A = np.array([pool[k][1] for k in ia]).reshape(shape + (2, 2))
    B = np.array([pool[k][1] for k in ib]).reshape(shape + (2, 2))
    scale = max(1.0, max(fro(p[1]) for p in pool)) ** 4
    sig = f'jones_to_mueller:batch:{len(shape)}d'
    Ms = {}
    for nm, X in (('A', A), ('B', B), ('AB', A @ B)):
        M = valid(R, R.call(pol.jones_to_mueller, X.copy(), sig=sig + ':exception'), shape + (4, 4), sig + ':shape', f'M of a batch {shape}', kind='f')
        if M is None:
            return
        Ms[nm] = M
        el = []
        for x in X.reshape(-1, 2, 2):
            m = valid(R, R.call(pol.jones_to_mueller, x.copy(), sig=sig + ':exception'), (4, 4), 'jones_to_mueller:broadcast:value', 'M of one matrix', kind='f')
            if m is None:
                return
            el.append(m)
        R.expect_close(M, np.array(el).reshape(shape + (4, 4)), 16 * TOLU * scale, sig + ':elementwise', f'batched M {shape} vs one matrix at a time ({nm})')
        R.expect_close(M, np.array([mueller_ref(x) for x in X.reshape(-1, 2, 2)]).reshape(shape + (4, 4)), 64 * TOLU * scale, sig + ':value', 'batched M vs Stokes definition')
    R.expect_close(Ms['AB'], Ms['A'] @ Ms['B'], 64 * TOLU * scale, sig + ':multiplicative', f'batched M(AB) != M(A)M(B), shape {shape}')
    k = valid(R, R.call(pol.broadcast_kron, A.copy(), B.copy()), shape + (4, 4), 'broadcast_kron:batch', 'broadcast_kron of a batch')
    if k is not None:
        want = np.array([np.kron(a, b) for a, b in zip(A.reshape(-1, 2, 2), B.reshape(-1, 2, 2))]).reshape(shape + (4, 4))
        R.expect_close(k, want, 8 * TOLU * scale, 'broadcast_kron:batch', f'broadcast_kron {shape} vs np.kron per element')
    R.nontrivial(True)
    R.outcome('batch')


# ---------------------------------------------------------------------------------------------
# unit: Pauli

def run_pauli(case, seed, R):
    pool = matrix_pool(seed, case['tier'])
    shape = tuple(case['shape'])
    sigma = []
    for k in range(4):
        s = valid(R, R.call(pol.pauli_spin_matrix, k), (2, 2), 'pauli_spin_matrix:value', f'sigma_{k}')
        if s is None:
            return
        R.expect_equal(s, PAULI[k], 'pauli_spin_matrix:value', f'sigma_{k}')
        sigma.append(s)
        if shape:
            sb = valid(R, R.call(pol.pauli_spin_matrix, k, shape=list(shape)), shape + (2, 2), 'pauli_spin_matrix:shape', f'sigma_{k} with shape={shape}')
            if sb is not None:
                R.expect_equal(sb, np.broadcast_to(PAULI[k], shape + (2, 2)), 'pauli_spin_matrix:shape', f'sigma_{k} with shape={shape}')
        c = R.call(pol.pauli_coefficients, s.copy())
        try:
            c = FAILED if c is FAILED else np.array([complex(x) for x in c])
        except Exception as e:   # noqa
            R.violation('pauli_coefficients:value', f'unusable output: {e}')
            c = FAILED
        R.expect_close(c, np.eye(4)[k].astype(complex), 0, 'pauli_coefficients:value', f'coefficients of sigma_{k}')
    nb = int(np.prod(shape)) if shape else 1
    J = np.array([pool[(case['off'] + k) % len(pool)][1] for k in range(nb)]).reshape(shape + (2, 2))
    c = R.call(pol.pauli_coefficients, J.copy())
    if c is FAILED:
        return
    try:
        cs = [valid(R, x, shape, 'pauli_coefficients:shape', f'c_k of a batch {shape}') for x in c]
        if len(cs) != 4:
            raise ValueError(f'{len(cs)} coefficients')
    except Exception as e:   # noqa
        R.violation('pauli_coefficients:shape', f'unusable output: {e}')
        return
    if any(x is None for x in cs):
        return
    rec = sum(cs[k][..., None, None] * sigma[k] for k in range(4))
    R.expect_close(rec, J, 8 * TOLU * max(1.0, fro(J)), 'pauli:reconstruct', f'sum c_k sigma_k != J, shape {shape}')
    want = [np.trace(PAULI[k] @ J, axis1=-2, axis2=-1) / 2 for k in range(4)]
    for k in range(4):
        R.expect_close(cs[k], want[k], 8 * TOLU * max(1.0, fro(J)), 'pauli_coefficients:value', f'c_{k} != tr(sigma_{k} J)/2')
    R.nontrivial(True)
    R.outcome('pauli')


# ---------------------------------------------------------------------------------------------
# unit: batched constructors == element by element

CTOR = {
    'jones_rotation_matrix': (pol.jones_rotation_matrix, ['theta']),
    'linear_retarder': (pol.linear_retarder, ['retardance', 'theta']),
    'half_wave_plate': (pol.half_wave_plate, ['theta']),
    'quarter_wave_plate': (pol.quarter_wave_plate, ['theta']),
    'linear_diattenuator': (pol.linear_diattenuator, ['alpha', 'theta']),
    'linear_polarizer': (pol.linear_polarizer, ['theta']),
}


def ctor_ref(name, vals):
    t = vals.get('theta', 0.0)
    if name == 'jones_rotation_matrix':
        return Rref(t)
    if name == 'linear_retarder':
        return ret_ref(vals['retardance'], t)
    if name == 'half_wave_plate':
        return ret_ref(PI, t)
    if name == 'quarter_wave_plate':
        return ret_ref(PI / 2, t)
    if name == 'linear_diattenuator':
        return dia_ref(vals['alpha'], t)
    if name == 'linear_polarizer':
        return dia_ref(0.0, t)
    raise KeyError(name)


def arr_sig(name, arrays):
    if not arrays:
        return f'{name}:shape-only'
    if set(arrays) == {'alpha', 'theta'}:
        return f'{name}:array-both'
    order = sorted(arrays, key=lambda a: (a != 'theta', a))
    return f'{name}:array-' + '+'.join(order)


def run_ctor(case, seed, R):
    name, arrays, shape, off = case['ctor'], case['arrays'], tuple(case['shape']), case['off']
    f, params = CTOR[name]
    al = case['alpha_pools']
    nb = int(np.prod(shape))
    sig = arr_sig(name, arrays)
    per = []
    for k in range(nb):
        v = {}
        for p in params:
            pool = al[p]
            v[p] = pool[(off + (k if p in arrays else 0) * (1 if p == 'theta' else 2) + (1 if p != 'theta' else 0)) % len(pool)]
        per.append(v)
    kwargs = {}
    for p in params:
        if p in arrays:
            kwargs[p] = np.array([v[p] for v in per], dtype=float).reshape(shape)
        else:
            kwargs[p] = per[0][p]
    keep = {p: (a.copy() if isinstance(a, np.ndarray) else a) for p, a in kwargs.items()}
    J = R.call(f, **kwargs, shape=list(shape), sig=sig)
    for p, a in kwargs.items():
        if isinstance(a, np.ndarray) and not np.array_equal(a, keep[p]):
            R.outcome(f'mutates-{p}')
    J = valid(R, J, shape + (2, 2), sig, f'{name}({ {p: "array" if p in arrays else kwargs[p] for p in params} }, shape={shape})')
    if J is None:
        R.outcome('rejected')
        return
    el = []
    for v in per:
        e = valid(R, R.call(f, **v), (2, 2), f'{name}:value', f'{name}({v})')
        if e is None:
            return
        el.append(e)
    R.expect_close(J, np.array(el).reshape(shape + (2, 2)), 8 * TOLU, sig, f'{name} batched {shape} (arrays: {arrays}) vs element-by-element construction')
    R.expect_close(J, np.array([ctor_ref(name, v) for v in per]).reshape(shape + (2, 2)), 32 * TOLU, sig, f'{name} batched {shape} vs reference')
    if name in ('linear_retarder', 'half_wave_plate', 'quarter_wave_plate', 'jones_rotation_matrix'):
        check_unitary(R, J, sig, f'{name} batched {shape}')
    R.nontrivial(bool(arrays))
    R.outcome('batched' if arrays else 'shape-only')


def run_vectors(case, seed, R):
    shape, off = tuple(case['shape']), case['off']
    nb = int(np.prod(shape))
    pool = case['pool']
    phi = np.array([pool[(off + k) % len(pool)] for k in range(nb)], dtype=float).reshape(shape)
    for deg in (False, True):
        arg = np.degrees(phi) if deg else phi.copy()
        E = valid(R, R.call(pol.linear_pol_vector, arg, degrees=deg), shape + (2, 1), 'linear_pol_vector:array', f'linear_pol_vector(array {shape}, degrees={deg})')
        if E is None:
            continue
        el = []
        for a in arg.ravel():
            e = valid(R, R.call(pol.linear_pol_vector, float(a), degrees=deg), (2,), 'linear_pol_vector:value', 'scalar linear_pol_vector')
            if e is None:
                el = None
                break
            el.append(e)
        if el is not None:
            R.expect_close(E[..., 0], np.array(el).reshape(shape + (2,)), 4 * TOLU, 'linear_pol_vector:array', f'array angle {shape} vs element-by-element')
        R.expect_close(E[..., 0], np.stack([np.cos(phi), np.sin(phi)], axis=-1), 8 * TOLU, 'linear_pol_vector:array', 'vs (cos, sin)')
    for hand, sgn in (('left', 1), ('right', -1)):
        e = valid(R, R.call(pol.circular_pol_vector, hand), (2,), 'circular_pol_vector:value', f'circular_pol_vector({hand})')
        if e is not None:
            R.expect_close(e, np.array([1, sgn * 1j]) / math.sqrt(2), 4 * TOLU, 'circular_pol_vector:value', f'circular_pol_vector({hand})')
            R.expect_close(stokes(e)[3], -sgn, 8 * TOLU, 'circular_pol_vector:value', 'handedness vs S3 convention')
        if off == 0:
            Eb = R.call(pol.circular_pol_vector, hand, shape=list(shape), sig='circular_pol_vector:shape')
            Eb = valid(R, Eb, shape + (2, 1), 'circular_pol_vector:shape', f'circular_pol_vector({hand}, shape={shape})')
            if Eb is not None and e is not None:
                R.expect_close(Eb[..., 0], np.broadcast_to(e, shape + (2,)), 4 * TOLU, 'circular_pol_vector:shape', f'circular_pol_vector({hand}, shape={shape}) vs the scalar vector')
    R.nontrivial(True)
    R.outcome('vectors')


# ---------------------------------------------------------------------------------------------
# unit: propagation adapter (in-process, through jones_adapter -- nothing is patched)

def prop_calls(shape):
    n0, n1 = shape
    return {
        'focus': [((2,), {}), ((1,), {}), ((), {'Q': 2})],
        'unfocus': [((2,), {}), ((1,), {}), ((), {'Q': 1.5})],
        'focus_fixed_sampling': [((0.5, 50.0, 0.6, 2.0, 5), {}), ((0.5, 50.0, 0.6, 2.0, [5, 6]), {'shift': [1.5, -2.0]}),
                                 ((0.5, 50.0), {'wavelength': 0.6, 'output_dx': 2.0, 'output_samples': 4, 'method': 'czt'})],
        'unfocus_fixed_sampling': [((2.0, 50.0, 0.6, 0.5, 5), {}), ((2.0, 50.0, 0.6, 0.5, [5, 6]), {'shift': [0.5, -1.0]}),
                                   ((2.0, 50.0), {'wavelength': 0.6, 'output_dx': 0.5, 'output_samples': 4, 'method': 'czt'})],
        'angular_spectrum': [((0.6, 0.5, 3.0), {}), ((0.6, 0.5, 3.0), {'Q': 1}), ((0.6, 0.5), {'z': 3.0, 'Q': 1, 'tf': 'tf'})],
    }


def _mk(args, kw, shape, seed):
    kw = {k: (tuple(v) if isinstance(v, list) else v) for k, v in kw.items()}
    args = tuple(tuple(a) if isinstance(a, list) else a for a in args)
    if kw.get('tf') == 'tf':
        kw['tf'] = np.exp(1j * dense(shape, seed, salt=77, complex_=False))
    return args, kw


SCALES = [1e-3, 1e-9, 1e-12]      # amplitude alphabet besides 1: small units, cross-polarisation leakage, far below any absolute tolerance


def jones_kinds():
    return ['4d'] + [f'4d:{i}{j}:{si}' for i in range(2) for j in range(2) for si in range(len(SCALES))] + [f'4d:all:{si}' for si in range(len(SCALES))]


def jones_input(shape, seed, kind):
    """Seeded dense Jones field; kind '4d:ij:k' scales component (i,j) alone by SCALES[k] (others stay O(1)), '4d:all:k' the whole field."""
    J = dense(tuple(shape) + (2, 2), seed, salt=300)
    if kind != '4d':
        _, ij, si = kind.split(':')
        if ij == 'all':
            J = J * SCALES[int(si)]
        else:
            J[..., int(ij[0]), int(ij[1])] *= SCALES[int(si)]
    return J


def comp_tol(want, k=64):
    """Relative tolerance PER Jones component: k * TOLU * max|component| (zero for an exactly-zero component)."""
    tol = np.empty(want.shape)
    for i in range(2):
        for j in range(2):
            tol[..., i, j] = k * TOLU * float(np.abs(want[..., i, j]).max())
    return tol


def jones_fields(shape, seed):
    J = dense(tuple(shape) + (2, 2), seed, salt=300)
    out = [('dense', J)]
    for i in range(2):
        for j in range(2):
            Z = np.zeros_like(J)
            Z[..., i, j] = J[..., i, j]
            out.append((f'only-J{i}{j}', Z))
    for kind in jones_kinds()[1:]:
        out.append((kind, jones_input(shape, seed, kind)))
    return out


def plain_eval(f, x, args, kw, R=None):
    """The never-patched routine on one 2-D field; None if it raises (then the relation has no right-hand side)."""
    if R is not None:
        R.tick()
    try:
        return np.asarray(f(x, *args, **kw))
    except Exception:   # noqa
        return None


def run_adapter(case, seed, R):
    name, shape = case['routine'], tuple(case['shape'])
    plain = getattr(prop, name)
    if hasattr(plain, '__wrapped__'):
        raise RuntimeError('prysm.propagation is patched inside the harness process')
    wrapped = R.call(pol.jones_adapter, plain)
    if wrapped is FAILED:
        return
    for ci, (args, kw) in enumerate(prop_calls(shape)[name]):
        sig = f'jones_adapter:{name}'
        got_dense = None
        for fname, J in jones_fields(shape, seed):
            a, k = _mk(args, kw, shape, seed)
            reset_executors(PREC)
            got = R.call(wrapped, J.copy(), *a, sig=sig + ':exception', **k)
            comps = {}
            ok = True
            for i in range(2):
                for j in range(2):
                    reset_executors(PREC)
                    a, k = _mk(args, kw, shape, seed)
                    c = plain_eval(plain, np.ascontiguousarray(J[..., i, j]), a, k, R)
                    if c is None:
                        ok = False
                        continue
                    comps[(i, j)] = c
            if not ok:
                R.outcome('plain-routine-raises')     # right-hand side undefined: not this property's business
                continue
            if got is FAILED:
                continue
            oshape = comps[(0, 0)].shape
            got = valid(R, got, oshape + (2, 2), sig + ':shape', f'adapter({name}) call {ci} on {fname} {shape}')
            if got is None:
                continue
            want = np.empty(oshape + (2, 2), dtype=complex)
            for (i, j), c in comps.items():
                want[..., i, j] = c
            R.expect_close(got, want, comp_tol(want), sig + ':componentwise', f'adapter({name}) call {ci} on {fname} {shape} vs four plain propagations (relative per component)')
            if fname == 'dense':
                got_dense = got
            elif fname.startswith('4d:all:') and got_dense is not None:
                sc = SCALES[int(fname.split(':')[2])]
                R.expect_close(got, sc * got_dense, comp_tol(sc * got_dense), sig + ':homogeneous', f'adapter({name})(s J) != s adapter({name})(J), s={sc}, call {ci} {shape}')
        # scalar (2-D) fields pass straight through
        E = dense(shape, seed, salt=301)
        a, k = _mk(args, kw, shape, seed)
        reset_executors(PREC)
        w = plain_eval(plain, E.copy(), a, k, R)
        if w is None:
            R.outcome('plain-routine-raises')
            continue
        reset_executors(PREC)
        a, k = _mk(args, kw, shape, seed)
        g = R.call(wrapped, E.copy(), *a, sig=sig + ':exception', **k)
        R.expect_close(g, w, 8 * TOLU * max(1.0, float(np.abs(w).max())), sig + ':passthrough', f'adapter({name}) on a 2-D field, call {ci}')
    # apply_polarization_optic
    E = dense(shape, seed, salt=302)
    J = dense(shape + (2, 2), seed, salt=303)
    out = R.call(pol.apply_polarization_optic, E.copy(), J.copy())
    R.expect_close(out, J * E[..., None, None], 4 * TOLU * float(np.abs(J).max() * np.abs(E).max()), 'apply_polarization_optic', f'field * optic, shape {shape}')
    R.expect(getattr(wrapped, '__name__', None) == name, sig + ':wraps', 'functools.wraps lost the name')
    R.nontrivial(True)
    R.outcome(name)


# ---------------------------------------------------------------------------------------------
# unit: installation-count history, in a sub-process per case

_SUB = r'''
import sys, json, traceback
import numpy as np
k, funcs, seed, outdir, prec = int(sys.argv[1]), json.loads(sys.argv[2]), int(sys.argv[3]), sys.argv[4], int(sys.argv[5])
import prysm.propagation as P
import prysm.x.polarization as pol
from props import c20
c20.set_prec(prec)
before = {n: getattr(P, n) for n in dir(P) if callable(getattr(P, n)) and not n.startswith('_')}
for _ in range(k):
    if funcs is None:
        pol.add_jones_propagation()
    else:
        pol.add_jones_propagation(funcs_to_change=funcs)
meta = {'errors': {}, 'changed': sorted(n for n, f in before.items() if getattr(P, n) is not f),
        'names': {n: getattr(getattr(P, n), '__name__', None) for n in pol.supported_propagation_funcs}, 'calls': 0}
res = {}
for shape in c20.HIST_SHAPES:
    shape = tuple(shape)
    for name, calls in c20.prop_calls(shape).items():
        for ci, (args, kw) in enumerate(calls):
            for kind in ['2d'] + c20.jones_kinds():
                key = f'{name}|{shape[0]}x{shape[1]}|{ci}|{kind}'
                x = c20.dense(shape, seed, salt=301) if kind == '2d' else c20.jones_input(shape, seed, kind)
                a, kk = c20._mk(args, kw, shape, seed)
                c20.reset_executors(c20.PREC)
                try:
                    res[key] = np.asarray(getattr(P, name)(x, *a, **kk))
                    meta['calls'] += 1
                except Exception as e:
                    meta['errors'][key] = f'{type(e).__name__}: {e}'
    # the Wavefront methods route through the (possibly patched) module functions
    E = c20.dense(shape, seed, salt=301)
    for mname, margs in (('focus', (100.0, 2)), ('unfocus', (100.0, 2)), ('free_space', (3.0, 2)), ('focus_fixed_sampling', (100.0, 2.0, 5))):
        key = f'Wavefront.{mname}|{shape[0]}x{shape[1]}'
        c20.reset_executors(c20.PREC)
        try:
            w = P.Wavefront(E.copy(), 0.6, 0.5, space='psf' if mname == 'unfocus' else 'pupil')
            res[key] = np.asarray(getattr(w, mname)(*margs).data)
            meta['calls'] += 1
        except Exception as e:
            meta['errors'][key] = f'{type(e).__name__}: {e}'
np.savez(outdir + '/res.npz', **res)
json.dump(meta, open(outdir + '/meta.json', 'w'))
'''

HIST_SHAPES = [[4, 4], [4, 6]]


def run_history(case, seed, R):
    k, funcs = case['installs'], case['funcs']
    if any(hasattr(getattr(prop, n), '__wrapped__') for n in pol.supported_propagation_funcs):
        raise RuntimeError('prysm.propagation is patched inside the harness process')
    d = tempfile.mkdtemp(prefix='c20-')
    sig0 = f'adapter-install:x{k}'
    try:
        env = dict(os.environ)
        here = [os.path.dirname(os.path.dirname(os.path.dirname(os.path.abspath(pol.__file__)))), os.path.dirname(os.path.dirname(os.path.abspath(__file__)))]
        env['PYTHONPATH'] = os.pathsep.join(here + ([env['PYTHONPATH']] if env.get('PYTHONPATH') else []))
        p = subprocess.run([sys.executable, '-W', 'ignore', '-c', _SUB, str(k), json.dumps(funcs), str(int(seed)), d, str(PREC)],
                           env=env, capture_output=True, text=True, timeout=600)
        R.tick()
        if p.returncode != 0 or not os.path.exists(os.path.join(d, 'meta.json')):
            R.violation(sig0 + ':subprocess', f'installing the adapter {k}x (funcs={funcs}) and propagating failed:\n{p.stderr[-1500:]}')
            return
        with open(os.path.join(d, 'meta.json')) as fh:
            meta = json.load(fh)
        with np.load(os.path.join(d, 'res.npz')) as z:
            res = {key: z[key] for key in z.files}
    finally:
        shutil.rmtree(d, ignore_errors=True)
    R.tick(meta['calls'])
    patched = set(pol.supported_propagation_funcs if funcs is None else funcs) if k > 0 else set()
    R.expect(set(meta['changed']) == patched, sig0 + ':patched-set', f'attributes of prysm.propagation that changed: {meta["changed"]}, expected {sorted(patched)}')
    for n, nm in meta['names'].items():
        R.expect(nm == n, sig0 + ':wraps', f'propagation.{n}.__name__ is {nm!r} after {k} installs')
    for shape in HIST_SHAPES:
        shape = tuple(shape)
        for name, calls in prop_calls(shape).items():
            plain = getattr(prop, name)
            for ci, (args, kw) in enumerate(calls):
                key2 = f'{name}|{shape[0]}x{shape[1]}|{ci}|2d'
                key4 = f'{name}|{shape[0]}x{shape[1]}|{ci}|4d'
                sig = f'{sig0}:{name}'
                a, kk = _mk(args, kw, shape, seed)
                reset_executors(PREC)
                w2 = plain_eval(plain, dense(shape, seed, salt=301), a, kk)
                if w2 is None:
                    R.outcome('plain-routine-raises')
                    continue
                tol = 64 * TOLU * max(1.0, float(np.abs(w2).max()))
                if key2 in meta['errors']:
                    R.violation(sig + ':plain-broken', f'plain 2-D {name} raised after {k} installs: {meta["errors"][key2]}')
                else:
                    R.expect_close(res.get(key2, FAILED), w2, tol, sig + ':plain-broken', f'plain 2-D {name} (call {ci}, {shape}) after {k} installs')
                if name in patched:
                    for kind in jones_kinds():
                        key4 = f'{name}|{shape[0]}x{shape[1]}|{ci}|{kind}'
                        J = jones_input(shape, seed, kind)
                        want = np.empty(np.asarray(w2).shape + (2, 2), dtype=complex)
                        for i in range(2):
                            for j in range(2):
                                a, kk = _mk(args, kw, shape, seed)
                                reset_executors(PREC)
                                c = plain_eval(plain, np.ascontiguousarray(J[..., i, j]), a, kk)
                                want[..., i, j] = np.nan if c is None else c
                        if not np.all(np.isfinite(want)):
                            R.outcome('plain-routine-raises')
                            continue
                        if key4 in meta['errors']:
                            R.violation(sig + ':polarized', f'polarised {name} raised after {k} installs: {meta["errors"][key4]}')
                        else:
                            R.expect_close(res.get(key4, FAILED), want, comp_tol(want), sig + ':polarized',
                                           f'polarised {name} (call {ci}, {shape}, field {kind}) after {k} installs vs component-wise plain propagation (relative per component)')
                    R.nontrivial(True)
        E = dense(shape, seed, salt=301)
        for mname, margs in (('focus', (100.0, 2)), ('unfocus', (100.0, 2)), ('free_space', (3.0, 2)), ('focus_fixed_sampling', (100.0, 2.0, 5))):
            key = f'Wavefront.{mname}|{shape[0]}x{shape[1]}'
            reset_executors(PREC)
            w = prop.Wavefront(E.copy(), 0.6, 0.5, space='psf' if mname == 'unfocus' else 'pupil')
            want = np.asarray(getattr(w, mname)(*margs).data)
            if key in meta['errors']:
                R.violation(f'{sig0}:Wavefront.{mname}', f'Wavefront.{mname} raised after {k} installs: {meta["errors"][key]}')
            else:
                R.expect_close(res.get(key, FAILED), want, 64 * TOLU * max(1.0, float(np.abs(want).max())), f'{sig0}:Wavefront.{mname}',
                               f'Wavefront.{mname} {shape} after {k} installs')
    R.outcome(f'installs={k}')
    R.nontrivial(k > 0)


# ---------------------------------------------------------------------------------------------
# unit: precision / call history (module-level state shared between calls)

H_EVENTS = ['p32', 'p64', 'j2m', 'j2m_batch', 'retarder', 'vortex', 'adapter', 'pauli']
_H_U = ret_ref(0.3, 0.4) * np.exp(0.2j)                                   # a fixed unitary
_H_UB = np.array([ret_ref(0.3, 0.4), ret_ref(2.0, -1.2) * 1j, Rref(0.4)])  # a fixed batch of unitaries
_H_TH = np.array([0.4, -1.2, 2.5])


def _h_call(ev, seed):
    """(callable, args, kwargs) of a call event; arguments are fresh arrays every time."""
    if ev == 'j2m':
        return pol.jones_to_mueller, (_H_U.copy(),), {}
    if ev == 'j2m_batch':
        return pol.jones_to_mueller, (_H_UB.copy(),), {}
    if ev == 'retarder':
        return pol.linear_retarder, (0.3,), {'theta': 0.4}
    if ev == 'vortex':
        return pol.vector_vortex_retarder, (1.5, _H_TH.copy()), {'retardance': 2.0, 'rotate': 0.5}
    if ev == 'adapter':
        return pol.jones_adapter(prop.focus_fixed_sampling), (dense((4, 4, 2, 2), seed, salt=300), 0.5, 50.0, 0.6, 2.0, 5), {}
    if ev == 'pauli':
        return pol.pauli_spin_matrix, (3,), {}
    raise KeyError(ev)


def h_fresh(init, seed):
    fresh_state()
    set_prec(init['prec'])
    return {'last': None, 'trace': [], 'seed': seed}


def h_events(init, hist, st):
    return H_EVENTS


def h_apply(st, ev, R):
    st['last'] = None
    if ev == 'p32':
        set_prec(32)
    elif ev == 'p64':
        set_prec(64)
    else:
        f, a, k = _h_call(ev, st['seed'])
        out = R.call(f, *a, sig=f'history:{ev}:exception', **k)
        st['last'] = (ev, out)
        st['trace'].append((ev, PREC))
    return st


def h_check(st, init, hist, R):
    cfg = 32 if config.precision is np.float32 else 64
    R.expect(cfg == PREC, 'history:precision-changed-by-call', f'config.precision is {cfg} after {hist}, the history set {PREC}')
    if st['last'] is None:
        R.outcome('config')
        return
    ev, out = st['last']
    if out is FAILED:
        return
    prec = PREC
    eps = float(np.finfo(np.float32 if prec == 32 else np.float64).eps)
    # (a) the same call in a fresh library state under the current precision: same dtype, same value to eps(precision)
    clear_library_caches()
    set_prec(prec)
    f, a, k = _h_call(ev, st['seed'])
    want = np.asarray(f(*a, **k))
    R.tick()
    sig = f'history:{ev}:p{prec}:depends-on-prior-calls'
    got = valid(R, out, want.shape, sig, f'{ev} after {hist[:-1]}', kind='fc')
    if got is None:
        return
    R.expect(got.dtype == want.dtype, sig + ':dtype', f'{ev} after {hist[:-1]}: dtype {got.dtype}, a fresh state gives {want.dtype}')
    R.expect_close(got, want, 4 * eps * max(1.0, float(np.abs(want).max())), sig, f'{ev} after {hist[:-1]} differs from the same call in a fresh state (precision {prec})')
    # (b) the independent reference, at the accuracy of the CURRENT precision
    vs = f'history:{ev}:p{prec}:value'
    if ev in ('j2m', 'j2m_batch'):
        J = _H_U if ev == 'j2m' else _H_UB
        R.expect_close(got @ np.swapaxes(got, -1, -2), np.broadcast_to(np.eye(4), got.shape), 64 * TOLU, vs, f'M M^T != I at the accuracy of precision {prec}, after {hist[:-1]}')
        R.expect_close(got[..., 0, 0], np.ones(got.shape[:-2]), 32 * TOLU, vs, f'M00 != 1 at the accuracy of precision {prec}, after {hist[:-1]}')
        check_mueller_value(R, J, got, vs, f'{ev} after {hist[:-1]}')
    elif ev == 'retarder':
        R.expect_close(got, ret_ref(0.3, 0.4), 16 * TOLU, vs, f'linear_retarder after {hist[:-1]}')
        R.expect(got.dtype == np.dtype(config.precision_complex), vs + ':dtype', f'linear_retarder dtype {got.dtype} under precision {prec}')
    elif ev == 'vortex':
        R.expect_close(got, np.array([vvr_ref(1.5, t, 2.0, 0.5) for t in _H_TH]), 32 * TOLU, vs, f'vortex after {hist[:-1]}')
        check_unitary(R, got, vs, f'vortex after {hist[:-1]}')
    elif ev == 'pauli':
        R.expect_equal(got, PAULI[3], vs, 'sigma_3')
        R.expect(got.dtype == np.dtype(config.precision_complex), vs + ':dtype', f'pauli_spin_matrix dtype {got.dtype} under precision {prec}')
    elif ev == 'adapter':
        J = dense((4, 4, 2, 2), st['seed'], salt=300)
        comp = np.empty(got.shape, dtype=complex)
        for i in range(2):
            for j in range(2):
                reset_executors(prec)
                comp[..., i, j] = prop.focus_fixed_sampling(np.ascontiguousarray(J[..., i, j]), 0.5, 50.0, 0.6, 2.0, 5)
        R.expect_close(got, comp, comp_tol(comp), vs, f'adapter(focus_fixed_sampling) after {hist[:-1]} vs component-wise plain propagation')
    R.nontrivial(len(hist) > 1)
    R.outcome(f'{ev}:p{prec}')


def h_canon(st):
    # everything a later call could depend on: the precision now, and which calls ran under which precision, in order
    return (PREC, tuple(st['trace']))


# ---------------------------------------------------------------------------------------------

def plan(tier, seed):
    A = alphabets(tier)
    quick = tier == 'quick'
    elements = []
    for th in A['ang']:
        for th2 in A['ang']:
            elements.append({'kind': 'rotation', 'theta': th, 'theta2': th2})
        for d in A['ret']:
            elements.append({'kind': 'retarder', 'ret': d, 'theta': th})
        elements.append({'kind': 'hwp', 'theta': th})
        elements.append({'kind': 'qwp', 'theta': th})
        for a in A['dia']:
            elements.append({'kind': 'diattenuator', 'alpha': a, 'theta': th, 'phis': A['ang']})
        elements.append({'kind': 'polarizer', 'theta': th, 'phis': A['ang']})
    vshapes = [[]] + A['shapes']
    vortex = []
    for ch in A['charge']:
        for d in A['ret']:
            for rv in A['rot']:
                for shp in vshapes:
                    nb = int(np.prod(shp)) if shp else 1
                    for conv, apool in (('atan2', A['ang']), ('0-2pi', A['ang2pi'])):
                        offs = range(len(apool)) if nb == 1 else ((0, 1) if conv == 'atan2' else (0, 1, 3))
                        for off in offs:
                            vortex.append({'charge': ch, 'ret': d, 'rotate': rv, 'shape': shp, 'off': off, 'pool': apool, 'conv': conv})
                        vortex.append({'charge': ch, 'ret': d, 'rotate': rv, 'shape': shp, 'off': -1, 'pool': apool, 'conv': conv})
        for shp in vshapes:      # default retardance (half wave) and rotate
            vortex.append({'charge': ch, 'ret': PI, 'rotate': 0, 'shape': shp, 'off': 0, 'pool': A['ang'], 'conv': 'atan2', 'defaults': True})
            vortex.append({'charge': ch, 'ret': PI, 'rotate': 0, 'shape': shp, 'off': 2, 'pool': A['ang2pi'], 'conv': '0-2pi', 'defaults': True})
    npool = len(matrix_pool(seed, tier))
    ndiag = len(diagonal_members(matrix_pool(seed, tier)))
    pairs = [{'i': i, 'j': j, 'tier': tier} for i in range(npool) for j in range(npool)]
    mshapes = [[1]] + [s for s in A['shapes'] if s != [1]] + ([[8]] if quick else [[12], [3, 4]])
    mbatch = [{'shape': s, 'off': off, 'step': step, 'tier': tier, 'kind': 'mixed'} for s in mshapes for off in range(npool) for step in (1, 3)]
    mbatch += [{'shape': s, 'off': off, 'step': step, 'tier': tier, 'kind': kind} for kind in ('diagonal', 'diagonal+1') for s in mshapes
               for off in range(ndiag) for step in (1, 2) if not (kind == 'diagonal+1' and int(np.prod(s)) == 1)]
    pauli = [{'shape': s, 'off': off, 'tier': tier} for s in [[]] + mshapes for off in range(npool)]
    pools = {'theta': A['ang'], 'retardance': A['ret'], 'alpha': A['dia']}
    ctors = []
    for name, (_, params) in CTOR.items():
        subsets = [[]] + [[p] for p in params] + ([params] if len(params) > 1 else [])
        for arrays in subsets:
            for shp in A['shapes'] + ([[1]] if quick else []):
                noff = max(len(pools[p]) for p in params) if arrays else 2
                for off in range(noff):
                    ctors.append({'ctor': name, 'arrays': list(arrays), 'shape': shp, 'off': off, 'alpha_pools': pools})
    vectors = [{'shape': s, 'off': off, 'pool': A['ang']} for s in A['shapes'] for off in range(len(A['ang']))]
    ashapes = [[4, 4], [4, 6]] + ([] if quick else [[5, 5], [6, 3]])
    adapters = [{'routine': n, 'shape': s} for n in pol.supported_propagation_funcs for s in ashapes]
    hist = [{'installs': 0, 'funcs': None}]
    for k in (1, 2) if quick else (1, 2, 3):
        hist.append({'installs': k, 'funcs': None})
        hist.append({'installs': k, 'funcs': ['focus']})
        if not quick:
            hist.append({'installs': k, 'funcs': ['unfocus', 'angular_spectrum', 'focus_fixed_sampling']})
    both = lambda cases: [dict(c, prec=pr) for pr in (64, 32) for c in cases]   # noqa
    P2 = ' || every case runs under config.precision 64 and 32, from a fresh library state (functools caches and transform executors cleared), all tolerances are k * 32 eps(configured precision)'
    at = f"retardance {A['ret']}, angles {A['ang']}, diattenuation {A['dia']}"
    units = [
        ScopeUnit('elements', both(elements), at_precision(run_element),
                  f'every (element kind, parameter, orientation) over {at}: rotation matrix (value, inverse, group law over all angle pairs), '
                  'linear_retarder / half_wave_plate / quarter_wave_plate (J^H J = I, reference R(-t) diag(1,e^id) R(t), det, E(t) = R_lib(-t) E(0) R_lib(t), Mueller orthogonal with M00 = 1), '
                  'linear_diattenuator / linear_polarizer (reference, rotation law, P^2 = P, Malus law against every input angle through Jones vectors in radians and degrees and through the Mueller matrix)'),
        ScopeUnit('vortex', both(vortex), at_precision(run_vortex),
                  f"vector_vortex_retarder over charge {A['charge']} x retardance x rotate {A['rot']} x theta grids of shape () and {A['shapes']} filled from the angle alphabet at every offset, on both azimuth conventions ((-pi,pi] as from arctan2, and [0,2pi): {A['ang2pi']}); charges include half-integers and negatives "
                  '(plus one seeded generic grid): unitary at every point, equal to Mawet eq. 7 reference, Mueller orthogonal with M00 = 1, batched == element-by-element (fresh 0-d theta arrays); default-argument form too'),
        ScopeUnit('mueller_pairs', both(pairs), at_precision(run_pair),
                  f'ALL {npool * npool} ordered pairs (A, B) of a pool of {npool} complex 2x2 matrices (identity, seeded unitary, real rotator, singular polariser, seeded rank-one, nilpotent, seeded generic x2, exactly diagonal with unequal phases x2, exactly anti-diagonal complex, exactly real non-symmetric'
                  + ('' if quick else ', zero, real diagonal, generic, unitary') + '): M(AB) = M(A) M(B) through broadcast_kron and through np.kron; M(A) equals the Mueller matrix defined by S(JE) = M S(E); '
                  'unitary => M M^T = I, M00 = 1; broadcast_kron == np.kron'),
        ScopeUnit('mueller_batch', both(mbatch), at_precision(run_mueller_batch),
                  f'batches of shapes {mshapes} cut from the pool at every offset and two strides, plus all-exactly-diagonal batches and all-diagonal-but-one batches: batched jones_to_mueller == one matrix at a time == reference; batched multiplicativity; broadcast_kron == np.kron per element'),
        ScopeUnit('pauli', both(pauli), at_precision(run_pauli),
                  'pauli_spin_matrix (all four, with and without shape=) equal the documented basis; pauli_coefficients of sigma_k = e_k; sum_k c_k sigma_k reconstructs every pool matrix and every batch; c_k = tr(sigma_k J)/2'),
        ScopeUnit('batched_ctor', both(ctors), at_precision(run_ctor),
                  f"every constructor x every subset of its parameters passed as an array (with shape=) x shapes {A['shapes']} x every alphabet offset: batched == element-by-element scalar construction == reference; "
                  'also scalar parameters with shape= (constant field)'),
        ScopeUnit('vectors', both(vectors), at_precision(run_vectors),
                  'linear_pol_vector with array angles (radians and degrees) == element-by-element; circular_pol_vector both handednesses, value, S3 sign, and shape= form'),
        ScopeUnit('adapter', both(adapters), at_precision(run_adapter),
                  f'jones_adapter(f) for each of the five supported routines x shapes {ashapes} x three call forms (positional / keyword / shift / czt / explicit tf) x 20 Jones fields (seeded dense; each single component alone; each component alone scaled by {1e-3, 1e-9, 1e-12} with the others O(1); the whole field scaled likewise): '
                  'equal to four plain propagations of the components with a RELATIVE tolerance per component; homogeneity adapter(s J) = s adapter(J); 2-D fields pass through unchanged; apply_polarization_optic'),
        ScopeUnit('install_history', both(hist), at_precision(run_history),
                  'add_jones_propagation installed 0, 1, 2' + ('' if quick else ', 3') + ' times (default list and sub-lists) in a fresh sub-process per case: exactly the listed attributes are replaced, plain 2-D calls and Wavefront methods '
                  'give the results of the never-patched routines, polarised (N,M,2,2) calls equal component-wise plain propagation (relative per component; dense field plus the same amplitude-scale alphabet {1e-3,1e-9,1e-12} per component and overall); shapes (4,4) and (4,6), three call forms per routine', chunk=1),
        HistoryUnit('precision_history', [{'prec': 64}, {'prec': 32}], h_fresh, h_events, h_apply, h_check, h_canon, 3 if quick else 4,
                    f'BFS to depth {3 if quick else 4} from both initial precisions over events {H_EVENTS} (precision switches; jones_to_mueller of a fixed unitary and of a batch; linear_retarder; '
                    'vector_vortex_retarder; jones_adapter(focus_fixed_sampling) on a Jones field; pauli_spin_matrix): the last call equals, in dtype and to 4 eps(current precision), the same call made in a fresh '
                    'library state (functools caches found on the modules cleared, executors cleared) under the current precision, and meets its reference at the accuracy of the current precision; '
                    'canonical state = (precision, ordered list of (call, precision it ran under))', reset=fresh_state),
    ]
    for u in units:
        if u.kind == 'scope':
            u.rule += P2
    return units
