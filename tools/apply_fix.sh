#!/bin/sh
# tools/apply_fix.sh <patch> <commit message file or string>   -- apply one proposed fix to /repo as one "fix:" commit
p="$1"; msg="$2"
cd /repo || exit 2
[ -z "$(git status --porcelain --untracked-files=no)" ] || { echo "/repo not clean"; exit 2; }
git apply --3way "$p" 2>/dev/null || git apply "$p" || patch -p1 --no-backup-if-mismatch < "$p" || { echo "cannot apply $p"; git checkout -- .; exit 2; }
case "$msg" in fix:*) ;; *) echo "message must start with fix:"; git checkout -- .; exit 2;; esac
git commit -qam "$msg" && git log -1 --format='%h %s'
