#!/usr/bin/env python3
"""Run the repository's pinned suite (guard OFF) and compare with /root/.vp/BASELINE.json.

usage: tools/baseline.py [repo_dir]     exit 0 iff every stable_pass test passes.
"""
import json, os, subprocess, sys, tempfile
import xml.etree.ElementTree as ET
repo = sys.argv[1] if len(sys.argv) > 1 else '/repo'
base = json.load(open('/root/.vp/BASELINE.json'))
want = set(base['stable_pass'])
fd, xml = tempfile.mkstemp(suffix='.xml'); os.close(fd)
env = dict(os.environ); env.pop('PRYSM_VERIF', None); env['PYTHONPATH'] = repo
subprocess.run(['/venv/bin/python', '-m', 'pytest', '-q', '-p', 'no:cacheprovider', '--timeout=900',
                '--continue-on-collection-errors', f'--junitxml={xml}'], cwd=repo, env=env,
               stdout=subprocess.DEVNULL, stderr=subprocess.DEVNULL)
passed = set()
for tc in ET.parse(xml).getroot().iter('testcase'):
    if not any(c.tag in ('failure', 'error', 'skipped') for c in tc):
        passed.add(f"{tc.get('classname')}::{tc.get('name')}")
os.remove(xml)
missing = sorted(want - passed)
print(f'baseline: {len(want & passed)}/{len(want)} stable tests pass; {len(passed - want)} extra passing')
for m in missing[:40]:
    print('  NOT PASSING:', m)
sys.exit(1 if missing else 0)
