#!/bin/sh
# tools/benign_collect.sh <NN>...  -- collect property-preserving changes made by the false-alarm wave for property CNN
# (worktree /tmp/ben-cNN), drop the worktree, and run the quick check of CNN against each change in a scratch worktree.
# A check that reports a violation here is a FALSE ALARM candidate (or the change is not as benign as claimed): inspect by hand.
for n in "$@"; do
  [ -d /tmp/ben-c$n/out ] || { echo "no output for $n"; continue; }
  mkdir -p /tmp/benkeep/c$n && cp /tmp/ben-c$n/out/* /tmp/benkeep/c$n/ && git -C /repo worktree remove --force /tmp/ben-c$n
  for d in /tmp/benkeep/c$n/b*.diff; do
    i=$(basename "$d" .diff | sed 's/^b//')
    dst=/verif/benign/C$n-$i; mkdir -p "$dst"
    cp "$d" "$dst/patch.diff"; cp "/tmp/benkeep/c$n/b${i}_check.py" "$dst/check.py" 2>/dev/null; cp "/tmp/benkeep/c$n/b${i}_meta.json" "$dst/meta.json" 2>/dev/null
    /verif/tools/mut_eval.sh "$dst/patch.diff" "-" "C$n" > "$dst/eval.txt" 2>&1
    echo "C$n-$i: $(grep -c '795/795' $dst/eval.txt | sed 's/1/suite_ok/;s/0/SUITE-FAIL/') $(grep '^check' $dst/eval.txt | cut -c1-260)"
  done
done
