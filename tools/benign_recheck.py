#!/usr/bin/env python3
"""tools/benign_recheck.py [--tier quick|thorough] [name-prefix ...]  -- run the check of each archived property-preserving
change (/verif/benign/<Cxx>-<i>/patch.diff) in a scratch worktree of /repo HEAD; a VIOLATION here is a false-alarm candidate.
Records the outcome in benign/<name>/meta.json under "checked"."""
import glob, json, os, subprocess, sys, concurrent.futures as cf
ROOT = '/verif'
tier = 'quick'
args = []
it = iter(sys.argv[1:])
for a in it:
    if a == '--tier':
        tier = next(it)
    else:
        args.append(a)


def one(d):
    name = os.path.basename(d)
    pid = name.split('-')[0]
    mp = d + '/meta.json'
    try:
        m = json.load(open(mp))
    except Exception:
        m = {}
    wt, out = f'/tmp/bn-wt-{name}-{os.getpid()}', f'/tmp/bn-out-{name}-{os.getpid()}'
    subprocess.run(['git', '-C', '/repo', 'worktree', 'add', '-q', '--detach', wt, 'HEAD'], check=True)
    try:
        r = subprocess.run(['git', '-C', wt, 'apply', d + '/patch.diff'], capture_output=True, text=True)
        if r.returncode:
            res = 'patch does not apply to HEAD any more'
        else:
            env = dict(os.environ, VERIF_REPO=wt, VERIF_OUT=out, VERIF_WORKERS=os.environ.get("VERIF_WORKERS", "6"), VERIF_CAP_S=os.environ.get("VERIF_CAP_S", "7200"))
            r = subprocess.run([ROOT + '/check', pid, '--tier', tier], capture_output=True, text=True, env=env)
            sigs = [l.strip()[:300] for l in r.stdout.splitlines() if 'violation sig' in l]
            res = 'silent' if r.returncode == 0 and not any(l.startswith('VIOLATION') for l in r.stdout.splitlines()) else f'ALARM exit={r.returncode}: ' + ' | '.join(sigs[:6])
        m.setdefault('checked', {})[tier] = res
        json.dump(m, open(mp, 'w'), indent=1)
        return name, res
    finally:
        subprocess.run(['git', '-C', '/repo', 'worktree', 'remove', '--force', wt])
        subprocess.run(['rm', '-rf', out, wt])


dirs = sorted(d for d in glob.glob(ROOT + '/benign/*') if os.path.exists(d + '/patch.diff') and (not args or os.path.basename(d).startswith(tuple(args))))
with cf.ThreadPoolExecutor(int(os.environ.get("RECHECK_PAR", "3"))) as ex:
    for name, res in ex.map(one, dirs):
        print(name, tier, res, flush=True)
