#!/usr/bin/env python3
"""tools/kf.py fixed <PID> <sig-glob> <commit-subject-prefix> <what failed>
   tools/kf.py known <PID> <sig-glob> <what fails>
Maintains /verif/known_findings.json (edited by hand / by this tool only; never at check run time)."""
import json, subprocess, sys
path = '/verif/known_findings.json'
kf = json.load(open(path))
mode, pid, key = sys.argv[1:4]
if mode == 'fixed':
    prefix, what = sys.argv[4], sys.argv[5]
    log = subprocess.run(['git', '-C', '/repo', 'log', '--format=%h %s'], capture_output=True, text=True).stdout.splitlines()
    c = [l.split()[0] for l in log if l.split(' ', 1)[1].startswith(prefix)]
    assert len(c) == 1, (prefix, c)
    e = {'property': pid, 'status': 'fixed', 'key': key, 'commit': c[0], 'what': f'fixed: property={pid} {c[0]} {what}'}
else:
    e = {'property': pid, 'status': 'known', 'key': key, 'what': sys.argv[4]}
kf['findings'] = [f for f in kf['findings'] if not (f['property'] == pid and f['key'] == key)] + [e]
json.dump(kf, open(path, 'w'), indent=1)
print('recorded', e['status'], pid, key)
