#!/usr/bin/env python3
"""Regenerate the generated parts of DESIGN.md (between <!-- BEGIN:x --> / <!-- END:x --> markers):
   findings  -- disposition of every genuine defect (from known_findings.json)
   detection -- seeded changes and which checks caught them (from seeded/*/meta.json)"""
import glob, json, os, re
ROOT = os.path.dirname(os.path.dirname(os.path.abspath(__file__)))


def findings():
    kf = json.load(open(os.path.join(ROOT, 'known_findings.json')))['findings']
    out = ['| property | status | signature key | commit | what failed |', '|---|---|---|---|---|']
    for f in sorted(kf, key=lambda f: (f['property'], f['status'], f['key'])):
        what = re.sub(r'^fixed: property=\S+ \S+ ', '', f['what']).replace('|', '\\|')
        out.append(f"| {f['property']} | {f['status']} | `{f['key']}` | {f.get('commit', '-')} | {what} |")
    nfix = sum(f['status'] == 'fixed' for f in kf)
    out.append('')
    out.append(f'{nfix} defects repaired by "fix:" commits in /repo, {len(kf) - nfix} recorded as known findings.')
    return '\n'.join(out)


def detection():
    out = ['| seeded change | breaks | what it is / what it needs to manifest | suite 795/795 | demo | caught by (quick tier) | missed by / note |', '|---|---|---|---|---|---|---|']
    n = c = 0
    for d in sorted(glob.glob(os.path.join(ROOT, 'seeded', '*'))):
        mp = os.path.join(d, 'meta.json')
        if not os.path.exists(mp):
            continue
        m = json.load(open(mp))
        name = os.path.basename(d)
        summ = (m.get('summary', '') + ' -- needs: ' + m.get('needs_to_manifest', '')).replace('|', '\\|').replace('\n', ' ')
        if len(summ) > 420:
            summ = summ[:417] + '...'
        note = m.get('status', '') or ''
        if m.get('missed'):
            note = ('missed: ' + ','.join(m['missed']) + ' ' + note).strip()
        if m.get('note'):
            note = (note + ' ' + m['note']).strip()
        note = note.replace('|', '\\|')
        if len(note) > 300:
            note = note[:297] + '...'
        out.append(f"| {name} | {m.get('property', m.get('breaks', '?'))} | {summ} | {'yes' if m.get('suite_ok') else 'NO'} | {'ok' if m.get('demo_ok') else 'bad'} | {', '.join(m.get('caught', [])) or '-'} | {note or '-'} |")
        if not str(m.get('status', '')).startswith('rejected'):
            n += 1
            c += 1 if m.get('caught') else 0
    out.append('')
    out.append(f'{c} of {n} kept seeded changes are reported by at least one registered quick check.')
    return '\n'.join(out)


def asbuilt():
    out = ['| property | tier of the committed evidence | units (cases / states->transitions) | evaluations | oracle checks | exhaustive | wall (s, on the loaded build machine) |', '|---|---|---|---|---|---|---|']
    for f in sorted(glob.glob(os.path.join(ROOT, 'evidence', 'C*.json'))):
        e = json.load(open(f))
        c = e['coverage']
        units = []
        for u in c.get('units', []):
            if u.get('kind') == 'history':
                units.append(f"{u['unit']} ({u['states']} states -> {u['transitions']} transitions, depth {u['max_depth']})")
            else:
                units.append(f"{u['unit']} ({u['cases']})")
        out.append(f"| {e['property_id']} | {e['tier']} | {'; '.join(units)} | {c.get('evaluations')} | {c.get('oracle_checks')} | {c.get('exhaustive')} | {e['wall_s']} |")
    return '\n'.join(out)


def main():
    p = os.path.join(ROOT, 'DESIGN.md')
    s = open(p).read()
    for key, fn in (('findings', findings), ('detection', detection), ('asbuilt', asbuilt)):
        b, e = f'<!-- BEGIN:{key} -->', f'<!-- END:{key} -->'
        if b in s:
            s = s[:s.index(b) + len(b)] + '\n' + fn() + '\n' + s[s.index(e):]
    open(p, 'w').write(s)
    print('DESIGN.md tables regenerated')


if __name__ == '__main__':
    main()
