#!/usr/bin/env python3
"""Regenerate /verif/MANIFEST.json from the table below (single source of truth for what is claimed)."""
import json
import os
import subprocess

ROOT = os.path.dirname(os.path.dirname(os.path.abspath(__file__)))

# property id -> (level text, level note, technique, design_ref)
CLAIMED = {
    'C04': ('Exhaustive enumeration of every axis length / target length / parity combination up to the stated bound, every point-source '
            'position and every pad mode, executed on the real pad/crop/grid/slice/centroid code and compared exactly (integer labels) with '
            'the n//2-origin reference model.  Within the bound the verdict is complete: placement is decided for every sample.',
            'Trusted: numpy indexing, np.pad mode semantics; bound on axis length (quick 12 / thorough 24 in 1-D, 6 / 9 in the 4-index product).',
            'explicit-state bounded-exhaustive scope exploration of the implementation vs exact reference model', 'DESIGN.md 4/C04'),
    'C01': ('For every enumerated (input shape, output shape, Q form, shift form, method, direction, precision) the full operator matrix of the real transform '
            '(all real deltas, all i*deltas, one dense array) is compared with the textbook double sum, so the verdict holds for every input array of that shape; '
            'plus an explicit-state BFS over the shared executors / config.precision (cache-colliding call alphabet) whose invariant is bit-identity with a fresh executor and agreement with the sum.',
            'Trusted: numpy matmul/FFT/exp; shapes up to 4x4 (quick) / 7x7 (thorough); Q and shift from finite alphabets (int/float/tuple/list forms, Q<1, per-axis, integer and fractional shifts); history depth 4 / 5; tolerance 2e3 eps (measured honest error <= 70 eps).',
            'bounded-exhaustive scope exploration with operator-matrix (basis) closure + explicit-state BFS over executor cache / precision histories', 'DESIGN.md 4/C01'),
}

PENDING_REASON = 'check not built yet in this revision (planned: DESIGN.md section 4); not claimed until its explorer exists and is silent on the fixed tree'


def main():
    props = [json.loads(l) for l in open(os.path.join(ROOT, 'properties.jsonl'))]
    try:
        commits = subprocess.run(['git', '-C', '/repo', 'log', '--format=%H %s', '18b6546..HEAD'], capture_output=True, text=True).stdout.splitlines()
    except Exception:   # noqa
        commits = []
    hook_commits = [c.split()[0] for c in commits if c.split(' ', 1)[1].startswith('verif-hook')]
    checks = []
    na = []
    for p in props:
        pid = p['id']
        if pid in CLAIMED:
            text, note, tech, ref = CLAIMED[pid]
            checks.append({
                'property_id': pid,
                'quick_cmd': f'./check {pid} --tier quick',
                'thorough_cmd': f'./check {pid} --tier thorough',
                'evidence_file': f'/verif/evidence/{pid}.json',
                'replay_cmd_template': f'./check {pid} --replay {{path}}',
                'engine': 'mc',
                'level_claimed': {'category': 'model_checking', 'text': text, 'design_ref': ref},
                'level_note': note,
                'technique': tech,
            })
        else:
            na.append({'property_id': pid, 'reason': PENDING_REASON})
    man = {
        'version': 1,
        'setup_cmd': '/venv/bin/python -W ignore -m mc.selftest',
        'hooks': {
            'guard': 'PRYSM_VERIF',
            'enable': 'no source hooks are needed: every seam used (prysm.mathops backend shim, executor caches, config.precision, lru caches) is a public module-level object; '
                      './check exports PRYSM_VERIF=1 and puts /repo first on PYTHONPATH so the current working tree is what is imported',
            'baseline_off_cmd': 'cd /repo && /venv/bin/python -m pytest -q -p no:cacheprovider --timeout=900 --continue-on-collection-errors',
            'source_commits': hook_commits,
            'add_only': True,
        },
        'engines': [{'name': 'mc', 'path': '/verif/mc', 'serves_properties': sorted(CLAIMED),
                     'kind_free_text': 'hand-written explicit-state explorer for Python: exhaustive scope enumeration (with basis closure for linear maps), '
                                       'level-synchronous BFS over operation histories on real objects with canonical-state deduplication, and fault (truncation) enumeration; 16 worker processes'}],
        'checks': checks,
        'notes': 'All checks import prysm from /repo\'s working tree in a fresh process (pure Python: nothing to build). known_findings.json lists recorded/fixed defects; replays/ is written at run time.',
        'not_applicable': na,
    }
    with open(os.path.join(ROOT, 'MANIFEST.json'), 'w') as f:
        json.dump(man, f, indent=1)
    print(f'MANIFEST.json: {len(checks)} checks claimed, {len(na)} not claimed')


if __name__ == '__main__':
    main()
