#!/usr/bin/env python3
"""Regenerate /verif/MANIFEST.json from the table below (single source of truth for what is claimed)."""
import json
import os
import subprocess

ROOT = os.path.dirname(os.path.dirname(os.path.abspath(__file__)))

# property id -> (level text, level note, technique, design_ref)
CLAIMED = {
    'C04': ('Exhaustive enumeration of every axis length / target length / parity combination up to the stated bound, every point-source '
            'position and every pad mode, executed on the real pad/crop/grid/slice/centroid code and compared exactly (integer labels) with '
            'the n//2-origin reference model.  Within the bound the verdict is complete: placement is decided for every sample.',
            'Trusted: numpy indexing, np.pad mode semantics; bound on axis length (quick 12 / thorough 24 in 1-D, 6 / 9 in the 4-index product).',
            'explicit-state bounded-exhaustive scope exploration of the implementation vs exact reference model', 'DESIGN.md 4/C04'),
    'C01': ('For every enumerated (input shape, output shape, Q form, shift form, method, direction, precision) the full operator matrix of the real transform '
            '(all real deltas, all i*deltas, one dense array) is compared with the textbook double sum, so the verdict holds for every input array of that shape; '
            'plus an explicit-state BFS over the shared executors / config.precision (cache-colliding call alphabet) whose invariant is bit-identity with a fresh executor and agreement with the sum.',
            'Trusted: numpy matmul/FFT/exp; shapes up to 4x4 (quick) / 7x7 (thorough); Q and shift from finite alphabets (int/float/tuple/list forms, Q<1, per-axis, integer and fractional shifts); history depth 4 / 5; tolerance 2e3 eps (measured honest error <= 70 eps).',
            'bounded-exhaustive scope exploration with operator-matrix (basis) closure + explicit-state BFS over executor cache / precision histories', 'DESIGN.md 4/C01'),
    'C07': ('Every order up to the bound x every shape parameter of a 10x10 (alpha,beta) grid (all special cases) x every point of a fixed point set, in every input form (scalar, 1-D, 2-D, 3-D, float32), '
            'executed on the real polynomial routines and compared with exact-rational textbook definitions; Gram matrices under exact-degree Gauss rules against diag(h_n); Qbfs/Q2d by their defining slope/gradient orthonormality; '
            'plus a depth-2 history exploration of the lru caches (every ordered pair of a 136-configuration collision alphabet, cold vs warm bit-identity) and whole-enumeration cold/warm sweeps.',
            'Trusted: fractions.Fraction arithmetic, numpy Gauss nodes; orders n<=12 (quick) / 40 (thorough), Zernike n<=12/30, Q2d n,m<=6/10; a polynomial identity of degree d checked at > d points is the identity; tolerance K(n+1) eps cond with >=32x measured margin.',
            'bounded-exhaustive scope exploration vs exact-rational reference + exhaustive depth-2 cache-history exploration', 'DESIGN.md 4/C07'),
    'C08': ('Every non-empty ascending subset of orders [0..6] (quick) / [0..9] (thorough) for each of the 22 one-index *_seq functions, every ordered list of length <=3 from a 9-pair pool for the 4 two-index ones, '
            'x coordinate shapes 0-D..3-D including leading dimension == number of orders x dtypes, each compared mode for mode with the scalar-order function (the relation the property states).',
            'Trusted: the scalar-order functions are the reference by the property\'s own wording (their correctness is C07/C09); subsets of [0..9]; tolerance 64 eps cond (measured <= 1.7).',
            'bounded-exhaustive enumeration of all order subsets / lists x coordinate shapes on the implementation', 'DESIGN.md 4/C08'),
    'C11': ('Direct exhaustive enumeration: every index j up to the end of the row containing 1e5 (quick) / 2e6 (thorough) for Noll, Fringe, ANSI and XY, in row-aligned blocks so that injectivity and surjectivity onto the complete valid set are decided literally, '
            'with an exact-integer brute-force reference of the published orderings, inverse maps on every index, Noll parity / monotone n, ANSI closed form; every valid (n,m) with n<=400/1500 through the nm_to_* maps and back.',
            'Trusted: Python integer arithmetic; bound on j and n as stated (float sqrt/ceil failure modes beyond 2e6 are outside the bound).',
            'exhaustive enumeration of the index space up to the bound against an exact-integer reference model', 'DESIGN.md 4/C11'),
    'C14': ('Round trip: every (shape, value class, NaN pattern, dx, wavelength) cell of the written-file scope through all three writer/reader pairs, with marked-corner ramps so orientation is decided; '
            'fault enumeration: EVERY truncation point (every byte of the binary format, every character of the text format) of every small written file, each outcome classified exception / returned+warned+marked / silent.',
            'Trusted: the file-position -> sample map is measured with a probe file of unique values; files <= 20 samples for truncation; the text format has no length field (recorded known finding: cut inside the last token).',
            'exhaustive scope exploration + exhaustive fault (truncation-point) enumeration on the real writers/readers', 'DESIGN.md 4/C14'),
    'C02': ('Unitarity, inversion and energy laws decided on full operator matrices (all complex deltas) for every shape up to the bound: padded-FFT focus/unfocus (A^H A = I, unfocus.focus = pad), '
            'every band-complete (n, N>=n, Q=N/n) mdft and czt pair in both orders, the public fixed-sampling pair, and angular-spectrum free space over every ordered pair of distances (identity, inverse, additivity, |tf|=1), both precisions.',
            'Trusted: numpy FFT/matmul; shapes [1..6]^2 (quick) / [1..9]^2 (thorough); distances, wavelengths, spacings from finite alphabets; tolerance 2e3 eps (measured <= 0.03 of it).',
            'bounded-exhaustive scope exploration with operator-matrix closure against algebraic identities', 'DESIGN.md 4/C02'),
    'C03': ('Closed-form physics oracle (Dirichlet kernel of a tilted pupil at the physical position k lambda f / D; linear phase of an unfocused displaced spot) evaluated for every enumerated size / parity / Q / unit set / tilt / requested spacing / sample count / shift '
            'through the FFT route with its reported dx and both fixed-sampling routes; no DFT code is used as the oracle.',
            'Trusted: geometric-sum closed form; N in [2..9], non-square pupils for fixed-sampling routes only (a single reported dx cannot describe a non-square FFT grid: necessary conditions only); finite alphabets for real parameters; quick = full product on shapes <= 4, every 7th cell elsewhere.',
            'bounded-exhaustive scope exploration against an analytic (closed-form) reference model', 'DESIGN.md 4/C03'),
    'C05': ('Metamorphic relations decided on operator matrices: linearity, invariance under origin-preserving zero-pad embedding at equal physical sampling (embedding done by the harness), transposition covariance with per-axis arguments swapped, '
            'all-pass full-band mask round trip = identity for every shift, Babinet additivity and Wavefront.babinet; both methods, both directions, real and complex masks of smaller/equal/larger shape.',
            'Trusted: numpy; pupil shapes <= 5 embedded in shapes <= 7 (quick subsets stated in the evidence rule); physical band and shift alphabets; tolerance 2e3 eps.',
            'bounded-exhaustive scope exploration with operator-matrix closure against metamorphic relations', 'DESIGN.md 4/C05'),
    'C06': ('Linear companions: forward operator A and companion B built on full real bases (delta and i*delta on both sides) and compared entry-wise B = A^H for every enumerated geometry (non-square, unequal pupil/mask shapes, Q/shift forms, real/complex masks and Lyot stops, DM pad/crop/shift/per-axis actuators). '
            'Non-linear nodes: at every operating point of finite alphabets and every basis direction the companion contracted with every basis upstream gradient equals the Richardson-extrapolated directional derivative.',
            'Trusted: finite-difference oracle with measured residual (margin >= 260x); DM rotation excluded; czt backprop documented as unimplemented; recorded known finding: DM.render_backprop with upsample != 1.',
            'bounded-exhaustive scope exploration: adjoint-matrix identity on full bases + exhaustive directional derivatives over finite operating-point alphabets', 'DESIGN.md 4/C06'),
    'C09': ('Every derivative routine at every order 0..12 (24 thorough), every shape parameter of the alphabets, every unit coefficient vector of every length 1..8 (12) plus a dense one, every derivative order j accepted, compared with the spectrally exact derivative of the value routine '
            '(Chebyshev / Fourier differentiation of the sampled value routine; complex-step and Richardson for the conic helpers).',
            'Trusted: numpy.polynomial.chebyshev differentiation, complex-step; sums are linear in the coefficients so unit vectors decide every vector of that length; tolerance 1e3 eps cond (measured <= 18).',
            'bounded-exhaustive scope exploration vs spectrally exact differentiation of the value routines', 'DESIGN.md 4/C09'),
    'C10': ('Every unit coefficient vector of every length 1..8 plus a dense one through every fast summation path, every one of the 255 non-empty sparsity patterns of an 8-term (n,m) pool through the 2D-Q packer and evaluator (both term orders), '
            'compared with the explicit sum of coefficient x scalar mode; lstsq over three bases x grids x every single-sample / row / column / aperture mask x NaN, +inf, -inf fills with residuals orthogonal on exactly the valid samples.',
            'Trusted: scalar mode functions as the reference by the property\'s wording; rank-deficient masks decided by matrix_rank and skipped (counted); tolerance 1e3 eps cond (measured <= 0.024 of it).',
            'bounded-exhaustive scope exploration (all unit vectors, all sparsity subsets, all single-sample masks) vs explicit sums', 'DESIGN.md 4/C10'),
    'C12': ('Explicit-state breadth-first search over sequences of real public Interferogram methods (crop, pad, mask, fill, spike_clip, piston/tilt/power removal, recenter, latcal, strip_latcal, filter, and coordinate reads that populate the lazy caches) from 12+ initial states, '
            'states deduplicated by a canonical key (shape, dx, calibration flag, populated caches and their shapes, NaN mask, data digest); after every transition the coordinate-coherence invariants, the validity reference model and the statistics laws are evaluated.',
            'Trusted: plain-numpy reference statistics; depth 3 (quick) / 4-5 (thorough); initial shapes (6,6),(5,7),(6,5) x 4 NaN patterns x dx; the origin of coordinates regenerated after crop is not constrained (path-dependent, outside the statement).',
            'explicit-state model checking: BFS over operation histories on the real object with canonical-state deduplication', 'DESIGN.md 4/C12'),
    'C13': ('Parseval, frequency-axis placement (every PSD sample against an explicit DFT on the returned axes), band additivity over every ordered triple of band edges, monotonicity, full-band bound, and synthesis RMS, '
            'for every shape [3..8]^2 x dx x window (incl. both automatic branches) with the quadratic-form basis (delta_i, delta_i+delta_j) on small shapes and every sinusoid; RNG owned per case.',
            'Trusted: numpy FFT; shapes up to 8 (11 thorough); band edges at mid-points between sample radii; tolerance 1e3 eps cond (silent at 16).',
            'bounded-exhaustive scope exploration with quadratic-form basis closure vs explicit DFT / Parseval reference', 'DESIGN.md 4/C13'),
    'C15': ('conv: every ordered pair of impulses (bilinear closure) against the cyclic translation law plus dense brute force; apply_transfer_functions: every list of length <= 2 from a 12-element TF pool (arrays, callables of every documented signature, partial, bound method) x shift x grid forms as operator matrices vs an explicit DFT reference; '
            'MTF/PTF/OTF laws on every delta, every delta pair and dense non-negative PSFs.',
            'Trusted: explicit DFT reference; shapes [1..5]^2 (7 thorough); tolerance 256 eps (margin >= 44x).',
            'bounded-exhaustive scope exploration with bilinear / operator-matrix closure', 'DESIGN.md 4/C15'),
    'C16': ('Detector.expose with noise removed through the public backend shim for every bit depth 1..32 x gain x bias x full-well x frames x dcnu/prnu x shape with signals straddling every ceiling, against the documented signal-chain reference, range/dtype/shape and monotonicity over all ordered signal pairs; '
            'bindown/tile as operator matrices for every shape and every dividing factor tuple; Bayer decomposition/recomposition/demosaicking operator matrices for every even shape and both CFAs; white-balance limiting.',
            'Trusted: reference signal chain transcribed from the docstrings; axes <= 6 (12 thorough); even shapes [2..8]^2.',
            'bounded-exhaustive scope exploration vs reference model, operator-matrix closure for the linear maps', 'DESIGN.md 4/C16'),
    'C18': ('Every enumerated hexagonal / keystone aperture (grid parity, sampling, rings, diameter incl. overflowing, gap, orientation, exclusion set, rotation) checked for segment count, analytic membership of every sample outside a 1e-9 boundary band, pairwise disjointness, coverage, area bound, and the full (segment, mode) operator matrix of compose_opd; '
            'every mask primitive over size / rotation / offset alphabets for analytic membership, monotone growth and point-group symmetry.',
            'Trusted: analytic half-plane / inequality membership; samples within relative 1e-9 of a boundary are don\'t-care (counted); grids 48..65 (97 thorough).',
            'bounded-exhaustive scope exploration vs analytic geometry reference, operator-matrix closure for compose_opd', 'DESIGN.md 4/C18'),
    'C19': ('Every (surface shape, pose, interaction type) x ray lattice incl. the exact axis x directions, single hops and all prescriptions of length <= 2 (3 thorough) from a posed-surface pool; at every hop: point on surface and on ray, unit direction, reflection law, Snell scalar + coplanarity + transmitted side, '
            'with the unit normal from an independent analytic / Richardson reference; frame transforms as rigid motions. Misses, TIR and out-of-domain starts are excluded by the reference, never by NaNs.',
            'Trusted: closed-form conic geometry; Q-type surfaces built from Q2d_and_der with the r=0 polar singularity excluded (counted); tolerances >= 40x measured.',
            'bounded-exhaustive scope exploration (all short prescriptions) vs independent geometric reference', 'DESIGN.md 4/C19'),
    'C17': ('Every stack of 0..3 layers (4 thorough) from the index x thickness alphabet x exit medium x ambient x wavelength, at every angle of the alphabet incl. Brewster and both polarisations, compared (complex r, t) with an independent admittance-form characteristic-matrix reference, '
            'energy balance with the derived admittance factor, single interface == closed-form Fresnel functions, r_p(theta_B)=0, zero-thickness and half-wave-at-angle absentee insertion at every position, batched == loop for every batch shape and input form.',
            'Trusted: the Macleod/Born-Wolf reference (cross-checked against a Rouard/Airy recursion to 4.6 eps); finite index/thickness/angle alphabets; tolerance 200 eps cond (silent at 6).',
            'bounded-exhaustive scope exploration (all short stacks) vs independent reference model', 'DESIGN.md 4/C17'),
    'C20': ('Every constructor over the retardance / angle / diattenuation / charge / rotation alphabets and every batch shape and subset of array arguments: unitarity, idempotence, Malus, rotation conjugation, reference values; jones_to_mueller on ALL ordered pairs of a matrix pool through both Kronecker paths against a Stokes-definition reference; Pauli reconstruction; '
            'the propagation adapter over all five routines; plus a history part: add_jones_propagation installed 0, 1, 2 (3) times in a sub-process per case, plain and polarised calls compared with never-patched routines.',
            'Trusted: Stokes-definition Mueller reference (Chipman sign convention); finite parameter alphabets; monkey-patching isolated in sub-processes.',
            'bounded-exhaustive scope exploration (all ordered matrix pairs, all argument subsets) + installation-history enumeration in isolated processes', 'DESIGN.md 4/C20'),
}

SUFFIX = (' Every implementation call additionally passes the call-hygiene rules of DESIGN.md 3.7 (arguments not modified, results not aliased to internal state, '
          'repeatable, independent of memory layout incl. non-contiguous views and of reused buffers, results not overwritten by a later call of the same shapes), '
          'and the unit list in the evidence file names the size-threshold, argument-form, value / magnitude, dtype and object- / call-history alphabets that were added '
          'after independently seeded changes showed what small-scope enumeration alone misses (DESIGN.md 3.7, 3.8).')

PENDING_REASON = 'check not built yet in this revision (planned: DESIGN.md section 4); not claimed until its explorer exists and is silent on the fixed tree'


def main():
    props = [json.loads(l) for l in open(os.path.join(ROOT, 'properties.jsonl'))]
    try:
        commits = subprocess.run(['git', '-C', '/repo', 'log', '--format=%H %s', '18b6546..HEAD'], capture_output=True, text=True).stdout.splitlines()
    except Exception:   # noqa
        commits = []
    hook_commits = [c.split()[0] for c in commits if c.split(' ', 1)[1].startswith('verif-hook')]
    checks = []
    na = []
    for p in props:
        pid = p['id']
        if pid in CLAIMED:
            text, note, tech, ref = CLAIMED[pid]
            checks.append({
                'property_id': pid,
                'quick_cmd': f'./check {pid} --tier quick',
                'thorough_cmd': f'./check {pid} --tier thorough',
                'evidence_file': f'/verif/evidence/{pid}.json',
                'replay_cmd_template': f'./check {pid} --replay {{path}}',
                'engine': 'mc',
                'level_claimed': {'category': 'model_checking', 'text': text + SUFFIX, 'design_ref': ref},
                'level_note': note,
                'technique': tech,
            })
        else:
            na.append({'property_id': pid, 'reason': PENDING_REASON})
    man = {
        'version': 1,
        'setup_cmd': '/venv/bin/python -W ignore -m mc.selftest',
        'hooks': {
            'guard': 'PRYSM_VERIF',
            'enable': 'no source hooks are needed: every seam used (prysm.mathops backend shim, executor caches, config.precision, lru caches) is a public module-level object; '
                      './check exports PRYSM_VERIF=1 and puts /repo first on PYTHONPATH so the current working tree is what is imported',
            'baseline_off_cmd': 'cd /repo && /venv/bin/python -m pytest -q -p no:cacheprovider --timeout=900 --continue-on-collection-errors',
            'source_commits': hook_commits,
            'add_only': True,
        },
        'engines': [{'name': 'mc', 'path': '/verif/mc', 'serves_properties': sorted(CLAIMED),
                     'kind_free_text': 'hand-written explicit-state explorer for Python: exhaustive scope enumeration (with basis closure for linear maps), '
                                       'level-synchronous BFS over operation histories on real objects with canonical-state deduplication, and fault (truncation) enumeration; 16 worker processes'}],
        'checks': checks,
        'notes': 'All checks import prysm from /repo\'s working tree in a fresh process (pure Python: nothing to build). known_findings.json lists recorded/fixed defects (89 fix: commits in /repo, 1 known finding); replays/ is written at run time; seeded/ holds the independently seeded changes used to validate detection (DESIGN.md 7). Quick tier: <= 40 s per check on 16 idle cores; thorough: <= 9 min (C01, C17, C08 are the long ones).',
        'not_applicable': na,
    }
    with open(os.path.join(ROOT, 'MANIFEST.json'), 'w') as f:
        json.dump(man, f, indent=1)
    print(f'MANIFEST.json: {len(checks)} checks claimed, {len(na)} not claimed')


if __name__ == '__main__':
    main()
