#!/usr/bin/env python3
"""Regenerate /verif/MANIFEST.json from the table below (single source of truth for what is claimed)."""
import json
import os
import subprocess

ROOT = os.path.dirname(os.path.dirname(os.path.abspath(__file__)))

# property id -> (level text, level note, technique, design_ref)
CLAIMED = {
    'C04': ('Exhaustive enumeration of every axis length / target length / parity combination up to the stated bound, every point-source '
            'position and every pad mode, executed on the real pad/crop/grid/slice/centroid code and compared exactly (integer labels) with '
            'the n//2-origin reference model.  Within the bound the verdict is complete: placement is decided for every sample.',
            'Trusted: numpy indexing, np.pad mode semantics; bound on axis length (quick 12 / thorough 24 in 1-D, 6 / 9 in the 4-index product).',
            'explicit-state bounded-exhaustive scope exploration of the implementation vs exact reference model', 'DESIGN.md 4/C04'),
    'C01': ('For every enumerated (input shape, output shape, Q form, shift form, method, direction, precision) the full operator matrix of the real transform '
            '(all real deltas, all i*deltas, one dense array) is compared with the textbook double sum, so the verdict holds for every input array of that shape; '
            'plus an explicit-state BFS over the shared executors / config.precision (cache-colliding call alphabet) whose invariant is bit-identity with a fresh executor and agreement with the sum.',
            'Trusted: numpy matmul/FFT/exp; shapes up to 4x4 (quick) / 7x7 (thorough); Q and shift from finite alphabets (int/float/tuple/list forms, Q<1, per-axis, integer and fractional shifts); history depth 4 / 5; tolerance 2e3 eps (measured honest error <= 70 eps).',
            'bounded-exhaustive scope exploration with operator-matrix (basis) closure + explicit-state BFS over executor cache / precision histories', 'DESIGN.md 4/C01'),
    'C07': ('Every order up to the bound x every shape parameter of a 10x10 (alpha,beta) grid (all special cases) x every point of a fixed point set, in every input form (scalar, 1-D, 2-D, 3-D, float32), '
            'executed on the real polynomial routines and compared with exact-rational textbook definitions; Gram matrices under exact-degree Gauss rules against diag(h_n); Qbfs/Q2d by their defining slope/gradient orthonormality; '
            'plus a depth-2 history exploration of the lru caches (every ordered pair of a 136-configuration collision alphabet, cold vs warm bit-identity) and whole-enumeration cold/warm sweeps.',
            'Trusted: fractions.Fraction arithmetic, numpy Gauss nodes; orders n<=12 (quick) / 40 (thorough), Zernike n<=12/30, Q2d n,m<=6/10; a polynomial identity of degree d checked at > d points is the identity; tolerance K(n+1) eps cond with >=32x measured margin.',
            'bounded-exhaustive scope exploration vs exact-rational reference + exhaustive depth-2 cache-history exploration', 'DESIGN.md 4/C07'),
    'C08': ('Every non-empty ascending subset of orders [0..6] (quick) / [0..9] (thorough) for each of the 22 one-index *_seq functions, every ordered list of length <=3 from a 9-pair pool for the 4 two-index ones, '
            'x coordinate shapes 0-D..3-D including leading dimension == number of orders x dtypes, each compared mode for mode with the scalar-order function (the relation the property states).',
            'Trusted: the scalar-order functions are the reference by the property\'s own wording (their correctness is C07/C09); subsets of [0..9]; tolerance 64 eps cond (measured <= 1.7).',
            'bounded-exhaustive enumeration of all order subsets / lists x coordinate shapes on the implementation', 'DESIGN.md 4/C08'),
    'C11': ('Direct exhaustive enumeration: every index j up to the end of the row containing 1e5 (quick) / 2e6 (thorough) for Noll, Fringe, ANSI and XY, in row-aligned blocks so that injectivity and surjectivity onto the complete valid set are decided literally, '
            'with an exact-integer brute-force reference of the published orderings, inverse maps on every index, Noll parity / monotone n, ANSI closed form; every valid (n,m) with n<=400/1500 through the nm_to_* maps and back.',
            'Trusted: Python integer arithmetic; bound on j and n as stated (float sqrt/ceil failure modes beyond 2e6 are outside the bound).',
            'exhaustive enumeration of the index space up to the bound against an exact-integer reference model', 'DESIGN.md 4/C11'),
    'C14': ('Round trip: every (shape, value class, NaN pattern, dx, wavelength) cell of the written-file scope through all three writer/reader pairs, with marked-corner ramps so orientation is decided; '
            'fault enumeration: EVERY truncation point (every byte of the binary format, every character of the text format) of every small written file, each outcome classified exception / returned+warned+marked / silent.',
            'Trusted: the file-position -> sample map is measured with a probe file of unique values; files <= 20 samples for truncation; the text format has no length field (recorded known finding: cut inside the last token).',
            'exhaustive scope exploration + exhaustive fault (truncation-point) enumeration on the real writers/readers', 'DESIGN.md 4/C14'),
}

PENDING_REASON = 'check not built yet in this revision (planned: DESIGN.md section 4); not claimed until its explorer exists and is silent on the fixed tree'


def main():
    props = [json.loads(l) for l in open(os.path.join(ROOT, 'properties.jsonl'))]
    try:
        commits = subprocess.run(['git', '-C', '/repo', 'log', '--format=%H %s', '18b6546..HEAD'], capture_output=True, text=True).stdout.splitlines()
    except Exception:   # noqa
        commits = []
    hook_commits = [c.split()[0] for c in commits if c.split(' ', 1)[1].startswith('verif-hook')]
    checks = []
    na = []
    for p in props:
        pid = p['id']
        if pid in CLAIMED:
            text, note, tech, ref = CLAIMED[pid]
            checks.append({
                'property_id': pid,
                'quick_cmd': f'./check {pid} --tier quick',
                'thorough_cmd': f'./check {pid} --tier thorough',
                'evidence_file': f'/verif/evidence/{pid}.json',
                'replay_cmd_template': f'./check {pid} --replay {{path}}',
                'engine': 'mc',
                'level_claimed': {'category': 'model_checking', 'text': text, 'design_ref': ref},
                'level_note': note,
                'technique': tech,
            })
        else:
            na.append({'property_id': pid, 'reason': PENDING_REASON})
    man = {
        'version': 1,
        'setup_cmd': '/venv/bin/python -W ignore -m mc.selftest',
        'hooks': {
            'guard': 'PRYSM_VERIF',
            'enable': 'no source hooks are needed: every seam used (prysm.mathops backend shim, executor caches, config.precision, lru caches) is a public module-level object; '
                      './check exports PRYSM_VERIF=1 and puts /repo first on PYTHONPATH so the current working tree is what is imported',
            'baseline_off_cmd': 'cd /repo && /venv/bin/python -m pytest -q -p no:cacheprovider --timeout=900 --continue-on-collection-errors',
            'source_commits': hook_commits,
            'add_only': True,
        },
        'engines': [{'name': 'mc', 'path': '/verif/mc', 'serves_properties': sorted(CLAIMED),
                     'kind_free_text': 'hand-written explicit-state explorer for Python: exhaustive scope enumeration (with basis closure for linear maps), '
                                       'level-synchronous BFS over operation histories on real objects with canonical-state deduplication, and fault (truncation) enumeration; 16 worker processes'}],
        'checks': checks,
        'notes': 'All checks import prysm from /repo\'s working tree in a fresh process (pure Python: nothing to build). known_findings.json lists recorded/fixed defects; replays/ is written at run time.',
        'not_applicable': na,
    }
    with open(os.path.join(ROOT, 'MANIFEST.json'), 'w') as f:
        json.dump(man, f, indent=1)
    print(f'MANIFEST.json: {len(checks)} checks claimed, {len(na)} not claimed')


if __name__ == '__main__':
    main()
