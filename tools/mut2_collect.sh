#!/bin/sh
# tools/mut2_collect.sh <NN e.g. 04> [extra checks...]  -- collect wave-2 output of property CNN, drop worktree, evaluate + archive as CNN-b<i>
n="$1"; shift
mkdir -p /tmp/mutkeep/b$n && cp /tmp/mut2-c$n/out/* /tmp/mutkeep/b$n/ && git -C /repo worktree remove --force /tmp/mut2-c$n
/verif/tools/mut_wave.sh /tmp/mutkeep/b$n "C$n-b" "C$n" "$@" > /tmp/wave_b$n.log 2>&1
