#!/bin/sh
# tools/mut3_collect.sh <NN>...  -- collect wave-3 output of property CNN, drop worktree, evaluate + archive as CNN-c<i>
for n in "$@"; do
  [ -d /tmp/mut3-c$n/out ] || { echo "no output for $n"; continue; }
  mkdir -p /tmp/mutkeep/c3_$n && cp /tmp/mut3-c$n/out/* /tmp/mutkeep/c3_$n/ && git -C /repo worktree remove --force /tmp/mut3-c$n
  /verif/tools/mut_wave.sh /tmp/mutkeep/c3_$n "C$n-c" "C$n" > /tmp/wave_c3_$n.log 2>&1
  cat /tmp/wave_c3_$n.log
done
