#!/bin/sh
# tools/mut3_collect.sh <NN>...  -- collect wave-4 output of property CNN, drop worktree, evaluate + archive as CNN-c<i>
for n in "$@"; do
  [ -d /tmp/mut7-c$n/out ] || { echo "no output for $n"; continue; }
  mkdir -p /tmp/mutkeep/c7_$n && cp /tmp/mut7-c$n/out/* /tmp/mutkeep/c7_$n/ && git -C /repo worktree remove --force /tmp/mut7-c$n
  /verif/tools/mut_wave.sh /tmp/mutkeep/c7_$n "C$n-g" "C$n" > /tmp/wave_c7_$n.log 2>&1
  cat /tmp/wave_c7_$n.log
done
