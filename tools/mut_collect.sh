#!/bin/sh
# tools/mut_collect.sh <wt-suffix e.g. c16> <tag e.g. C16-a> <Cxx>...   collect a mutant agent's output, drop its worktree, evaluate + archive
n="$1"; tag="$2"; shift 2
mkdir -p /tmp/mutkeep/$n && cp /tmp/mut-$n/out/* /tmp/mutkeep/$n/ && git -C /repo worktree remove --force /tmp/mut-$n
/verif/tools/mut_wave.sh /tmp/mutkeep/$n "$tag" "$@" > /tmp/wave_$n.log 2>&1
