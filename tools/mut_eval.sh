#!/bin/sh
# tools/mut_eval.sh <patch.diff> <demo.py|-> <Cxx> [<Cyy> ...]
# Evaluate one seeded change in a scratch worktree of /repo (never in /repo itself while other runs are active):
#   1. patch applies, 2. repository suite still 795/795, 3. demo fails with / passes without the change,
#   4. each named check reports VIOLATION (exit 1).  Everything is removed afterwards.
patch="$1"; demo="$2"; shift 2
export VERIF_CAP_S="${VERIF_CAP_S:-7200}"   # a loaded machine must not turn a capped (unfinished) run into a "missed"
wt=/tmp/eval-wt-$$; out=/tmp/eval-out-$$
git -C /repo worktree add -q --detach "$wt" HEAD || exit 2
trap 'git -C /repo worktree remove --force "$wt" >/dev/null 2>&1; rm -rf "$out" "$wt"' EXIT
if [ "$demo" != "-" ]; then
  if PYTHONPATH="$wt" /venv/bin/python -W ignore "$demo" >/dev/null 2>&1; then echo "demo: passes WITHOUT change"; else echo "demo: FAILS without change (bad demo)"; fi
fi
git -C "$wt" apply "$patch" || { echo "patch does not apply"; exit 2; }
/verif/tools/baseline.py "$wt" | head -5
if [ "$demo" != "-" ]; then
  if PYTHONPATH="$wt" /venv/bin/python -W ignore "$demo" >/dev/null 2>&1; then echo "demo: PASSES with change (change not demonstrated)"; else echo "demo: fails WITH change"; fi
fi
for pid in "$@"; do
  for tier in quick; do
    VERIF_REPO="$wt" VERIF_OUT="$out" /verif/check "$pid" --tier $tier > "$out.$pid.log" 2>&1; rc=$?
    n=$(grep -c '^VIOLATION' "$out.$pid.log")
    echo "check $pid $tier: exit=$rc violations_lines=$n  first: $(grep -m1 'violation sig' "$out.$pid.log" | cut -c1-220)"
    rm -f "$out.$pid.log"
  done
done
