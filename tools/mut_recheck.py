#!/usr/bin/env python3
"""tools/mut_recheck.py [--all] [name-prefix ...]  -- re-run the named quick checks against archived seeded changes whose
meta.json still lists a missed check (or all of them), in scratch worktrees, in parallel; updates meta.json."""
import glob, json, os, subprocess, sys, concurrent.futures as cf
ROOT = '/verif'
args = [a for a in sys.argv[1:] if not a.startswith('--')]
ALL = '--all' in sys.argv


def one(d):
    m = json.load(open(d + '/meta.json'))
    if str(m.get('status', '')).startswith('rejected'):
        return d, 'rejected', m
    checks = sorted(set(m.get('caught', []) + m.get('missed', [])))
    todo = checks if ALL else m.get('missed', [])
    if not todo:
        return d, 'skip', m
    name = os.path.basename(d)
    wt, out = f'/tmp/re-wt-{name}-{os.getpid()}', f'/tmp/re-out-{name}-{os.getpid()}'
    subprocess.run(['git', '-C', '/repo', 'worktree', 'add', '-q', '--detach', wt, 'HEAD'], check=True)
    try:
        r = subprocess.run(['git', '-C', wt, 'apply', d + '/patch.diff'], capture_output=True, text=True)
        if r.returncode:
            return d, 'patch does not apply to HEAD any more', m
        for c in todo:
            env = dict(os.environ, VERIF_REPO=wt, VERIF_OUT=out, VERIF_WORKERS=os.environ.get('VERIF_WORKERS', '6'), VERIF_CAP_S=os.environ.get('VERIF_CAP_S', '7200'))
            r = subprocess.run([ROOT + '/check', c, '--tier', 'quick'], capture_output=True, text=True, env=env)
            first = next((l.strip()[:200] for l in r.stdout.splitlines() if 'violation sig' in l), '')
            if r.returncode == 1 and 'VIOLATION' in r.stdout:
                m['caught'] = sorted(set(m.get('caught', []) + [c]))
                m['missed'] = [x for x in m.get('missed', []) if x != c]
                m.setdefault('recheck', {})[c] = 'caught: ' + first
            elif r.returncode == 0 and 'NOT EXHAUSTIVE' in r.stdout:
                m.setdefault('recheck', {})[c] = 'capped: the run hit its wall-clock cap before finishing (loaded machine); not judged, previous state kept'
            else:
                m['missed'] = sorted(set(m.get('missed', []) + [c]))
                m['caught'] = [x for x in m.get('caught', []) if x != c]
                m.setdefault('recheck', {})[c] = f'missed (exit {r.returncode})'
        json.dump(m, open(d + '/meta.json', 'w'), indent=1)
        return d, 'done', m
    finally:
        subprocess.run(['git', '-C', '/repo', 'worktree', 'remove', '--force', wt])
        subprocess.run(['rm', '-rf', out, wt])


dirs = sorted(d for d in glob.glob(ROOT + '/seeded/*') if os.path.exists(d + '/meta.json') and (not args or os.path.basename(d).startswith(tuple(args))))
with cf.ThreadPoolExecutor(int(os.environ.get("RECHECK_PAR", "3"))) as ex:
    for d, st, m in ex.map(one, dirs):
        if st != 'skip':
            print(os.path.basename(d), st, 'caught:', m.get('caught'), 'MISSED:' if m.get('missed') else '', m.get('missed') or '')
