#!/bin/sh
# tools/mut_wave.sh <dir with m<i>.diff m<i>_demo.py m<i>_meta.json> <tag e.g. C07-a> <Cxx> [<Cyy>...]
# evaluates every seeded change in the directory (tools/mut_eval.sh) and archives it under /verif/seeded/<tag><i>/
src="$1"; tag="$2"; shift 2
for d in "$src"/m*.diff; do
  i=$(basename "$d" .diff | sed 's/^m//')
  dst=/verif/seeded/$tag$i; mkdir -p "$dst"
  cp "$d" "$dst/patch.diff"; cp "$src/m${i}_demo.py" "$dst/demo.py" 2>/dev/null
  /verif/tools/mut_eval.sh "$dst/patch.diff" "$dst/demo.py" "$@" > "$dst/eval.txt" 2>&1
  python3 - "$src/m${i}_meta.json" "$dst" "$*" <<'PY'
import json, sys
src, dst, checks = sys.argv[1:4]
try: m = json.load(open(src))
except Exception: m = {}
ev = open(dst + '/eval.txt').read()
m['ran'] = 'tools/mut_eval.sh patch.diff demo.py ' + checks + ' (scratch worktree of /repo HEAD, removed afterwards)'
m['evaluation'] = ev.strip().splitlines()
m['suite_ok'] = '795/795' in ev
m['demo_ok'] = 'demo: fails WITH change' in ev and 'demo: passes WITHOUT change' in ev
m['caught'] = [l.split()[1] for l in ev.splitlines() if l.startswith('check ') and 'exit=1' in l]
m['missed'] = [l.split()[1] for l in ev.splitlines() if l.startswith('check ') and 'exit=1' not in l]
json.dump(m, open(dst + '/meta.json', 'w'), indent=1)
print(dst, 'suite_ok' if m['suite_ok'] else 'SUITE-FAIL', 'demo_ok' if m['demo_ok'] else 'DEMO-BAD', 'caught:', m['caught'], 'MISSED:' if m['missed'] else '', m['missed'] or '')
PY
  rm -f "$dst/eval.txt"
done
