#!/bin/sh
# tools/run_all.sh [tier] [seed]  -- run every claimed check, print one line each
tier="${1:-quick}"; seed="${2:-0}"
for i in 01 02 03 04 05 06 07 08 09 10 11 12 13 14 15 16 17 18 19 20; do
  s=$(date +%s)
  VERIF_SEED=$seed /verif/check C$i --tier $tier > /tmp/all_C$i.log 2>&1; rc=$?
  e=$(date +%s)
  echo "C$i exit=$rc $((e-s))s viol=$(grep -c '^VIOLATION' /tmp/all_C$i.log) known=$(grep -c '^KNOWN' /tmp/all_C$i.log) $(grep -m1 'violation sig' /tmp/all_C$i.log | cut -c1-150)"
done
